"""C05 -- edits through the format-preserving parser's dict interface are local and read back.

spec:     spec/ReproDoc.tla restricted to the dict interface (Ops = get/set/del): assignment
          replaces the first occurrence keeping its spelling and comment (dropping other
          occurrences), adds an absent field at the end of its paragraph, deletion removes the
          field's lines only; start documents F/F2 put the edited paragraph between context
          paragraphs and free comments (spec/MC_ReproDoc.tla).
          Field instances of the C05 documents G/G2 and of all recorded histories carry the
          attribute nl ("the field's text ends in a newline", DESIGN 5/C05): a document without
          final newline has nl = FALSE on its very last field, an add supplies it (REnsureNl) and
          nothing ever takes a newline away - invariant DocWellFormed (a field that has a successor
          in dump order ends in a newline: two fields are never glued) and action property
          NlOnlySupplied, checked by TLC over every history of adds / deletes / replacements.
          Assignments of a REJECTED value (blob BadV: not deb822 syntax for one field) are part of
          every configuration: result ValueError, document unchanged (ErrAtomic, CommentsStay).
          Replacement laws (invariant ReplaceLaws = ReplaceLawsOf(RAssign, every reachable paragraph),
          stated independently of RAssign's mechanics): an assignment to a present field leaves the
          instances in front of it untouched, keeps name, spelling and COMMENT BLOB in the target's
          place, and behind it only drops the other occurrences of the name.  A comment blob stands
          for any block of comment lines - also lines made of "#" and blanks only.
binding:  (a) complete LTS replayed into debian._deb822_repro: after every call dump() must equal
              the concatenation of the untouched original texts and the new field text (locality),
              and the value is read back under every case variant, also from a fresh parse;
              every history of <= 3 calls ending in a change is replayed, longer ones sampled
          (b) recorded get/set/del histories on random documents validated by TraceReproDoc.tla
              (events carry nl per field; comparison modulo the newline at the very END only)
negative controls: spec level MC_ReproDoc_neg_nl.cfg (REnsureNl <- identity: TLC must report
          DocWellFormed violated) and MC_ReproDoc_neg_cmt.cfg (an assignment that rebuilds the field
          without its comment block: NegReplaceLaws violated); trace level: corrupted histories (wrong outcome, lost comment,
          a non-last field without newline, a rejected assignment that drops a comment)

API surface / domain (the complete table of entry points and input forms is in the docstring of
harness/repro_common.py, shared with C10); what this check exercises of the statement:
  operation of the statement               model action (ReproDoc.tla)       exercised by
  p[k] = v, p[(k, i)] = v, update,         Assign -> RAssign (replace in     lts legs F F2 G G2 + trace leg,
    setdefault (absent k),                   place keeping spelling/comment,   entry point rotating per call
    set_field_to_simple_value,               add last + REnsureNl)
    set_field_from_raw_string
  the same calls with a value the API      Assign, v = BadV: ValueError,     lts legs (every state, every key: commented,
    rejects: continuation line without       doc' = doc; with an unusable      uncommented, absent, duplicated) + trace leg
    leading blank, empty / blank-only        (name, i) as well either          (1 assignment in 5; also followed by valid
    inner line, another field's line,        error (LookupOrValueError)        ones); IN the domain: "differs only inside
    comment as last line, raw text w/o                                         that field" holds for the next valid edit
    final newline, newline given to                                            only if the failed one changed nothing;
    set_field_to_simple_value                                                  ErrAtomic is a property of the model
  del p[k], del p[(k, i)], pop,            Del                               lts legs + trace leg
    remove_kvpair_element
  p[k], get, configured_view()[k], in,     Get / check_state                 after every call, every case variant
    len, iteration, (k, i) lookup
  histories on a document WITHOUT final    nl attribute, REnsureNl,          lts legs G (unique fields) and G2 (duplicated
    newline: add, add, delete the first      DocWellFormed, NlOnlySupplied     fields), edited paragraph last, its last field
    added; delete + re-add; replace last                                       commented and unterminated; trace leg: 2 of 3
                                                                               documents ending in a paragraph, half of the
                                                                               calls on that paragraph, extra adds
  dump(), dump(fd), convert_to_text(),     doc (text = concatenation of      check_state after every call
    fresh parse of the dump                  instance texts)
  layout of the comment lines: the field's  comment blob c / separator id /    every Conc (lts legs + trace leg): 40 % of the
    own comment block, inner comments of     value blob (opaque: the model       field comments, 25 % of the free comments and 4
    a value, free comments between           says WHICH blob stays where,        of 17 value layouts contain blank comment lines
    paragraphs - text lines and BLANK        ReplaceLaws: the replaced field     ("#", "# ", "#\t", "#  \t ") alone, first, last,
    comment lines ("#" + blanks only) in     keeps its own)                      in the middle, doubled (rc.comment_block,
    every position of a block                                                    CMT_SHAPES); expected text byte for byte
  unspecified (executed, no verdict): whether the document ends in a newline after the last field was
    replaced or after the field following it was deleted again (compared modulo that one newline:
    eq_mod_final_newline / NormEnd); which error a rejected value with an unusable key raises;
    formatting of a newly written value beyond name, comment, read-back value.
  out of domain: deleting the only field of a paragraph; values with characters str.splitlines treats
    as line ends (tlc-idioms note; the pools avoid them); sort/move/insert operations (C10).
input side (SIZE_STRESS part 4): the start document of every replay and of every recorded history
  reaches the parser through one of 17 kinds of line source / file object (list / iterator / generator
  of str or bytes lines, StringIO, BytesIO, real file text / binary / unbuffered, BufferedReader over
  a short-read raw stream, GzipFile / BZ2File / LZMAFile over memory or a real compressed file, gzip
  text wrapper, SpooledTemporaryFile binary / text) and 6 % of the concretizations steer a line end
  (inside a value, between fields, at a separator, at the very end - also the unterminated end) to
  offset 2^k-1 / 2^k / 2^k+1, k = 9..17, in bytes or code points; the expectation is form-independent
  (same TLA+ case); evidence in ctx.extra["file_object_kinds"] and ctx.extra["aligned_cases"].
  Output side: dump(fd) into a binary file object is compared with dump() after every deep step.
"""
import repro_common as rc

MANIFEST = dict(
    technique="TLA+ spec ReproDoc restricted to the dict interface (field instances with a final-newline attribute, rejected assignments), model-checked by TLC over closed configurations (edited paragraph between context paragraphs and comments, or last in a document without final newline); complete LTS replayed into the format-preserving parser; recorded histories validated by TLC (TraceReproDoc)",
    text="Locality is decided literally: the expected dump after each set/add/delete is the concatenation of the byte-identical original texts of all untouched fields, comments and separators with the new field's text at the model's position (an added field last in its paragraph, a replaced field in place with its own comment lines and original spelling), modulo the one permitted final newline - which the model tracks per field (attribute nl: only the very last field of the document may lack it, an add supplies it, nothing takes it away; invariants DocWellFormed / NlOnlySupplied) so that histories such as add, add, delete-the-first on a document without final newline are decided exactly; an assignment the setters reject (ValueError) must leave every byte, comment lines included, where it was; read-back is checked through every case variant of the key on the live object and on a fresh parse of the dump. TLC enumerates every reachable state of the closed configurations (unique and duplicated fields, single- and multi-line and rejected new values, both spellings) and the harness replays every transition (quick: every history of up to three calls that ends in a change, and a seeded sample of the longer ones) and random walks over many layouts (tabs, value on next line, inner comments, non-ASCII, with/without final newline); random histories on random documents are validated by TLC.",
    note="Small-scope: 3 names, 3-field paragraphs; layouts and values sampled per replay. The exact formatting of a newly written value is a diagnostic, the verdict needs name, kept comment, read-back value and untouched surroundings. Trusted: TLC, concretizer, projection by text lookup.",
    design="5 (C05)")

OPS = ["get", "set", "set", "set", "del", "del"]
VALS = (rc.NEWS, rc.NEWM, rc.NEWS, rc.NEWM, rc.BAD)      # one assignment in five is one the setters reject


def PREFER(e, depth):
    return depth <= 1 or (depth == 2 and e["from"] != e["to"])


def nl_negative_control(ctx):
    """non-vacuity of DocWellFormed: an add that does not supply the missing newline is reported"""
    import core
    neg = ctx.tlc("MC_ReproDoc", "MC_ReproDoc_neg_nl.cfg", workers=1, count=False)
    if neg.violated != "DocWellFormed":
        raise core.MachineryError("negative control: an add that leaves the previous field unterminated is not "
                                  "rejected by DocWellFormed (%r)" % (neg.violated,))
    ctx.extra["negative_control_add_without_newline"] = neg.violated


def cmt_negative_control(ctx):
    """non-vacuity of ReplaceLaws: an assignment that rebuilds the field without its comment block is reported"""
    import core
    neg = ctx.tlc("MC_ReproDoc", "MC_ReproDoc_neg_cmt.cfg", workers=1, count=False)
    if neg.violated != "NegReplaceLaws":
        raise core.MachineryError("negative control: a replacement that loses the field's own comment lines is not "
                                  "rejected by the replacement laws (%r)" % (neg.violated,))
    ctx.extra["negative_control_replace_drops_comment"] = neg.violated


def run(ctx):
    quick = ctx.tier == "quick"
    ctx.assumptions += [
        "closed configurations over 3 names with context paragraphs; layouts and values concretized per replay (seeded)",
        "dump compared modulo one newline at the very end of the document",
        "deleting the only field of a paragraph is outside the domain",
        "a rejected value together with an unusable (name, i): either error accepted",
    ]
    also = [lambda: nl_negative_control(ctx), lambda: cmt_negative_control(ctx)]
    # every history of up to three calls whose last call changes the document is replayed (add X, add Y,
    # delete X; replace, delete, add again ...), longer ones as a seeded sample and as random walks
    prefer = PREFER
    if quick:
        # F2q / G2q: the duplicated-fields configurations with one spelling for new fields (a quarter of the
        # edges; both spellings in F / G and, for duplicated fields, in the thorough tier and the trace leg)
        rc.lts_legs(ctx, [("MC_ReproDoc_F.cfg", (1, 2, 3), 1300, 40, 20, 1),
                          ("MC_ReproDoc_F2q.cfg", (1, 2, 3), 1500, 40, 20, 1),
                          ("MC_ReproDoc_G.cfg", (1, 2, 3), 1500, 40, 20, 1),
                          ("MC_ReproDoc_G2q.cfg", (1, 2, 3), 1200, 40, 20, 1)], also, prefer, fast=True)
        rc.trace_leg(ctx, 300, 20, OPS, nl=True, vals=VALS)
    else:
        rc.lts_legs(ctx, [("MC_ReproDoc_F.cfg", (1, 2, 3), 10 ** 9, 1500, 40, 2),
                          ("MC_ReproDoc_F2.cfg", (1, 2, 3), 10 ** 9, 1500, 40, 2),
                          ("MC_ReproDoc_G.cfg", (1, 2, 3), 10 ** 9, 1500, 40, 2),
                          ("MC_ReproDoc_G2.cfg", (1, 2, 3), 10 ** 9, 1500, 40, 2)], also, prefer, fast=True)
        rc.trace_leg(ctx, 6000, 30, OPS, nl=True, vals=VALS)


def replay(ctx, case):
    if case["kind"] == "path":
        return rc.replay_path_case(case)
    if case["kind"] == "trace":
        return rc.replay_trace_case(ctx, case)
    return "unknown case kind"
