"""C16 -- Copyright: a file resolves to the last Files paragraph whose glob matches it.

spec:     spec/Glob.tla       reference GlobMatch / RefMatches / RefFind over code points, and the
                              implementation layer (globs_to_re translation, alternation with a single
                              trailing anchor, re.match vs re.fullmatch, find loop); bounded-exhaustive
                              configurations MC_Glob_*.cfg
          spec/GlobCache.tla  closed model of the per-paragraph files_pattern() cache: SetFiles / RawSet / Match /
                              Find histories incl. the error path (a query that raises, then more queries); raw text,
                              converted value and compiled pattern are separate (negative control ConvMemo = C16-seedI)
          spec/GlobMemo.tla   histories of direct globs_to_re(list) calls within one process (patterns may
                              contain LF / blanks), interleaved with fresh FilesParagraph objects
          spec/GlobFind.tla   histories of ONE document: Files fields re-assigned in place (property setter, or through
                              the Deb822 handle the creator of FilesParagraph(data) kept), add_files_paragraph /
                              add_license_paragraph on documents PARSED with stand-alone License paragraphs anywhere
                              between the Files paragraphs (every layout is an initial state), dump + parse again;
                              lookups return the IDENTITY of a paragraph (negative controls LookupMemo = seeded change
                              C16-seedB, FilesEndCounter = C16-seedJ, ScanStopsAtLicense).  Content classes oth[k] of
                              the fields other than Files: CONTENT-EQUAL paragraphs (copy-and-paste duplicates, also
                              equal to the paragraph being added; Touch edits the other fields) are still two
                              paragraphs (configuration MC_GlobFind_eq.cfg; negative control InsertByValue = the last
                              Files paragraph located by value, C16-seedK).  Fault(f): a call whose caller-supplied
                              argument fails part-way changes nothing (notes/SIZE_STRESS.md part 5)
          spec/TraceGlob.tla  trace validation with the reference operators on concrete code points
binding:  (a) spec -> code: TLC emits one CASE line per pattern list (expected result for EVERY name up
              to the bound), one DOC line per document (expected paragraph index for every name) and
              the complete LTS of the cache and memo models; all are replayed into FilesParagraph
              .create(..).matches(), paragraphs parsed from copyright text, files = .. re-assignment,
              Copyright.find_files_paragraph(), and globs_to_re(list).fullmatch(name) called directly
              (the only way to a pattern that contains a newline), each under several concretizations
              of the literal symbols (regex metacharacters, non-ASCII, case pairs).  Histories on ONE
              paragraph object: a query that raised the format error is followed by further queries
              (same / other names, matches and find), then Files is set to a legal value and back.
              Histories in ONE process: lists whose LF- / blank- / un-separated / '|'-joined text is
              equal are translated in both orders, with FilesParagraph use in between.
          (b) code -> spec: random documents (<= 4 paragraphs x <= 4 patterns x <= 9 symbols, Unicode
              literals, names with LF / blanks / separators), repeated questions, Files re-assignment and
              direct globs_to_re calls on joined / split variants of the same list are driven through the
              real code and the recorded histories are validated by TLC (TraceGlob); corrupted controls
              must be rejected.
size / character stress (notes/SIZE_STRESS.md; harness/size_c16.py): TLC scans at most ~60 code points per
pattern / name; big sizes go through the replay legs with TLC's expectation for the ABSTRACT case, carried
over by two stated arguments: (1) blocks -- every name symbol and every literal / escaped pattern symbol
becomes marker + one shared pad string of length L-1, '?' becomes '?'*L, '*' stays: the verdict of the
reference is the same for every L (TLC checks this itself for L = 3: invariant BlockInvariance), which
gives single patterns of 79..4097+ characters (hyphenated words, dots, long runs, non-NFC sequences in the
pad) and names up to 64 KiB; (2) fillers -- well-formed patterns starting with a literal no name starts
with never match: lists of 1..200 patterns with blank-joined lengths on 72/78/80/256/4096 boundaries (the
i-th of n patterns matches) and documents of 10/100/1000 Files paragraphs (the abstract paragraphs at
random positions).  One case in 22 (quick) / 4 (thorough) gets such a concretization, through create(),
the files setter, parsed text / lines / UTF-8 bytes, or globs_to_re directly.  Recorded histories get the
size dimension where TLC treats it structurally: up to 200 short (hyphenated) patterns per list, every
pattern asked for once, and documents of 100 paragraphs.  Literal pools contain non-NFC/NFKC-stable
characters together with their twins as DIFFERENT literals, case hazards, zero-width / bidi / BOM / soft
hyphen, lone combining marks and non-BMP characters (never str.isspace() characters inside a Files pattern).

negative controls at specification level (each makes TLC report the named violation; thorough re-runs all,
quick four of them): Discipline="prefix" (re.match, the defect repaired by ae99ec4) and
DotAll=FALSE violate MatchesIffGlob, FindFirst=TRUE violates LastWins, StaleCache=TRUE,
KeyBeforeTranslate=TRUE (seeded change C16-seedC) and ConvMemo=TRUE (converted Files value memoised per
object, dropped by the setter only: C16-seedI) violate SameResult, MemoKeyJoined=TRUE with JoinSep =
LF / blank / none (seeded change C16-seedD) violates OutFaithful, LookupMemo=TRUE, FilesEndCounter=TRUE
(insert position of add_files_paragraph kept as a counter: C16-seedJ; also violates ImplOrder) and
ScanStopsAtLicense=TRUE violate FindIsLast InsertByValue=TRUE (last Files paragraph located by value: C16-seedK; also violates ImplOrder) violates FindIsLast
AffixFrom=1 (long lists answered from lookup tables, PREFIX*SUFFIX without the length condition: C16-seedN) violates
MatchesIffGlob (quick runs prefix, ConvMemo, FilesEndCounter, InsertByValue, AffixFrom and MemoKeyJoined/LF).

content-equal paragraphs (round 6).  Two Files paragraphs with the same Files text (same layout), Copyright, License and
extra fields are still two paragraphs of the document: the statement counts paragraphs ("the last Files paragraph in the
document that matches"), not contents, so documents with copy-and-paste duplicates are IN the domain, and so is adding
a paragraph whose content equals that of a paragraph already there (add_files_paragraph documents "inserted directly
after the last FilesParagraph").  The model gives every paragraph a content class oth[k] (0 = content of its own, m > 0 =
shared); the binding writes the class into the X-Tag field ("p<k>" / "dup<m>"), gives the paragraphs of a shared class
one Files layout per history (mostly the one the files setter writes), and numbers the paragraphs that share a tag in
the order they occur after a parse (Doc.parsed).  Both legs: every state / addfiles / touch edge of the closed model
MC_GlobFind_eq (quick: <= 3 Files x <= 1 License paragraphs, 2 pattern lists, 2 classes) + walks; recorded histories
in which 30% of the documents hold a duplicated paragraph and 40% of the paragraphs added to those are copies.

faults of caller-supplied objects (notes/SIZE_STRESS.md part 5).  Ordinary steps of the GlobFind histories (edge
"fault", every state) and of the recorded histories (event "fault"): the dump of the live document parsed from a
generator of str / bytes lines, a list iterator or a BufferedReader / TextIOWrapper over a raw stream that raises
(OSError, ValueError, KeyError, UnicodeDecodeError, a private exception class) or ends early at the first / a middle /
the last step (also in the middle of a multi-byte character); c.dump(fd) with an fd whose k-th write() raises or is
short; p.files = / FilesParagraph.create( / globs_to_re( an iterable that raises after 0..9 patterns or yields a None.
What the faulted call itself does is not an observable of C16 (logged in ctx.extra["faulted_calls"], never judged); the
model says NOTHING changed, which the following ordinary steps show: lookups on the same document, edits, a fresh parse
of the same text in the same process (the model's Reparse step is put behind every other failed parse).

number of patterns (round 7).  "all lists of 1..n patterns": TLC enumerates lists of <= 2 patterns; that the verdict of a
list does not depend on HOW MANY patterns it has is the filler argument (2) above, and it is applied to EVERY single-pattern
case TLC emits (patterns of <= 3 symbols, names <= 2; thorough names <= 3) and to one in 27 of the two-pattern cases: each is
replayed once within a list of few (2..15) and once within a list of many (16..65) patterns (size_c16.COUNTS_FEW /
COUNTS_MANY; the real patterns at a random position), everything else small.  That covers the one-star globs whose prefix
ends like the suffix starts (a*a .*. /*/) against the names in which the two would have to OVERLAP ('a').  Recorded
histories: patterns of that shape (w*w, uw*wv, 'cd/*/cd' in the long lists of 9..200 patterns) and names in which the text
around a '*' overlaps or touches with one character dropped (overlap_name) are drawn in every history.  Specification:
negative control AffixFrom = 1 of Glob.tla (lists answered from lookup tables, PREFIX*SUFFIX by startswith + endswith
without the length condition: C16-seedN) violates MatchesIffGlob (<<a,*,a>> / a).

paragraph separators (round 7).  The paragraphs of a PARSED document are separated by 1..3 lines, every mix of empty and
whitespace-only (blanks / tabs) lines (rand_gap; key "gap" of a paragraph's layout = the lines in front of it, also in
front of the first paragraph and of stand-alone License paragraphs): deb822 takes both kinds as paragraph ends and skips
any number of them in front of a paragraph (Deb822._blank_line_whitespace / _initial_blank_line; Debian bug 715558), and the
statement speaks of "the last Files paragraph in the document", so a paragraph that vanishes behind such a separator
breaks it (seeded change C16-seedM: an empty line FOLLOWED by a whitespace-only one ends the document).  No model has a
text level -- documents are sequences of paragraphs in Glob / GlobFind / TraceGlob -- so this is a concretization pool of
the binding, used by every leg that parses a text the harness wrote (match / doc / size documents / find histories /
recorded histories, every input form incl. legacy bytes and aligned file objects); texts the library dumped keep the
library's separators.  A document that shows fewer Files paragraphs than were written is reported by the replay legs (the
recording leg alone would only count it as a history that could not be set up).

identity.  find_files_paragraph is judged by the IDENTITY of the paragraph it returns (DESIGN.md: "identity of the
returned paragraph"): the number of the paragraph in the order the Files paragraphs came into the document (text
order for a parsed document, then every add_files_paragraph).  The harness follows the objects (`is`) and puts the
number into an extra field (X-Tag) of every paragraph it writes, so the identity survives dump + parse (paragraphs of a
shared content class carry the same tag and are numbered by order of occurrence among themselves: content-equal
paragraphs cannot be told apart in a text, and a swap of two of them is not observable by any later step either).
A position in all_files_paragraphs() is NOT used: a paragraph inserted at the wrong place would shift the positions.

API surface / input forms (notes/API_SURFACE.md, notes/SIZE_STRESS.md part 4; harness/forms_c16.py) -> leg:
  FilesParagraph.create(files, ..)                        replay match/doc/cache/find/memo, trace   ("prog", origin create)
  p.files = list / tuple (setter), after the cache is warm  replay (route prog-set, setfiles edges), trace
  FilesParagraph(data) / (data, strict=False) over a Deb822 the caller keeps: built from a dict, from the lines of
      the paragraph, taken from Deb822.iter_paragraphs     replay match/doc/cache/find (routes prog-ctor, prog-raw,
                                                          prog-text, prog-iter, prog-mix; origins of addfiles), trace
  Files rewritten THROUGH THAT Deb822 (data['Files'] / ['files'] / ['FILES'] = text in any layout, data.update)
                                                          rawset edges of GlobCache / GlobFind, route prog-raw, trace;
      in domain: the RestrictedWrapper docstring lets the creator keep the Deb822, the wrapper shows the new text
      (p['Files'], p.files, dump()), so "its patterns" are the new ones; del data['Files'] (a Files paragraph
      without Files field) is outside the statement and never done
  a second FilesParagraph wrapper over the same Deb822     matches() of cache / trace histories rotate to the alias
  a paragraph object that belongs to two documents         origin "borrowed" of addfiles (find / trace histories)
  other fields edited (copyright / license / comment setters, p['X-..'] = .., raw Copyright / License)
                                                          touch events of the trace leg (must change nothing)
  p.matches(name), p.files_pattern() (through matches)     every leg
      on paragraphs with 1..2, 2..15 and 16..65 patterns (every single-pattern case of TLC), 1..200 sampled; recorded
      histories with lists of 9..200 patterns, names overlapping around a '*'
  globs_to_re(list) directly, .fullmatch                   replay direct / memo, trace translate / query
  Copyright(sequence): io.StringIO, list of str lines with / without newline, tuple, generator of str / bytes lines,
      list of bytes lines, one str / one bytes, io.BytesIO, real file text / binary / unbuffered, BufferedReader and
      TextIOWrapper over a raw stream with short reads, GzipFile / gzip text / BZ2File / LZMAFile over real files,
      SpooledTemporaryFile text / binary; strict=False, encoding='utf-8' given; bytes with legacy-encoded lines
                                                          replay doc / find / match (rotating sample), trace;
      with a line end exactly at / one before / one after 2^9..2^17 (padded header field, single line or folded;
      inside a Files value, between fields, at a separator, at the end): replay doc / find (ctx.extra aligned_cases)
      paragraphs separated by 1..3 empty / whitespace-only lines in every mix (layout key "gap"): every leg that parses
  a document with CONTENT-EQUAL Files paragraphs (parsed or built), add_files_paragraph(a paragraph content-equal to one
      of the document), other fields edited until two paragraphs are equal / no longer equal
                                                          find_eq histories (MC_GlobFind_eq: addfiles / touch edges), trace
  the same calls with a FAULTING caller-supplied argument: Copyright(lines / file object that raises or ends early),
      c.dump(fd that fails), p.files = / create( / globs_to_re( iterable that raises ), then ordinary steps
                                                          fault edges of GlobFind (both configurations), trace event fault
  Copyright() + add_files_paragraph / add_license_paragraph   routes prog*, addfiles / addlicense edges on documents of
      every origin (parsed with License paragraphs before / between / after the Files paragraphs, programmatic,
      re-parsed), trace
  Copyright.find_files_paragraph(name)                     replay doc / cache / find, trace (identity)
  c.dump() / c.dump(f) + Copyright(..) again               reparse edges of GlobFind, trace (not on legacy documents:
      what a legacy line decodes to is unspecified and need not survive a dump)
  all_files_paragraphs() / all_paragraphs() / iteration order, Header, License paragraphs themselves: not observables
      of C16 (only used to set documents up); there is no public way to remove a paragraph.

Domain decisions (read off copyright.py and the property's quantifier "patterns over literals, '*', '?',
escapes and newlines"): the Files field is whitespace-separated, so a pattern that contains whitespace
cannot be the pattern of a Files paragraph, but it is a legal argument of globs_to_re(list): for such lists
globs_to_re(ps).fullmatch(name) -- exactly what FilesParagraph.matches computes -- is a VERDICT observable.
Lists with an EMPTY pattern and the empty list are unspecified (quantifier: 1..n patterns; create() is
executed and any ValueError/TypeError or success is accepted, globs_to_re is a diagnostic only).  Names
are arbitrary (LF, blanks, U+2028 ... are in the domain: '*' and '?' must match them).  An illegal escape
is reported (ValueError) whenever the paragraph is asked to match -- every time, not only the first -- or
eagerly when Files is assigned.  find_files_paragraph on a document that contains an ill-formed
paragraph: ValueError or the last well-formed matching paragraph are both accepted (the statement does
not order the two), but the same question on the unchanged document must get the same answer.
Private attributes of the library are only ever read inside try/except as diagnostics (spec_drift).
"""
import concurrent.futures
import io
import itertools
import json
import os
import random
import re
import time

import core
import forms_c16 as fm
import size_c16 as sz
from lts import LTS, skey, strip

MANIFEST = dict(
    technique="TLA+ spec (Glob: recursive glob reference + regex-translation/alternation/anchor/match-discipline implementation layer; GlobCache: per-paragraph files_pattern cache machine incl. its error path and Files rewritten through the underlying Deb822; GlobMemo: process-wide histories of direct globs_to_re calls; GlobFind: histories of one document -- Files edited, paragraphs added to parsed documents with License paragraphs in between, dump + re-parse -- content classes for copy-and-paste duplicate paragraphs, faulted calls that change nothing -- with lookups judged by paragraph identity) model-checked by TLC over all pattern lists and names up to a bound; expected results for every (pattern list, name) and (document, name) emitted by TLC and replayed into FilesParagraph.matches / parsed paragraphs / find_files_paragraph; recorded histories validated by TLC (TraceGlob)",
    text="TLC enumerates every list of <= 2 patterns of length <= 2 over {a, *, ?, backslash, LF} against every name up to length 2 (thorough, with 'b', '/' and '.' added: 1 pattern x <= 3 with names <= 4, 2 x <= 2 with names <= 3, and 2 x <= 3 with names <= 3 over the 4 symbols a * ? backslash) and checks that the model of globs_to_re + fullmatch agrees with the recursive glob reference, that exactly the ill-formed lists raise, and that the find loop returns the last matching paragraph of every document of <= 3 paragraphs; the re.match discipline (defect fixed by ae99ec4), a non-DOTALL dot, first-match-wins and a stale cache are rejected by TLC in every run. The expected results printed by TLC are replayed on the real code through create(), text parsing with multi-line Files fields, Files re-assignment (cache) and find_files_paragraph under literal concretizations chosen to hit re.escape and flags; random Unicode histories are validated by TLC against the reference. One paragraph object is also driven through error-path histories (a query that raised the format error, further queries, Files set to a legal value and back) from the closed cache model, and lists whose joined text coincides (['a\\nb'] vs ['a','b'], blank, no separator, '|') are translated in both orders within the process from the memo model; a cache key stored before translation and a memo keyed by the joined text are rejected by TLC. Histories of one document come from the closed model GlobFind (every layout of <= 3 Files and <= 2 stand-alone License paragraphs is a parsed document the history may start from): Files rewritten through the property setter or through the Deb822 object the creator of FilesParagraph(data) kept, add_files_paragraph / add_license_paragraph, dump and parse again, with every lookup judged by the IDENTITY of the returned paragraph (followed by object identity and by a tag field that survives a dump); a memoised converted Files value, an insert position kept as a counter, a scan that stops at a License paragraph and an insert position located by the VALUE of the last Files paragraph are rejected by TLC. Documents hold content-equal (copy-and-paste) Files paragraphs, paragraphs equal to an existing one are added, and the other fields are edited until paragraphs become equal (content classes of the model GlobFind, configuration MC_GlobFind_eq): such paragraphs stay two paragraphs. Calls whose caller-supplied argument fails part-way (line iterators / file objects that raise or end early, a failing file passed to dump, pattern iterables that raise) are ordinary steps of the document histories that must change nothing. Every single-pattern case is also replayed as one pattern of a list of 2..15 and of a list of 16..65 patterns (a lookup-table shortcut for long lists that tests PREFIX*SUFFIX by startswith + endswith is rejected by TLC). The paragraphs of every parsed document are separated by 1..3 empty / whitespace-only lines in every mix. Documents reach Copyright() through every kind of line sequence and file object (text/binary/unbuffered files, short reads, gzip/bz2/lzma, spooled files, generators), a rotating sample with a line end placed exactly at / next to 2^9..2^17.",
    note="Small-scope: bounds above; concretization of literal symbols is sampled (seeded). Patterns containing whitespace (LF, blanks) are only reachable through globs_to_re(list) and are judged there (globs_to_re(ps).fullmatch(name)). What a call with a faulting caller-supplied argument itself raises / returns is not judged (logged), only that the document behaves as before afterwards. Unspecified: lists with an empty pattern, the empty list, find on documents with an ill-formed paragraph (ValueError or last well-formed match), a Files paragraph whose Files field was deleted through the Deb822 handle (never done), dump + re-parse of documents with legacy-encoded lines (never done). Document order is the order in which the Files paragraphs came into the document (add_files_paragraph: behind the last Files paragraph); the position of License paragraphs is not an observable. Sizes beyond what TLC scans (patterns up to 4097+ characters, names to 64 KiB, 200 patterns, 1000 paragraphs) are reached by the block and filler arguments of harness/size_c16.py (the block argument is itself model-checked for L = 3). Trusted: TLC, the 1:1 renaming of literal code points, those two arguments, the projection (bool of matches(), identity index of the returned paragraph).",
    design="5 (C16)")

W = int(os.environ.get("VERIF_TLC_WORKERS", "8"))
# debugging aid: run only some binding legs (all by default), e.g. VERIF_C16_LEGS=trace
LEGS = set(os.environ.get("VERIF_C16_LEGS", "match,doc,cache,memo,find,trace").split(","))
JOPTS = ["-XX:ParallelGCThreads=2", "-Xss64m"]      # 16 GC threads cost more than they give on these small heaps

STAR, QM, BS, LF = 42, 63, 92, 10
# concrete literal characters: regex metacharacters, punctuation, non-ASCII, case pairs, non-BMP
LIT_POOL = list(".+()[]{}$^|-#&~<>=,:;!@%\"'`_/") + list("aZ09bB") + \
    ["\u00e9", "\u00c9", "\u00df", "\u1e9e", "\u017f", "s", "S", "k", "K", "\u212a", "\u4e2d", "\U0001d4b3",
     "\x7f", "\u0130", "i", "\u0131", "I", "\u00b5", "\u03bc"]
LIT_POOL += ["\u212b", "\u00c5", "\u2126", "\u03a9", "\uf9d0", "\u985e", "\ufb01", "\uff21", "\u0301", "\u1100", "\ufeff",
             "\u200d", "\u200c", "\u00ad", "\u200e", "\u200b", "\U0001f600", "\U0010ffff", "\u03c2", "\u03c3", "\U00010400"]
# (not NFC/NFKC-stable, its twin) and case hazards: as DIFFERENT literals a, b of one case
CASE_PAIRS = [("\u212b", "\u00c5"), ("\u2126", "\u03a9"), ("\uf9d0", "\u985e"), ("\uff21", "A"), ("\u0130", "i"), ("\u03c2", "\u03c3"),
              ("\u00df", "\u1e9e"), ("\U00010400", "\U00010428")] + [("k", "K"), ("K", "k"), ("s", "\u017f"), ("\u00e9", "\u00c9"), ("K", "\u212a"), ("z", "Z")]
assert all(not c.isspace() and c not in "*?\\" for c in LIT_POOL) and len(set(LIT_POOL)) == len(LIT_POOL)


# ------------------------------------------------------------------ TLC plumbing

def cfg_text(name, inv=None, props=None, **subst):
    """configuration derived from a file under spec/: constants replaced, optionally the
    SPECIFICATION (key SPEC) and the list of invariants / action properties checked"""
    s = open(os.path.join(core.SPEC, name)).read()
    for k, v in subst.items():
        if k == "SPEC":
            s, cnt = re.subn(r"(?m)^SPECIFICATION \w+", "SPECIFICATION " + v, s)
        else:
            s, cnt = re.subn(r"(?m)^(\s*%s\s*=\s*).*$" % k, lambda m: m.group(1) + v, s)
        if cnt != 1:
            raise core.MachineryError("cfg %s: cannot substitute %s" % (name, k))
    if inv is not None or props is not None:
        s = re.sub(r"(?m)^(INVARIANT|PROPERTY) .*\n", "", s)
        s += "".join("INVARIANT %s\n" % i for i in inv or [])
        s += "".join("PROPERTY %s\n" % i for i in props or [])
    return s


def exec_jobs(ctx, jobs, par):
    """run TLC jobs concurrently (no bookkeeping: safe to call from several threads)"""
    timeout = 900 if ctx.tier == "quick" else 3600

    def one(j):
        return core.run_tlc(j["module"], j["cfg"], ctx.work, workers=j.get("workers", 1),
                            want_tags=j.get("tags", set()), timeout=timeout, java_opts=JOPTS)

    with concurrent.futures.ThreadPoolExecutor(par) as ex:
        futs = [ex.submit(one, j) for j in jobs]
        return [f.result() for f in futs]


def book_jobs(ctx, jobs, results):
    """bookkeeping in list order.
    job: dict(name, module, cfg, workers, tags, expect=<invariant a negative control must violate>)"""
    out = {}
    for j, r in zip(jobs, results):
        ctx.tlc_runs.append({"module": j["module"], "config": j["name"], "generated": r.generated,
                             "distinct": r.distinct, "depth": r.depth, "wall_s": round(r.wall, 2),
                             "violated": r.violated})
        if j.get("expect"):
            if r.violated != j["expect"]:
                raise core.MachineryError("negative control %s: expected TLC to report %s, got %r"
                                          % (j["name"], j["expect"], r.violated))
            ctx.extra.setdefault("spec_negative_controls", {})[j["name"]] = "violates " + r.violated
        else:
            if r.violated:
                raise core.MachineryError("specification %s (%s) violates %s\n%s"
                                          % (j["module"], j["name"], r.violated, r.tail))
            ctx.states += r.distinct
            ctx.transitions += r.generated
        out[j["name"]] = r
    return out


# ------------------------------------------------------------------ concretization

def conc_map(rng, kind):
    """injective renaming of the literal model symbols a b / . ; specials and LF stay"""
    if kind == "canon":
        return {}
    while True:
        if kind == "case":
            a, b = rng.choice(CASE_PAIRS)
            m = {97: ord(a), 98: ord(b), 47: 47, 46: 46}
        elif kind == "uni":         # every literal becomes a non-ASCII character (multi-byte in UTF-8)
            x = rng.sample([c for c in LIT_POOL if ord(c) > 127], 4)
            m = {97: ord(x[0]), 98: ord(x[1]), 47: ord(x[2]) if rng.random() < 0.5 else 47, 46: ord(x[3]) if rng.random() < 0.5 else 46}
        else:
            x = rng.sample(LIT_POOL, 4)
            m = {97: ord(x[0]), 98: ord(x[1]),
                 47: ord(x[2]) if rng.random() < 0.4 else 47,
                 46: ord(x[3]) if rng.random() < 0.4 else 46}
        if len(set(m.values())) == 4:
            return m


def cstr(m, cps):
    return "".join(chr(m.get(c, c)) for c in cps)


def jmap(m):
    return {str(k): v for k, v in m.items()}


def unjmap(j):
    return {int(k): v for k, v in j.items()}


def representable(ps):
    """can this pattern list be the value of a Files field?"""
    return len(ps) > 0 and all(len(p) > 0 and LF not in p for p in ps)


SEPS = [" ", " ", "  ", "\t", "\n ", "\n\t", " \n "]
# separators a too-coarse memo key might join a pattern list with
JOINERS = ["\n", "\n", " ", "", "|", ",", "\x00", "', '", "\t"]


# lines a paragraph separator of a parsed document is made of: empty and whitespace-only (blanks / tabs) lines
GAP_LINES = ["", "", "", " ", "  ", "\t", " \t "]


def rand_gap(rng):
    """the separator in front of a paragraph of a document text: 1..3 lines, every mix of empty and whitespace-only ones
    (deb822: both end a paragraph, any number of them may follow one another)"""
    if rng.random() < 0.35:
        return [""]
    return [rng.choice(GAP_LINES) for _ in range(rng.randint(1, 3))]


def gap_text(lay):
    return "".join(g + "\n" for g in (lay or {}).get("gap", [""]))


def gaps_for(order, lays):
    """separator text in front of every item of `order`: that of the paragraph's layout; in front of a stand-alone
    License paragraph the (reversed) one of the next Files paragraph, else of the last one"""
    out = []
    fs = [it for it in order if it != "L"]
    for i, it in enumerate(order):
        if it != "L":
            out.append(gap_text(lays[it]))
            continue
        nxt = [x for x in order[i + 1:] if x != "L"]
        k = nxt[0] if nxt else (fs[-1] if fs else None)
        g = list(reversed((lays[k] or {}).get("gap", [""]))) if k is not None else [""]
        out.append("".join(x + "\n" for x in g))
    return out


def rand_seps(rng, npat, textual):
    if not textual:
        return {"first": "", "seps": [" "] * max(0, npat - 1)}
    return {"first": rng.choice(["", "", "\n ", "\n\t"]), "seps": [rng.choice(SEPS) for _ in range(max(0, npat - 1))],
            "gap": rand_gap(rng)}


# ------------------------------------------------------------------ driving the real code

class _Textual:
    """input forms that go through the deb822 parser.  "legacy:<n>" = a BYTES document (list of bytes lines /
    binary file object / one bytes string) in which some OTHER line -- a Copyright / Comment field of the
    header, of the same Files paragraph (before or after its Files line), of a neighbouring Files paragraph
    or a License text line -- is not valid UTF-8 (Latin-1 / cp1252 bytes), while the Files patterns are
    UTF-8; <n> seeds where the legacy lines go.  What the legacy line decodes to is unspecified and never
    looked at (chardet's guess may vary); only matches / find_files_paragraph are judged."""

    def __contains__(self, route):
        return route in ("text", "lines", "bytes") or route.startswith("legacy:") or route.startswith("fobj:")


TEXTUAL = _Textual()
LEGACY = [b"2003-2005 Adeodato Sim\xf3 <dato@net.com.org.es>", b"\x93quoted\x94 caf\xe9 na\xefve", b"M\xfcller & S\xf8n GmbH, Stra\xdfe 5",
          b"\xe9", b"Fran\xe7ois \xc9t\xe9 \xa9 1999", b"\xa9 2001 \xc5ke \xd6stlund", b"Jos\xe9 Mar\xeda Garc\xeda-L\xf3pez"]


def legacy_document(seed, paras, order, lays, tags):
    """the document as bytes with legacy-encoded lines placed by a generator seeded with `seed`"""
    r = random.Random("legacy-%s" % seed)
    chunks = []
    placed = 0
    items = list(order)
    must = r.randrange(len(items) + 1)       # at least one legacy line somewhere
    head = HEADER.encode("utf-8")
    if must == len(items) or r.random() < 0.25:
        head += b"Comment: " + r.choice(LEGACY) + b"\n"
        placed += 1
    chunks.append(head)
    for pos, it in enumerate(items):
        force = pos == must
        if it == "L":
            if force or r.random() < 0.3:
                chunks.append(b"License: MIT\n Permission is hereby granted by " + r.choice(LEGACY) + b".\n")
            else:
                chunks.append(LICPARA.encode("utf-8"))
            continue
        text = files_para_text(paras[it], lays[it], tags[it])
        files_line, rest = text.split("\nCopyright: ", 1)
        files_b = ("X-Tag: %s\n" % tags[it] + files_line + "\n").encode("utf-8")
        how = r.choice(["before", "before", "after", "comment-before", "comment-after"]) if (force or r.random() < 0.5) else "none"
        lg = r.choice(LEGACY)
        if how == "before":          # the Copyright field (legacy bytes) listed BEFORE the Files field
            chunks.append(b"Copyright: " + lg + b"\n" + files_b + b"License: GPL-2+\n")
        elif how == "after":
            chunks.append(files_b + b"Copyright: " + lg + b"\nLicense: GPL-2+\n")
        elif how == "comment-before":
            chunks.append(b"Comment: " + lg + b"\n" + files_b + b"Copyright: 2024 Someone\nLicense: GPL-2+\n")
        elif how == "comment-after":
            chunks.append(files_b + b"Copyright: 2024 Someone\nLicense: GPL-2+\nComment: " + lg + b"\n")
        else:
            chunks.append(text.encode("utf-8"))
    data = chunks[0] + b"".join(g.encode("utf-8") + ch for g, ch in zip(gaps_for(items, lays), chunks[1:]))
    form = r.choice(["lines", "file", "whole"])
    if form == "lines":
        return [ln + b"\n" for ln in data.split(b"\n")]
    if form == "file":
        return io.BytesIO(data)
    return data
HEADER = "Format: https://www.debian.org/doc/packaging-manuals/copyright-format/1.0/\n"
LICPARA = "License: MIT\n Permission is hereby granted.\n"
SCRATCH = None          # directory for real files behind file-object forms (ctx.work; set by run / replay)
FORMS = None            # forms_c16.Schedule of this run


def field_text(pats, lay):
    """the raw text of a Files field holding pats, laid out as lay says"""
    return lay["first"] + pats[0] + "".join(s + p for s, p in zip(lay["seps"], pats[1:]))


def files_para_text(pats, lay, tag=None):
    """tag: value of an extra field (X-Tag) by which the harness finds the paragraph again after dump + parse.
    "p<k>" = a value only the paragraph with identity k has; paragraphs that share a tag, the Files text and
    the layout are CONTENT-EQUAL (copy-and-paste duplicates: GlobFind.tla, oth) and are told apart by the
    order in which they occur (Doc.parsed)"""
    return "Files:%s%s\nCopyright: 2024 Someone\nLicense: GPL-2+\n%s" % (
        "" if lay["first"] else " ", field_text(pats, lay), "" if tag is None else "X-Tag: %s\n" % tag)


def unique_tags(n):
    return ["p%d" % (i + 1) for i in range(n)]


# how a Files paragraph comes into being programmatically.  With a HANDLE: the Deb822 object handed to
# FilesParagraph(data) is kept by the harness, as the RestrictedWrapper docstring allows its creator to
ORIGINS = ["create", "set", "ctor", "raw", "text", "iter", "borrowed", "ctor-lax"]
TEXT_ORIGINS = ("ctor", "raw", "text", "iter", "borrowed", "ctor-lax")
PROG_ROUTES = {"prog": "create", "prog-set": "set", "prog-ctor": "ctor", "prog-raw": "raw", "prog-text": "text",
               "prog-iter": "iter", "prog-borrow": "borrowed", "prog-mix": None}
REPARSE_KINDS = ["stringio", "lines", "lines-nonl", "gen-str", "bytesio", "bytes-lines", "file-text", "file-bin", "shortread",
                 "spooled-text", "gzip", "whole-bytes"]
TOUCHES = ["copyright", "license", "comment", "custom", "raw-copyright", "raw-license", "comment-none"]


def make_paragraph(pats, origin, lay, tag):
    """-> (FilesParagraph, Deb822 handle or None)"""
    from debian import copyright as C
    from debian import deb822
    d = None
    if origin == "create":
        p = C.FilesParagraph.create(list(pats), "2024 Someone", C.License("GPL-2+"))
    elif origin == "set":           # fill the cache with another value first, then assign Files
        p = C.FilesParagraph.create(["zz-placeholder*"], "2024 Someone", C.License("GPL-2+"))
        p.matches("zz-placeholder1")
        p.files = list(pats)
    elif origin in ("ctor", "raw", "ctor-lax"):
        value = field_text(pats, lay)
        d = deb822.Deb822({"Files": "zz-placeholder*" if origin == "raw" else value,
                           "Copyright": "2024 Someone", "License": "GPL-2+"})
        p = C.FilesParagraph(d, strict=False) if origin == "ctor-lax" else C.FilesParagraph(d)
        if origin == "raw":         # used once, then the Files field is rewritten through the handle
            p.matches("zz-placeholder1")
            d["Files"] = value
    elif origin == "text":
        d = deb822.Deb822(files_para_text(pats, lay).split("\n"))
        p = C.FilesParagraph(d)
    elif origin == "iter":
        d = next(iter(deb822.Deb822.iter_paragraphs(io.StringIO(files_para_text(pats, lay)))))
        p = C.FilesParagraph(d)
    elif origin == "borrowed":      # a paragraph object that also belongs to another, parsed document
        other = C.Copyright(io.StringIO(HEADER + gap_text(lay) + files_para_text(pats, lay)))
        p = list(other.all_files_paragraphs())[0]
    else:
        raise core.MachineryError("unknown paragraph origin %r" % (origin,))
    p["X-Tag"] = tag
    return p, d


# ---- faults of caller-supplied objects (notes/SIZE_STRESS.md part 5; GlobFind.tla Fault): the argument of a call
# fails part-way; in the model NOTHING changes, the history goes on with ordinary steps on the same objects.

class CallerFault(Exception):
    """an exception class only the caller knows"""


FAULT_KINDS = ["parse", "dump", "setfiles", "translate"]
FAULT_EXC = [OSError, ValueError, KeyError, CallerFault, UnicodeDecodeError]
FAULT_LOG = {}          # "<kind>/<variant>: <outcome>" -> count (diagnostics: ctx.extra["faulted_calls"])


def _raise(exc):
    if exc is UnicodeDecodeError:
        raise UnicodeDecodeError("utf-8", b"\xc3", 0, 1, "caller-made")
    raise exc("caller-made fault")


def faulty_iter(items, at, exc):
    """yields items[:at], then raises exc (exc None: just stops = early end of the input)"""
    for x in items[:at]:
        yield x
    if exc is not None:
        _raise(exc)


class FaultyRaw(io.RawIOBase):
    """raw stream under an io.BufferedReader: short reads; after `at` bytes read() raises exc or reports EOF
    (possibly in the middle of a multi-byte character)"""

    def __init__(self, data, at, exc):
        self.data, self.pos, self.at, self.exc = data, 0, at, exc

    def readable(self):
        return True

    def readinto(self, b):
        if self.pos >= self.at:
            if self.exc is None:
                return 0
            _raise(self.exc)
        n = min(len(b), 1 + self.pos % 7, self.at - self.pos)
        b[:n] = self.data[self.pos:self.pos + n]
        self.pos += n
        return n


class FaultyWriter:
    """text file whose write() fails at the `at`-th call: raises exc, or (exc None) takes only half of the
    string and says so"""

    def __init__(self, at, exc):
        self.at, self.exc, self.calls, self.got = at, exc, 0, []

    def write(self, text):
        self.calls += 1
        if self.calls == self.at:
            if self.exc is None:
                self.got.append(text[:len(text) // 2])
                return len(text) // 2
            _raise(self.exc)
        self.got.append(text)
        return len(text)

    def flush(self):
        pass


def fault_at(r, n):
    """the first, a middle or the last step of n"""
    return r.choice([0, 0, n // 2, max(0, n - 1), n])


def faulted_call(doc, kind, r):
    """carry out one call of `kind` whose caller-supplied argument fails part-way, on / next to the live
    document `doc`.  What the faulted call itself does is outside C16's statement: it is logged (FAULT_LOG), never
    judged; the model says that nothing has changed, which the NEXT ordinary steps of the history show.
    Returns a description for messages."""
    from debian import copyright as C
    exc = r.choice(FAULT_EXC + [None])
    variant = "?"
    expect_exc = exc is not None
    try:
        if kind == "parse":
            text = doc.c.dump()
            lines = text.split("\n")
            variant = r.choice(["gen-str", "gen-bytes", "list-iter", "raw", "raw-text"])
            if variant in ("raw", "raw-text"):
                data = text.encode("utf-8")
                at = r.choice([0, 1, len(data) // 2, max(0, len(data) - 1), len(data)])
                nonascii = [i for i, b in enumerate(data) if b >= 0xc0]
                if nonascii and r.random() < 0.5:
                    at = r.choice(nonascii) + 1         # cuts a multi-byte character
                f = io.BufferedReader(FaultyRaw(data, at, exc), buffer_size=16)
                arg = io.TextIOWrapper(f, encoding="utf-8") if variant == "raw-text" else f
            else:
                at = fault_at(r, len(lines))
                items = [ln + "\n" for ln in lines]
                if variant == "gen-bytes":
                    items = [x.encode("utf-8") for x in items]
                arg = faulty_iter(items, at, exc)
                if variant == "list-iter":
                    arg = iter(list(items[:at]) + [None]) if exc is None else arg     # a line that is no string at all
                    expect_exc = True
            what = "Copyright(<%s of the dumped document failing after %d %s: %s>)" % (
                variant, at, "bytes" if variant.startswith("raw") else "lines", exc.__name__ if exc else "early end")
            import logging
            import warnings
            logging.disable(logging.CRITICAL)       # "format not known" for a header line cut short: not of interest
            try:
                with warnings.catch_warnings():
                    warnings.simplefilter("ignore")
                    C.Copyright(arg, strict=r.random() < 0.8)
            finally:
                logging.disable(logging.NOTSET)
        elif kind == "dump":
            variant = "writer"
            nwrites = 2 + 2 * len(doc.objs)
            at = 1 + fault_at(r, nwrites)
            what = "dump(<file whose write() call %d %s>)" % (at, "raises " + exc.__name__ if exc else "is short")
            doc.c.dump(FaultyWriter(at, exc))
            expect_exc = False if exc is None else None     # the call may be over before write number `at`
        elif kind == "setfiles":
            good = ["zz-fault%d*" % i for i in range(r.choice([0, 1, 2, 9]))]
            expect_exc = True
            if exc is None:
                good = good + [None]                          # an item that is no string
            arg = faulty_iter(good, len(good), exc)
            if doc.objs and r.random() < 0.8:
                k = r.randrange(len(doc.objs))
                variant = "setter"
                what = "paragraph %d .files = <iterable failing after %d patterns: %s>" % (k + 1, len(good), exc.__name__ if exc else "a None item")
                doc.objs[k].files = arg
            else:
                variant = "create"
                what = "FilesParagraph.create(<iterable failing after %d patterns>, ..)" % len(good)
                C.FilesParagraph.create(arg, "2024 Someone", C.License("GPL-2+"))
        elif kind == "translate":
            variant = "globs_to_re"
            good = r.choice([[], ["*"], ["zz-fault*", "?", "*"]])
            expect_exc = True
            if exc is None:
                good = good + [None]
            what = "globs_to_re(<iterable failing after %d patterns>)" % len(good)
            C.globs_to_re(faulty_iter(good, len(good), exc))
        else:
            raise core.MachineryError("unknown fault kind %r" % (kind,))
        out = "returned"
    except core.MachineryError:
        raise
    except Exception as e:
        if exc is not None and type(e) is exc:
            out = "caller's exception"
        elif isinstance(e, (ValueError, TypeError, AttributeError)) or type(e).__module__.startswith("debian"):
            out = "library error"               # e.g. a format error for the truncated text, TypeError for None
        else:
            out = "other exception " + type(e).__name__
    key = "%s/%s: %s" % (kind, variant, out if expect_exc is not True or out != "returned" else "returned although the argument failed")
    FAULT_LOG[key] = FAULT_LOG.get(key, 0) + 1
    return what + " -> " + out


class Doc:
    """one live document under test and what the harness knows about it: objs[k-1] = the object of the Files
    paragraph with identity k (GlobFind.tla), data[k-1] = the Deb822 handle kept by its creator (or None),
    alias[k-1] = a second FilesParagraph wrapper over the same Deb822 (or None)"""

    def __init__(self, c):
        self.c = c
        self.objs, self.data, self.alias = [], [], []
        self.tags = []          # tags[k-1] = the X-Tag value paragraph k carries (several paragraphs may share one)
        self.nraw = 0

    @classmethod
    def parsed(cls, c, tags):
        """tags[k-1] = the tag the paragraph with identity k was written with.  Paragraphs that share a tag
        are numbered in the order they occur in the parsed document (text order = the order they came in)"""
        self = cls(c)
        n = len(tags)
        found = {}
        total = 0
        for p in c.all_files_paragraphs():
            total += 1
            try:
                found.setdefault(p["X-Tag"], []).append(p)
            except Exception:
                pass
        want = {}
        for t in tags:
            want[t] = want.get(t, 0) + 1
        if total != n or {t: len(v) for t, v in found.items()} != want:
            raise LookupError("document shows %d Files paragraphs (tags %s), built with %d (tags %s)"
                              % (total, ",".join("%s x%d" % (t, len(v)) for t, v in sorted(found.items())[:8]), n,
                                 ",".join("%s x%d" % kv for kv in sorted(want.items())[:8])))
        nxt = {}
        for t in tags:
            self.objs.append(found[t][nxt.get(t, 0)])
            nxt[t] = nxt.get(t, 0) + 1
        self.tags = list(tags)
        self.data = [None] * n
        self.alias = [None] * n
        return self

    def find(self, name):
        """identity of the returned paragraph, 0 = None, -1 = ValueError, -2 = another exception,
        -3 = returned something that is not a Files paragraph of the document"""
        try:
            r = self.c.find_files_paragraph(name)
        except ValueError:
            return -1
        except Exception:
            return -2
        if r is None:
            return 0
        for i, p in enumerate(self.objs):
            if p is r:
                return i + 1
        return -3

    def matches(self, k, name, alias=False):
        p = self.alias[k] if alias and self.alias[k] is not None else self.objs[k]
        return obs_match(p, name)

    def addfiles(self, pats, origin, lay, tag=None):
        from debian import copyright as C
        tag = tag or "p%d" % (len(self.objs) + 1)
        p, d = make_paragraph(pats, origin, lay, tag)
        self.c.add_files_paragraph(p)
        self.objs.append(p)
        self.tags.append(tag)
        self.data.append(d)
        self.alias.append(C.FilesParagraph(d) if d is not None else None)

    def addlicense(self):
        from debian import copyright as C
        self.c.add_license_paragraph(C.LicenseParagraph.create(C.License("MIT", "Permission is hereby granted.")))

    def setfiles(self, k, pats):
        self.objs[k].files = list(pats)

    def rawset(self, k, pats, lay):
        """through the handle where the harness has one (else the setter: same step of the model)"""
        d = self.data[k]
        if d is None:
            self.objs[k].files = tuple(pats)
            return
        self.nraw += 1
        value = field_text(pats, lay)
        if self.nraw % 4 == 3:
            d.update({"Files": value})
        else:
            d[("Files", "files", "FILES")[self.nraw % 3]] = value

    def retag(self, k, tag):
        """the other content of paragraph k edited so that it is that of the paragraphs tagged `tag`"""
        p, d = self.objs[k], self.data[k]
        self.nraw += 1
        if d is not None and self.nraw % 2:
            d["X-Tag"] = tag
        else:
            p["X-Tag"] = tag
        self.tags[k] = tag

    def touch(self, k, what):
        """edit something else of paragraph k: no lookup may depend on it"""
        from debian import copyright as C
        p, d = self.objs[k], self.data[k]
        if what == "copyright":
            p.copyright = "2025 Somebody Else\n 2026 And Another"
        elif what == "license":
            p.license = C.License("Expat", "Permission is hereby granted.\n.\nAS IS.")
        elif what == "comment":
            p.comment = "files: * ? \\"
        elif what == "comment-none":
            p.comment = None
        elif what == "custom" or d is None:
            p["X-Note"] = "Files: *"
        elif what == "raw-copyright":
            d["Copyright"] = "1999 Raw"
        else:
            d["License"] = "ISC"

    def reparse(self, kind, to_fd):
        """the document dumped (returned string / file argument) and parsed again: new objects, tags survive"""
        from debian import copyright as C
        if to_fd:
            f = io.StringIO()
            self.c.dump(f)
            text = f.getvalue()
        else:
            text = self.c.dump()
        obj, closers = fm.open_form(kind, text, SCRATCH)
        try:
            c2 = C.Copyright(obj)
        finally:
            fm.close_all(closers)
        new = Doc.parsed(c2, self.tags)
        self.c, self.objs, self.data, self.alias = c2, new.objs, new.data, new.alias


def build_doc_ex(route, paras, order, lays, tags=None):
    """paras: list of lists of pattern strings; order: sequence of paragraph indexes (ascending) and 'L'
    (stand-alone License paragraphs in between).  Textual routes give exactly that layout; programmatic
    routes call add_files_paragraph / add_license_paragraph in that order (so the License paragraphs end
    up behind the Files paragraphs).  tags: the X-Tag value of every paragraph (default: a value of its own;
    paragraphs given the same tag, patterns and layout are content-equal).  Returns the Doc."""
    from debian import copyright as C
    n = len(paras)
    tags = list(tags) if tags else unique_tags(n)
    if route.startswith("legacy:"):
        import warnings
        with warnings.catch_warnings():
            warnings.simplefilter("ignore")
            return Doc.parsed(C.Copyright(legacy_document(route[7:], paras, order, lays, tags)), tags)
    if route.startswith("fobj:"):
        spec = fm.parse_route(route)
        body = "".join(g + (LICPARA if it == "L" else files_para_text(paras[it], lays[it], tags[it]))
                       for g, it in zip(gaps_for(order, lays), order))
        text, _ = fm.steer(HEADER, body, spec)
        obj, closers = fm.open_form(spec["kind"], text, SCRATCH)
        kw = {}
        if "s" in spec["flags"]:
            kw["strict"] = False
        if "e" in spec["flags"]:
            kw["encoding"] = "utf-8"
        try:
            return Doc.parsed(C.Copyright(obj, **kw), tags)
        finally:
            fm.close_all(closers)
    if route in TEXTUAL:
        parts = [HEADER]
        for g, it in zip(gaps_for(order, lays), order):
            parts.append(g + (LICPARA if it == "L" else files_para_text(paras[it], lays[it], tags[it])))
        text = "".join(parts)
        if route == "lines":
            return Doc.parsed(C.Copyright([ln + "\n" for ln in text.split("\n")]), tags)
        if route == "bytes":
            return Doc.parsed(C.Copyright([(ln + "\n").encode("utf-8") for ln in text.split("\n")]), tags)
        return Doc.parsed(C.Copyright(io.StringIO(text)), tags)
    if route not in PROG_ROUTES:
        raise core.MachineryError("unknown route %r" % (route,))
    doc = Doc(C.Copyright())
    for it in order:
        if it == "L":
            doc.addlicense()
        else:
            if it != len(doc.objs):
                raise core.MachineryError("paragraph indexes of a programmatic document must ascend")
            origin = PROG_ROUTES[route] or ORIGINS[(it + len(paras[it]) + n) % len(ORIGINS)]
            doc.addfiles(paras[it], origin, lays[it], tags[it])
    return doc


def build_para(route, pats, lay):
    doc = build_doc_ex(route, [pats], [0], [lay])
    ps = list(doc.c.all_files_paragraphs())
    if len(ps) != 1 or ps[0] is not doc.objs[0]:
        raise LookupError("document with one Files paragraph shows %d" % len(ps))
    return ps[0]


def obs_match(p, name):
    try:
        r = p.matches(name)
    except ValueError:
        return "FormatError"
    except Exception as e:          # observation, not a harness failure
        return "EXC:" + type(e).__name__
    return "match" if r else "nomatch"


def all_names(nsigma, maxlen):
    out = []
    for k in range(maxlen + 1):
        out += [tuple(t) for t in itertools.product(sorted(nsigma), repeat=k)]
    return out


# ------------------------------------------------------------------ (a) spec -> code

def check_match_case(ps, ok, mset, names, cmap, route, lay):
    """one pattern list against every name; returns None or (name, expected, observed)"""
    pats = [cstr(cmap, p) for p in ps]
    try:
        para = build_para(route, pats, lay)
    except Exception as e:
        if not ok and isinstance(e, ValueError):
            return None             # the format error is reported eagerly: also "reported as a format error"
        return (None, "a Files paragraph with patterns %r" % (pats,), "construction failed: %s: %s" % (type(e).__name__, e))
    for nm in names:
        exp = "FormatError" if not ok else ("match" if nm in mset else "nomatch")
        got = obs_match(para, cstr(cmap, nm))
        if got != exp:
            return (list(nm), exp, got)
    return None


def obs_translate(pats):
    """rx = globs_to_re(pats) called directly -> (outcome, rx)"""
    from debian import copyright as C
    try:
        return "ok", C.globs_to_re(list(pats))
    except ValueError:
        return "FormatError", None
    except Exception as e:
        return "EXC:" + type(e).__name__, None


def obs_query(rx, name):
    """what FilesParagraph.matches does with the translated list"""
    try:
        return "match" if rx.fullmatch(name) is not None else "nomatch"
    except Exception as e:
        return "EXC:" + type(e).__name__


SIZE_LITERALS = [97, 98, 47, 46]


def check_size_case(ps, ok, mset, names, sc, route, lay, direct=False):
    """one abstract case under a size-stressed concretization (size_c16: blocks + fillers); the expectation
    is TLC's for the abstract case.  Returns None or (name, expected, observed)"""
    pats = sc.patterns(ps)
    if direct:
        got, rx = obs_translate(pats)
        if got != ("ok" if ok else "FormatError"):
            return (None, "ok" if ok else "FormatError", got)
        if rx is None:
            return None
    else:
        try:
            para = build_para(route, pats, lay)
        except Exception as e:
            if not ok and isinstance(e, ValueError):
                return None
            return (None, "a Files paragraph with %d patterns" % len(pats), "construction failed: %s: %s" % (type(e).__name__, str(e)[:200]))
    for nm in names:
        exp = "FormatError" if not ok else ("match" if nm in mset else "nomatch")
        got = obs_query(rx, sc.name(nm)) if direct else obs_match(para, sc.name(nm))
        if got != exp:
            return (list(nm), exp, got)
    return None


def check_size_doc(d, fexp, sc, positions, fillers, route, lays):
    """an abstract document inflated with filler paragraphs (size_c16, argument 2): the abstract paragraph k
    sits at position positions[k-1] (1-based) of the real document.  Returns None or (name, expected, observed)"""
    total = len(d) + len(fillers)
    paras = []
    fi = iter(fillers)
    at = {pos: k for k, pos in enumerate(positions)}
    for i in range(1, total + 1):
        paras.append(sc.patterns(d[at[i]]) if i in at else next(fi))
    try:
        c = build_doc_ex(route, paras, list(range(total)), lays)
        nfiles = len(list(c.c.all_files_paragraphs()))
    except Exception as e:
        if isinstance(e, ValueError) and any(x[1] == -1 for x in fexp):
            return None
        return (None, "a document with %d Files paragraphs" % total, "construction failed: %s: %s" % (type(e).__name__, str(e)[:200]))
    if nfiles != total:
        return (None, "%d Files paragraphs" % total, "document shows %d" % nfiles)

    def pos(k):
        return positions[k - 1] if k > 0 else k

    for nm, strict, lenient in fexp:
        got = c.find(sc.name(nm))
        if got != pos(strict) and not (strict == -1 and got == pos(lenient)):
            return (list(nm), pos(strict) if strict != -1 else "ValueError (or %d)" % pos(lenient), got)
    return None


def brief(x, n=60):
    """long strings in messages: head ... tail and the length"""
    if isinstance(x, (list, tuple)):
        if len(x) > 8:
            return "[%s, ... %d patterns ..., %s]" % (brief(x[0], 30), len(x), brief(x[-1], 30))
        return "[" + ", ".join(brief(y, n) for y in x) + "]"
    return repr(x) if len(x) <= n else "%r...%r(len %d)" % (x[:n // 2], x[-n // 2:], len(x))


def size_report_text(sc, ps, route, nm, exp, got, direct):
    pats = sc.patterns(ps)
    real = [sc.pattern(p) for p in ps]
    joined = sum(len(p) for p in pats) + len(pats) - 1
    return ("size-stressed case: %s with %d patterns (blank-joined length %d; block length %d; the abstract patterns %s are "
            "number %d..%d of the list as %s)%s: %s -> %s, specification (GlobMatch on the abstract case) says %s"
            % ("globs_to_re called" if direct else "Files paragraph (%s)" % route, len(pats), joined, sc.L,
               [cstr({}, p) for p in ps], len(sc.fill_before) + 1, len(sc.fill_before) + len(ps), brief(real),
               "" if nm is None else ", name %s built from abstract name %r" % (brief(sc.name(nm)), cstr({}, nm)),
               "construction" if nm is None else ("fullmatch" if direct else "matches()"), got, exp))


def check_direct_case(ps, ok, mset, names, cmap):
    """patterns containing LF (or blanks) are in the property's domain but only reachable through
    globs_to_re(list) itself; globs_to_re(ps).fullmatch(name) -- what FilesParagraph.matches
    computes -- is judged against the reference.  Returns None or (name, expected, observed)"""
    pats = [cstr(cmap, p) for p in ps]
    got, rx = obs_translate(pats)
    if got != ("ok" if ok else "FormatError"):
        return (None, "ok" if ok else "FormatError", got)
    if rx is None:
        return None
    for nm in names:
        exp = "match" if nm in mset else "nomatch"
        got = obs_query(rx, cstr(cmap, nm))
        if got != exp:
            return (list(nm), exp, got)
    return None


def check_unrepresentable(ctx, ps, ok, mset, names, stats):
    """lists with an EMPTY pattern: unspecified (executed, any ValueError/TypeError or success of
    create() accepted); globs_to_re + fullmatch is a diagnostic observable for them"""
    from debian import copyright as C
    pats = [cstr({}, p) for p in ps]
    try:
        C.FilesParagraph.create(pats, "2024 Someone", C.License("GPL-2+"))
        stats["unrep_accepted"] = stats.get("unrep_accepted", 0) + 1
    except (ValueError, TypeError):
        stats["unrep_rejected"] = stats.get("unrep_rejected", 0) + 1
    except Exception as e:
        ctx.drift("create(%r) raised %s" % (pats, type(e).__name__))
    try:
        rx = C.globs_to_re(pats)
    except ValueError:
        if ok:
            ctx.drift("globs_to_re(%r) raised, reference says well-formed" % (pats,))
        return
    except Exception as e:
        ctx.drift("globs_to_re(%r) raised %s" % (pats, type(e).__name__))
        return
    if not ok:
        ctx.drift("globs_to_re(%r) accepted an ill-formed list" % (pats,))
        return
    for nm in names:
        if (rx.fullmatch(cstr({}, nm)) is not None) != (nm in mset):
            ctx.drift("globs_to_re(%r).fullmatch(%r) disagrees with the reference" % (pats, cstr({}, nm)))
            return


def check_doc_case(d, fexp, cmap, route, order, lays):
    """one document against every name; fexp: list of (name, strict, lenient)"""
    paras = [[cstr(cmap, p) for p in ps] for ps in d]
    try:
        c = build_doc_ex(route, paras, order, lays)
        nfiles = len(list(c.c.all_files_paragraphs()))
    except Exception as e:
        if isinstance(e, ValueError) and any(x[1] == -1 for x in fexp):
            return None             # an ill-formed paragraph reported eagerly
        return (None, "a document with Files paragraphs %s" % (brief(paras),), "construction failed: %s: %s" % (type(e).__name__, str(e)[:300]))
    if nfiles != len(d):
        return (None, "%d Files paragraphs" % len(d), "document shows %d" % nfiles)
    for nm, strict, lenient in fexp:
        got = c.find(cstr(cmap, nm))
        if got != strict and not (strict == -1 and got == lenient):
            exp = strict if strict != -1 else "ValueError (or %d)" % lenient
            return (list(nm), exp, got)
    return None


def run_cache_path(start, path, cmap, route="prog", bad=()):
    """replay a behaviour of the cache model; returns None or a message.  bad: the ill-formed
    pattern lists of the pool (skey), for which an eager ValueError is accepted as well"""
    try:
        c = build_doc_ex(route, [[cstr(cmap, g) for g in start]], [0], [{"first": "", "seps": [" "] * (len(start) - 1)}])
        objs = list(c.c.all_files_paragraphs())
        if len(objs) != 1 or objs[0] is not c.objs[0]:
            raise LookupError("document with one Files paragraph shows %d" % len(objs))
    except Exception as e:
        if isinstance(e, ValueError) and skey(start) in bad:
            return None
        return "construction failed: %s: %s" % (type(e).__name__, e)
    for i, e in enumerate(path):
        a = e["args"][0]
        if e["op"] == "find":
            k = c.find(cstr(cmap, a))
            got = {1: "found", 0: "none", -1: "FormatError"}.get(k, "EXC(%s)" % k)
            what = "find_files_paragraph(%r) on the document whose only Files paragraph has Files %r" % (
                cstr(cmap, a), [cstr(cmap, g) for g in e["from"]["files"]])
            if e["res"] == "FormatError" and got == "none":
                continue            # ill-formed paragraph skipped instead of reported: unspecified for find
        elif e["op"] in ("setfiles", "rawset"):
            new = [cstr(cmap, g) for g in a]
            try:
                if e["op"] == "rawset":
                    c.rawset(0, new, {"first": ["", "\n ", ""][i % 3], "seps": [SEPS[(i + j) % len(SEPS)] for j in range(len(new) - 1)]})
                else:
                    c.setfiles(0, new)
                got = "ok"
            except Exception as ex:
                if isinstance(ex, ValueError) and skey(a) in bad:
                    return None     # reported eagerly; what the object holds afterwards is not specified
                got = "EXC:" + type(ex).__name__
            what = ("files = %r" if e["op"] == "setfiles" or c.data[0] is None else "Files := %r through the Deb822 the creator kept") % (new,)
        else:
            alias = i % 3 == 2
            got = c.matches(0, cstr(cmap, a), alias)
            what = "matches(%r)%s with Files %r" % (cstr(cmap, a), " on a second wrapper over the same Deb822" if alias and c.alias[0] is not None else "",
                                                    [cstr(cmap, g) for g in e["from"]["files"]])
        if got != e["res"]:
            return "step %d %s: outcome %s, model says %s" % (i + 1, what, got, e["res"])
    return None


def lay_order(lay):
    """layout of GlobFind.tla (0 = License paragraph, k = Files paragraph k) -> order of build_doc_ex"""
    return ["L" if k == 0 else k - 1 for k in lay]


def trailing_licenses_only(lay):
    fs = [i for i, k in enumerate(lay) if k != 0]
    return not fs or all(k != 0 for k in lay[:fs[-1] + 1])


def run_find_path(start, path, cmap, route, lays, seed, bad=()):
    """replay a behaviour of GlobFind on ONE document: Files fields re-assigned in place (setter / through the
    Deb822 handle), paragraphs added, the document dumped and parsed again between lookups; the result of a
    lookup is the IDENTITY of the returned paragraph.  How a step is carried out (origin of an added
    paragraph, layout of a raw Files text, form of the re-parse) is drawn from a generator seeded with
    `seed`.  bad: ill-formed pattern lists of the pool (skey), for which an eager ValueError is accepted.
    Returns None or a message"""
    r = random.Random("findconc-%s" % (seed,))
    paras = [[cstr(cmap, g) for g in ps] for ps in start["d"]]
    illformed = [skey(ps) in bad for ps in start["d"]]
    # content classes (GlobFind.tla, oth): mark 0 = a tag of its own; mark m > 0 = the tag "dup<m>", and ONE layout
    # of the Files text per history for every paragraph of a shared class, so that paragraphs of the same class
    # with the same patterns are content-equal (most often the layout the files setter itself writes)
    marks = list(start.get("oth") or [0] * len(paras))
    style = r.choice(["canon", "canon", "canon", "nl", "tab"])
    shared = any(marks) or any(e["op"] in ("touch", "addfiles") and e["args"][1] for e in path)

    def mark_tag(m, k):
        return "p%d" % k if m == 0 else "dup%d" % m

    def shared_lay(npat):
        first, sep = {"canon": ("", " "), "nl": ("\n ", "\n "), "tab": ("", "\t")}[style]
        return {"first": first, "seps": [sep] * max(0, npat - 1), "gap": shared_gap}

    shared_gap = rand_gap(r)
    tags = [mark_tag(m, k + 1) for k, m in enumerate(marks)]
    if shared:
        lays = [shared_lay(len(ps)) if m else lay for ps, m, lay in zip(paras, marks, lays)]
    try:
        doc = build_doc_ex(route, paras, lay_order(start["lay"]), lays, tags)
    except Exception as e:
        if isinstance(e, ValueError) and any(illformed):
            return None             # an ill-formed list of the pool reported eagerly
        return "construction (%s) of the document with Files paragraphs %r, layout %r failed: %s: %s" % (
            route, paras, start["lay"], type(e).__name__, str(e)[:300])
    cur = [list(ps) for ps in paras]
    hist = []
    for i, e in enumerate(path):
        op = e["op"]
        if op == "find":
            name = cstr(cmap, e["args"][0])
            got = doc.find(name)
            if got != e["res"] and not (e["res"] == -1 and got == e["alt"]):
                return ("step %d: find_files_paragraph(%r) -> %s, specification says %s (identity of the last matching paragraph "
                        "= its number in the order the Files paragraphs came into the document, 0 = None, -1 = format error) "
                        "on Files paragraphs %r%s; document built via %s with layout %r (0 = stand-alone License paragraph); "
                        "earlier on this document: %s"
                        % (i + 1, name, got, e["res"], cur,
                           " whose other fields are %r (paragraphs with the same tag and patterns are content-equal duplicates)" % (doc.tags,)
                           if any(marks) else "", route, start["lay"], "; ".join(hist[-5:]) or "-"))
            hist.append("find_files_paragraph(%r) -> %s" % (name, got))
            continue
        try:
            if op in ("setfiles", "rawset"):
                k, ps = e["args"]
                new = [cstr(cmap, g) for g in ps]
                illformed[k - 1] = skey(ps) in bad
                if op == "rawset":
                    via = "through the Deb822 its creator kept" if doc.data[k - 1] is not None else "(setter)"
                    doc.rawset(k - 1, new, shared_lay(len(new)) if marks[k - 1] else rand_seps(r, len(new), True))
                    what = "paragraph %d Files := %r %s" % (k, new, via)
                else:
                    doc.setfiles(k - 1, new)
                    what = "paragraph %d .files = %r" % (k, new)
                cur[k - 1] = new
            elif op == "addfiles":
                new = [cstr(cmap, g) for g in e["args"][0]]
                m = e["args"][1] if len(e["args"]) > 1 else 0
                illformed.append(skey(e["args"][0]) in bad)
                origin = r.choice(ORIGINS if not m or style == "canon" else TEXT_ORIGINS)
                marks.append(m)
                doc.addfiles(new, origin, shared_lay(len(new)) if m else rand_seps(r, len(new), origin in TEXT_ORIGINS),
                             mark_tag(m, len(marks)))
                cur.append(new)
                what = "add_files_paragraph(%r [%s%s]) = paragraph %d" % (
                    new, origin, ", other fields as in every paragraph tagged %s" % mark_tag(m, 0) if m else "", len(cur))
            elif op == "touch":
                k, m = e["args"]
                marks[k - 1] = m
                doc.retag(k - 1, mark_tag(m, k))
                what = "paragraph %d: other fields := those of the paragraphs tagged %s" % (k, mark_tag(m, k))
            elif op == "fault":
                what = faulted_call(doc, e["args"][0], r)
            elif op == "addlicense":
                doc.addlicense()
                what = "add_license_paragraph"
            elif op == "reparse":
                kind, to_fd = r.choice(REPARSE_KINDS), r.random() < 0.5
                if route.startswith("legacy:"):
                    what = "-"      # what a legacy line decodes to is unspecified: it need not survive a dump
                else:
                    doc.reparse(kind, to_fd)
                    what = "dump(%s) and parse again (%s)" % ("f" if to_fd else "", kind)
            else:
                raise core.MachineryError("GlobFind edge with unknown op %r" % (op,))
        except core.MachineryError:
            raise
        except Exception as ex:
            if isinstance(ex, ValueError) and any(illformed):
                return None         # eager report; afterwards unspecified
            return "step %d: %s raised %s: %s; earlier on this document (%s, layout %r): %s" % (
                i + 1, op, type(ex).__name__, str(ex)[:200], route, start["lay"], "; ".join(hist[-5:]) or "-")
        hist.append(what)
    return None


MEMO_FIXED = {10, 32, 39, 44, 63, 42, 92, 120, 124}      # code points of the memo pool that are not renamed


def memo_cmap(x, y):
    return {97: ord(x), 98: ord(y)}


def run_memo_path(path, cmap):
    """replay a behaviour of GlobMemo: direct globs_to_re calls (patterns with LF / blanks),
    fullmatch on the regex held, and fresh FilesParagraph objects in between"""
    rx = None
    for i, e in enumerate(path):
        a = e["args"]
        if e["op"] == "translate":
            pats = [cstr(cmap, g) for g in a[0]]
            got, new = obs_translate(pats)
            if new is not None:
                rx = new
            what = "globs_to_re(%r)" % (pats,)
        elif e["op"] == "query":
            if rx is None:
                return "step %d: no regex to query (harness)" % (i + 1)
            got = obs_query(rx, cstr(cmap, a[0]))
            what = "globs_to_re(%r).fullmatch(%r)" % ([cstr(cmap, g) for g in e["from"][0]], cstr(cmap, a[0]))
        else:
            pats = [cstr(cmap, g) for g in a[0]]
            try:
                para = build_para("prog", pats, {"first": "", "seps": [" "] * (len(pats) - 1)})
                got = obs_match(para, cstr(cmap, a[1]))
            except ValueError:
                got = "FormatError"
            except Exception as ex:
                got = "EXC:" + type(ex).__name__
            what = "FilesParagraph.create(%r).matches(%r)" % (pats, cstr(cmap, a[1]))
        if got != e["res"]:
            done = [("%s(%s)" % (x["op"], ", ".join(repr(cstr(cmap, g)) if (not g or isinstance(g[0], int)) else repr([cstr(cmap, h) for h in g])
                                                     for g in x["args"]))) for x in path[:i]]
            return "step %d %s -> %s, specification says %s; earlier in this process: %s" % (
                i + 1, what, got, e["res"], "; ".join(done[-6:]) or "-")
    return None


def cache_key_drift(ctx, g):
    """diagnostic only: the private cache key follows the model's key.  Anything that goes wrong
    while peeking at private attributes is spec drift, never an alarm and never a crash"""
    try:
        from debian import copyright as C
        p = C.FilesParagraph.create(["a*"], "x", C.License("y"))
        k0 = p._FilesParagraph__cached_files_pat[0]
        p.matches("a")
        k1 = p._FilesParagraph__cached_files_pat[0]
        if k0 != "" or k1 != "a*":
            ctx.drift("cache key is %r then %r; model: '' then 'a*'" % (k0, k1))
    except Exception as e:
        ctx.drift("private cache layout changed: %s: %s" % (type(e).__name__, e))


# ------------------------------------------------------------------ (b) code -> spec

def rand_pattern(rng, alpha, maxlen, bad):
    out = []
    if not bad and maxlen >= 3 and rng.random() < 0.1:
        # PREFIX*SUFFIX where the end of the prefix is the start of the suffix ('vendor/*/vendor', 'a*a'): the two may
        # not share characters of the name
        w = "".join(rng.choice(alpha) for _ in range(1 if maxlen < 5 else rng.randint(1, 2)))
        u, v = (rng.choice(alpha + [""]), rng.choice(alpha + [""])) if maxlen >= 5 else ("", "")
        return u + w + "*" + w + v
    for _ in range(rng.randint(1, maxlen)):
        r = rng.random()
        if r < 0.22:
            out.append("*")
        elif r < 0.34:
            out.append("?")
        elif r < 0.46:
            out.append("\\" + rng.choice("*?\\"))
        else:
            out.append(rng.choice(alpha))
    if bad:     # an escape the statement forbids, or a trailing backslash
        if rng.random() < 0.35:
            out.append("\\")
        else:
            out.insert(rng.randint(0, len(out)), "\\" + rng.choice(alpha))
    return "".join(out)


def instantiate(rng, pat, nalpha):
    """a name shaped like the pattern (input generation only, decides nothing)"""
    out = []
    i = 0
    while i < len(pat):
        c = pat[i]
        i += 1
        if c == "*":
            out.append("".join(rng.choice(nalpha) for _ in range(rng.choice([0, 0, 1, 2, 3]))))
        elif c == "?":
            out.append(rng.choice(nalpha))
        elif c == "\\" and i < len(pat):
            out.append(pat[i])
            i += 1
        else:
            out.append(c)
    return "".join(out)


def overlap_name(rng, pat, nalpha):
    """a name shaped like the pattern in which the text in front of a '*' and the text behind it OVERLAP (share the
    longest run that ends the one and starts the other; one character dropped when they share nothing).  Input
    generation only, decides nothing; None if the pattern has no '*'"""
    stars = []
    i = 0
    while i < len(pat):
        if pat[i] == "\\":
            i += 2
            continue
        if pat[i] == "*":
            stars.append(i)
        i += 1
    if not stars:
        return None
    at = rng.choice(stars)
    pre, post = instantiate(rng, pat[:at], nalpha), instantiate(rng, pat[at + 1:], nalpha)
    for k in range(min(len(pre), len(post)), 0, -1):
        if pre[-k:] == post[:k]:
            return pre + post[k:]
    return pre + post[1:] if post else pre[:-1]


def rand_name(rng, pats, nalpha):
    r = rng.random()
    if r < 0.1 or not pats:
        return "".join(rng.choice(nalpha) for _ in range(rng.randint(0, 6)))
    pat = rng.choice(pats)
    if "*" in pat and rng.random() < 0.15:
        nm = overlap_name(rng, pat, nalpha)
        if nm is not None:
            return nm
    s = instantiate(rng, pat, nalpha)
    r = rng.random()
    if r < 0.45:
        return s
    i = rng.randint(0, len(s))
    if r < 0.6:
        return s[:i] + rng.choice(nalpha) + s[i:]
    if r < 0.7:
        return s + rng.choice(["\n", ".in", "/", " ", rng.choice(nalpha)])
    if r < 0.8:
        return rng.choice(["\n", "./", " ", rng.choice(nalpha)]) + s
    if r < 0.9 and s:
        i = rng.randrange(len(s))
        return s[:i] + s[i + 1:]
    if s:
        i = rng.randrange(len(s))
        return s[:i] + rng.choice(nalpha) + s[i + 1:]
    return s


def rand_script(rng, nops, big=False):
    """a random history: document + calls, over a per-trace alphabet.  big: size dimension for the parts TLC
    treats structurally -- up to 200 (short) patterns per list, blank-joined lengths far beyond one line,
    hyphenated words; or 100 paragraphs.  What TLC scans character by character stays short."""
    alpha = rng.sample(LIT_POOL, rng.randint(2, 4)) + rng.sample(["a", "b", "/", "."], 2) + \
        rng.sample([c for c in LIT_POOL if ord(c) > 127], 2)
    if big:
        alpha = ["a", "b", "c", "d", "-", "-", "/", "."] + rng.sample(LIT_POOL, 2)
    if rng.random() < 0.3:
        a, b = rng.choice(CASE_PAIRS)
        alpha += [a, b]
    nalpha = alpha + ["/", ".", "\n", " ", "\t", "*", "?", "\\", rng.choice(["\x85", "\u2028", "\r", "\x0b", "\xa0", "x"])]

    injected = [False]

    def plist():
        bad = rng.random() < 0.08
        injected[0] = injected[0] or bad
        k = rng.randint(1, 4)
        if big and not many_paras:
            k = sz.pick(rng, sz.COUNTS[3:], 200)
        b = rng.randrange(k) if bad else -1
        out = [rand_pattern(rng, alpha, rng.choice([2, 4, 6, 9] if not big else [3, 5, 7, 9]), i == b) for i in range(k)]
        if big:         # mostly hyphenated / dotted words, as in real Files fields
            for i in range(k):
                r = rng.random()
                if i != b and r < 0.6:
                    w = ["".join(rng.choice("abcd") for _ in range(rng.randint(1, 4))) for _ in range(rng.randint(2, 3))]
                    out[i] = rng.choice(["-", "-", "."]).join(w) + rng.choice(["", "/*", "*", "?"])
                elif i != b and r < 0.72:       # 'vendor/*/vendor': the directory name on both sides of the '*'
                    w = "".join(rng.choice("abcd") for _ in range(rng.randint(1, 3)))
                    j = rng.choice(["/", "/", "-", ""])
                    out[i] = w + j + "*" + j + w
        return out

    many_paras = big and rng.random() < 0.25
    npar = rng.choice([1, 1, 2, 3, 4])
    if big:
        npar = rng.choice([99, 100, 101]) if many_paras else rng.choice([1, 1, 2])
    paras = [plist() for _ in range(npar)]
    # copy-and-paste duplicates: two Files paragraphs of the document are content-equal (same patterns, same layout,
    # same other fields incl. the tag), and paragraphs added later may be copies of existing ones
    dups = not big and rng.random() < 0.3
    twin = None
    if dups:
        i = rng.randrange(npar)
        if npar == 1 or rng.random() < 0.4:
            paras.append(list(paras[i]))
            npar += 1
            twin = (i, npar - 1)
        else:
            j = rng.choice([x for x in range(npar) if x != i])
            paras[j] = list(paras[i])
            twin = (i, j)
    route = rng.choice(["prog", "prog-set", "prog-ctor", "prog-raw", "prog-text", "prog-mix", "prog-mix", "text", "lines", "bytes",
                        "form", "form", "form", "legacy:%d" % rng.randrange(10 ** 6)])
    if big:
        route = rng.choice(["prog", "prog-set", "prog-mix", "prog-ctor", "text", "bytes", "form"])
    if route == "form":
        route = FORMS.plain() if FORMS is not None else "text"
    if not big and rng.random() < 0.12:     # built from scratch: Copyright(), then add_files_paragraph / add_license_paragraph
        npar, paras, route, twin = 0, [], "prog", None
    order = []
    for k in range(npar):
        if rng.random() < 0.3:
            order.append("L")
        order.append(k)
    if rng.random() < 0.3:
        order.append("L")
    laid_out = route in TEXTUAL or route in ("prog-ctor", "prog-raw", "prog-text", "prog-mix")
    lays = [rand_seps(rng, len(ps), laid_out) for ps in paras]
    tags = unique_tags(npar)
    if twin:
        lays[twin[1]] = lays[twin[0]]
        tags[twin[0]] = tags[twin[1]] = "dup1"
    ops = []
    cur = [list(ps) for ps in paras]
    cur_lay = list(lays)
    plain_lay = lambda k: {"first": "", "seps": [" "] * max(0, k - 1)}      # what the files setter writes

    def literal(nm):
        return "".join("\\" + ch if ch in "*?\\" else ch for ch in nm)

    def add_paragraph():
        """add_files_paragraph with a list that (often) matches names an existing paragraph matches too, then ask"""
        new = plist() if not big else [rand_pattern(rng, alpha, 4, False)]
        names = []
        if cur and rng.random() < 0.75:
            nm = rand_name(rng, rng.choice(cur), nalpha)
            if nm and not any(ch.isspace() for ch in nm) and rng.random() < 0.7:
                new[rng.randrange(len(new))] = literal(nm)     # more specific than the older paragraph
            else:
                new[rng.randrange(len(new))] = rng.choice(["*", "*?" if nm else "*", "?" * len(nm) if nm else "*"])
            names.append(nm)
        origin = rng.choice(ORIGINS)
        lay = rand_seps(rng, len(new), origin in TEXT_ORIGINS)
        tag = "p%d" % (len(cur) + 1)
        if dups and cur and rng.random() < 0.4:         # a copy of a paragraph the document already has
            i = rng.randrange(len(cur))
            new, names, tag, lay = list(cur[i]), [], tags[i], cur_lay[i]
            if lay != plain_lay(len(new)):
                origin = rng.choice(TEXT_ORIGINS)
        if rng.random() < 0.35:
            ops.append(["addlicense"])
        ops.append(["addfiles", new, origin, lay, tag])
        cur.append(new)
        cur_lay.append(lay if origin in TEXT_ORIGINS else plain_lay(len(new)))
        tags.append(tag)
        names.append(rand_name(rng, new, nalpha))
        for nm in names:
            ops.append(["find", nm])
        if rng.random() < 0.4:
            if not route.startswith("legacy:"):
                ops.append(["reparse", rng.choice(REPARSE_KINDS), rng.random() < 0.5])
            ops.append(["find", rng.choice(names)])

    if npar == 0:
        add_paragraph()
    n_over = [0]
    if big and not many_paras:          # every pattern of a long list is asked for once: the i-th of n matches
        for k, ps in enumerate(paras):
            for pat in (ps if len(ps) <= 40 else rng.sample(ps, 40)):
                ops.append(["matches", k, instantiate(rng, pat, nalpha)])
                nm = overlap_name(rng, pat, nalpha) if n_over[0] < 8 else None
                if nm is not None:      # ... and (up to 8 times) with the text around a '*' overlapping in the name
                    n_over[0] += 1
                    ops.append(["matches", k, nm])
        nops += len(ops)
    held = None                         # list last handed to globs_to_re directly
    pending = []                        # direct translations still to be issued (other order of a colliding pair)
    while len(ops) < nops:
        r = rng.random()
        npar = len(cur)
        k = rng.randrange(npar)
        if not many_paras and npar < 8 and rng.random() < (0.3 if dups else 0.11):
            add_paragraph()
        elif rng.random() < 0.05:
            ops.append(["addlicense"])
        elif rng.random() < 0.05:       # a call whose caller-supplied argument fails part-way: nothing may change
            ops.append(["fault", rng.choice(FAULT_KINDS), rng.randrange(10 ** 9)])
        elif rng.random() < 0.05 and not route.startswith("legacy:"):
            ops.append(["reparse", rng.choice(REPARSE_KINDS), rng.random() < 0.5])
        elif rng.random() < 0.06:
            ops.append(["touch", k, rng.choice(TOUCHES)])
        elif ops and ops[-1][0] in ("matches", "find", "query") and r < 0.18:
            ops.append(list(ops[-1]))   # the same question again: the answer must not depend on having asked
        elif pending and r < 0.6:
            held = pending.pop(0)
            ops.append(["translate", held])
            for _ in range(rng.randint(1, 3)):
                ops.append(["query", rand_name(rng, held + [JOINERS[0].join(held)], nalpha)])
        elif r < 0.22:
            # globs_to_re called directly: patterns may contain LF / blanks; a list and the list obtained
            # by joining (or splitting) it at a separator, in both orders, within this process
            base = plist() if rng.random() < 0.5 else list(rng.choice(cur))
            base = base[:rng.randint(2, 4)]         # TLC scans the joined pattern character by character: keep it short
            if len(base) < 2:
                base = base + [rand_pattern(rng, alpha, 3, False)]
            sep = rng.choice(JOINERS)
            i = rng.randrange(len(base) - 1)
            joined = base[:i] + [base[i] + sep + base[i + 1]] + base[i + 2:]
            pair = [base, joined] if rng.random() < 0.5 else [joined, base]
            if rng.random() < 0.3:
                pair.append(list(pair[0]))
            pending += pair
        elif held is not None and r < 0.3:
            ops.append(["query", rand_name(rng, held, nalpha)])
        elif r < 0.6:
            ops.append(["matches", k, rand_name(rng, cur[k], nalpha), rng.random() < 0.3])
        elif r < 0.87:
            nm = rand_name(rng, cur[rng.randrange(npar)], nalpha)
            ops.append(["find", nm])
            if rng.random() < 0.3:
                # edit one paragraph in place so that it (also) matches the name, and ask again
                k = rng.randrange(npar)
                lit = "".join("\\" + ch if ch in "*?\\" else ch for ch in nm)
                new = [rand_pattern(rng, alpha, 4, False)] if rng.random() < 0.5 else []
                new.append(lit if nm and not any(ch.isspace() for ch in nm) and rng.random() < 0.6 else
                           rng.choice(["*", "*?*" if nm else "*", "?" * len(nm) if nm else "*"]))
                rng.shuffle(new)
                cur[k] = new
                ops.append(["setfiles", k, new] if rng.random() < 0.5 else ["rawset", k, new, rand_seps(rng, len(new), True)])
                cur_lay[k] = ops[-1][3] if ops[-1][0] == "rawset" else plain_lay(len(new))
                ops.append(["find", nm])
        else:
            new = plist()
            if rng.random() < 0.4:      # same text length as before: a cache keyed on less than the text shows
                injected[0] = True      # (cutting may leave an ill-formed glob)
                new = [rand_pattern(rng, alpha, 3, False)[:len(p)].ljust(len(p), rng.choice(alpha)) for p in cur[k]]
                new = [p if not p.endswith("\\") else p[:-1] + rng.choice(alpha) for p in new]
            cur[k] = new
            ops.append(["setfiles", k, new] if rng.random() < 0.5 else ["rawset", k, new, rand_seps(rng, len(new), True)])
            cur_lay[k] = ops[-1][3] if ops[-1][0] == "rawset" else plain_lay(len(new))
    return {"route": route, "paras": paras, "order": order, "lays": lays, "tags": tags[:len(paras)], "ops": ops,
            "injected_bad": injected[0]}


def cps(s):
    return [ord(c) for c in s]


def execute(script):
    """drive the real code through the script and log what it did; returns the trace or
    (None, reason) when the document cannot be set up (not a C16 observable)"""
    bad_ok = script.get("injected_bad")
    try:
        doc = build_doc_ex(script["route"], script["paras"], script["order"], script["lays"], script.get("tags"))
    except Exception as e:
        if isinstance(e, ValueError) and bad_ok:
            return None, "eager"    # an injected ill-formed glob reported when the document is built
        return None, "construction failed: %s: %s" % (type(e).__name__, e)
    events = [{"op": "doc", "d": [[cps(p) for p in ps] for ps in script["paras"]]}]
    rx = None
    for oi, op in enumerate(script["ops"]):
        for ev in events[1:]:
            ev.setdefault("oi", oi - 1)     # index of the call an event belongs to (ignored by TraceGlob)
        if op[0] == "matches":
            events.append({"op": "matches", "k": op[1] + 1, "n": cps(op[2]), "res": doc.matches(op[1], op[2], len(op) > 3 and op[3])})
        elif op[0] == "find":
            events.append({"op": "find", "n": cps(op[1]), "res": doc.find(op[1])})
        elif op[0] == "translate":
            got, new = obs_translate(op[1])
            if new is not None:
                rx = new
            events.append({"op": "translate", "ps": [cps(p) for p in op[1]], "res": got})
        elif op[0] == "query":
            if rx is None:
                continue        # nothing translated successfully yet
            events.append({"op": "query", "n": cps(op[1]), "res": obs_query(rx, op[1])})
        else:
            try:
                if op[0] == "setfiles":
                    doc.setfiles(op[1], op[2])
                    ev = {"op": "setfiles", "k": op[1] + 1, "ps": [cps(p) for p in op[2]]}
                elif op[0] == "rawset":
                    doc.rawset(op[1], op[2], op[3])
                    ev = {"op": "rawset", "k": op[1] + 1, "ps": [cps(p) for p in op[2]]}
                elif op[0] == "addfiles":
                    doc.addfiles(op[1], op[2], op[3], op[4] if len(op) > 4 else None)
                    ev = {"op": "addfiles", "ps": [cps(p) for p in op[1]]}
                elif op[0] == "addlicense":
                    doc.addlicense()
                    ev = {"op": "addlicense"}
                elif op[0] == "reparse":
                    doc.reparse(op[1], op[2])
                    ev = {"op": "reparse"}
                elif op[0] == "touch":
                    doc.touch(op[1], op[2])
                    ev = {"op": "touch"}
                elif op[0] == "fault":
                    faulted_call(doc, op[1], random.Random("fault-%d" % op[2]))
                    ev = {"op": "fault"}
                else:
                    raise core.MachineryError("script with unknown op %r" % (op[0],))
            except core.MachineryError:
                raise
            except Exception as e:
                if isinstance(e, ValueError) and bad_ok and len(events) > 1:
                    break           # reported eagerly: the history ends here
                if len(events) > 1:
                    # an edit the real code refuses on a well-formed document: the history up to here is judged,
                    # the refusal is recorded as a step the specification does not have
                    events.append({"op": "refused:" + op[0], "exc": type(e).__name__})
                    break
                return None, "%s raised %s" % (op[0], type(e).__name__)
            events.append(ev)
    for ev in events[1:]:
        ev.setdefault("oi", len(script["ops"]) - 1)
    return {"events": events, "script": script}, None


def corrupt(t, how):
    """negative controls: histories the specification must NOT accept"""
    import copy
    t = copy.deepcopy(t)
    for e in t["events"]:
        if how == "qflip" and e["op"] == "query" and e["res"] in ("match", "nomatch"):
            e["res"] = "nomatch" if e["res"] == "match" else "match"
            return t
        if how == "flip" and e["op"] == "matches" and e["res"] in ("match", "nomatch"):
            e["res"] = "nomatch" if e["res"] == "match" else "match"
            return t
        if how == "noerr" and e["op"] == "matches" and e["res"] == "FormatError":
            e["res"] = "nomatch"
            return t
        if how == "find" and e["op"] == "find" and isinstance(e["res"], int) and e["res"] >= 0:
            e["res"] = e["res"] + 1
            return t
        if how == "first" and e["op"] == "find" and isinstance(e["res"], int) and e["res"] >= 2:
            e["res"] = e["res"] - 1     # an earlier paragraph instead of the last matching one
            return t
    return None


def _ctl(d, *evs):
    return {"events": [{"op": "doc", "d": d}] + list(evs)}


# histories that are wrong whatever the code under test does: TraceGlob must reject every one
STATIC_CONTROLS = [
    _ctl([[[97]]], {"op": "matches", "k": 1, "n": [98], "res": "match"}),
    _ctl([[[42]]], {"op": "matches", "k": 1, "n": [10, 47], "res": "nomatch"}),                 # '*' matches LF and '/'
    _ctl([[[92, 97]]], {"op": "matches", "k": 1, "n": [97], "res": "nomatch"}),                 # illegal escape
    _ctl([[[97], [98, 42]]], {"op": "matches", "k": 1, "n": [97, 98], "res": "match"}),         # unanchored alternative
    _ctl([[[97]], [[42]]], {"op": "find", "n": [97], "res": 1}),                                # first instead of last
    _ctl([[[97]]], {"op": "find", "n": [98], "res": 1}),                                        # None expected
    _ctl([[[97]]], {"op": "setfiles", "k": 1, "ps": [[98]]}, {"op": "matches", "k": 1, "n": [97], "res": "match"}),  # stale
    # the format error is reported once, then the paragraph answers (error-path side effect)
    _ctl([[[92, 97]]], {"op": "matches", "k": 1, "n": [97], "res": "FormatError"},
         {"op": "matches", "k": 1, "n": [97], "res": "nomatch"}),
    # find on an ill-formed document changes its mind for the same name
    _ctl([[[42]], [[92, 97]]], {"op": "find", "n": [97], "res": -1}, {"op": "find", "n": [97], "res": 1}),
    # ['a\nb'] translated first, then ['a', 'b'] answers like the former (memo keyed by the joined text)
    _ctl([[[97]]], {"op": "translate", "ps": [[97, 10, 98]], "res": "ok"}, {"op": "translate", "ps": [[97], [98]], "res": "ok"},
         {"op": "query", "n": [97], "res": "nomatch"}),
    _ctl([[[97]]], {"op": "translate", "ps": [[97], [98]], "res": "ok"}, {"op": "translate", "ps": [[97, 10, 98]], "res": "ok"},
         {"op": "query", "n": [97, 10, 98], "res": "nomatch"}),
    _ctl([[[97]]], {"op": "translate", "ps": [[92]], "res": "ok"}),
    # the Files field rewritten through the Deb822 handle, the old patterns still answer
    _ctl([[[42]]], {"op": "rawset", "k": 1, "ps": [[98]]}, {"op": "matches", "k": 1, "n": [97], "res": "match"}),
    _ctl([[[97]], [[98]]], {"op": "find", "n": [98], "res": 2}, {"op": "rawset", "k": 2, "ps": [[97]]}, {"op": "find", "n": [98], "res": 2}),
    # an added paragraph is the last one: an older paragraph that matches too must not win (Files, License, Files + add)
    _ctl([[[42]], [[97, 42]]], {"op": "addfiles", "ps": [[97, 98]]}, {"op": "find", "n": [97, 98], "res": 2}),
    _ctl([], {"op": "addlicense"}, {"op": "addfiles", "ps": [[42]]}, {"op": "addfiles", "ps": [[97]]}, {"op": "reparse"},
         {"op": "find", "n": [97], "res": 1}),
    _ctl([[[97]]], {"op": "addlicense"}, {"op": "touch"}, {"op": "find", "n": [97], "res": 0}),
    _ctl([[[97]]], {"op": "refused:reparse", "exc": "ValueError"}),
    # a call with a faulting argument changes nothing: the paragraph still matches, the answers given stay
    _ctl([[[97]]], {"op": "fault"}, {"op": "find", "n": [97], "res": 0}),
    _ctl([[[42]]], {"op": "fault"}, {"op": "matches", "k": 1, "n": [97], "res": "nomatch"}),
    _ctl([[[42]], [[92, 97]]], {"op": "find", "n": [97], "res": -1}, {"op": "fault"}, {"op": "find", "n": [97], "res": 1}),
    # two content-equal paragraphs are two paragraphs: the later one is the answer, and a paragraph added wins over both
    _ctl([[[42]], [[98]], [[42]]], {"op": "find", "n": [97], "res": 1}),
    _ctl([[[42]], [[98]], [[42]]], {"op": "addfiles", "ps": [[97]]}, {"op": "find", "n": [97], "res": 3}),
]


def validate(ctx, traces, with_controls=True):
    """TLC validates the recorded histories.  Controls: the static ones above (framework-checked)
    and corrupted copies of recorded histories -- a corrupted copy must be rejected whenever the
    history it was made from is accepted"""
    dyn = []
    if with_controls:
        for how in ("flip", "noerr", "find", "first", "qflip"):
            got = 0
            for i, t in enumerate(traces):
                c = corrupt(t, how)
                if c:
                    dyn.append((i + 1, c))
                    got += 1
                    if got == 3:
                        break
    slim = [{"events": t["events"]} for t in traces]
    dslim = [{"events": c["events"]} for _, c in dyn]
    acc, _, r = core.validate_traces(ctx, "TraceGlob", "TraceGlob.cfg", slim + dslim, extra_env={"TRACE_DIAG": "0"},
                                     controls=STATIC_CONTROLS if with_controls else [], java_opts=JOPTS)
    for j, (src, _) in enumerate(dyn):
        if len(traces) + j + 1 in acc and src in acc:
            raise core.MachineryError("TraceGlob accepted a corrupted copy of accepted history %d: binding is vacuous" % src)
    ctx.extra["negative_controls_rejected"] = ctx.extra.get("negative_controls_rejected", 0) + \
        sum(1 for j in range(len(dyn)) if len(traces) + j + 1 not in acc)
    rejected = [i for i in range(1, len(traces) + 1) if i not in acc]
    info = {}
    if rejected:
        sub = [slim[i - 1] for i in rejected[:20]]
        _, prog, _ = core.validate_traces(ctx, "TraceGlob", "TraceGlob.cfg", sub, extra_env={"TRACE_DIAG": "1"},
                                          java_opts=JOPTS)
        for j, i in enumerate(rejected[:20]):
            info[i] = prog.get(j + 1, 0)
    return rejected, info


# ------------------------------------------------------------------ the check

def run(ctx):
    quick = ctx.tier == "quick"
    rng = ctx.rng
    ctx.assumptions += [
        "bounded: every list of <= 2 patterns x <= 2 symbols x every name <= 2 over {a,*,?,\\,LF} (replayed cases and thorough: also 'b', '/' and '.')"
        + ("" if quick else "; 1 x <= 3 x names <= 4; 2 x <= 2 x names <= 3; 2 x <= 3 x names <= 3 over {a,*,?,\\}")
        + "; documents of <= 3 Files paragraphs",
        "literal symbols are concretized by sampled injective renamings (regex metacharacters, non-ASCII, case pairs)",
        "patterns containing whitespace are judged through globs_to_re(list).fullmatch(name) (not representable in a Files field); "
        "unspecified: lists with an empty pattern, the empty list; "
        "find_files_paragraph on a document with an ill-formed paragraph may raise ValueError or return the last well-formed match",
        "size-stressed concretizations inherit TLC's expectation of the abstract case by the block argument (model-checked for "
        "L = 3: BlockInvariance) and the filler argument (a pattern starting with a literal no name starts with never matches)",
        "trusted: TLC, the renaming, the projections bool(matches()) and identity index of the returned paragraph",
    ]
    from debian import copyright as C   # noqa: F401  (import errors are machinery failures)
    global SCRATCH, FORMS
    SCRATCH = ctx.work
    FORMS = fm.Schedule(random.Random("forms-%r" % rng.random()), quick)

    t_start = time.time()
    # ---- 1. TLC: design-level checks, negative controls, emission (concurrently)
    big = "MC_Glob_quick.cfg"
    jobs = [dict(name="bnd-quick", module="Glob", cfg=big, workers=W)]
    if not quick:       # bnd-b contains bnd-quick
        jobs = [dict(name="bnd-a", module="Glob", cfg="MC_Glob_bnd_a.cfg", workers=W),
                 dict(name="bnd-b", module="Glob", cfg="MC_Glob_bnd_b.cfg", workers=W),
                 dict(name="bnd-c", module="Glob", cfg="MC_Glob_bnd_c.cfg", workers=W)]
    doccfg = "MC_Glob_doc_quick.cfg" if quick else "MC_Glob_doc.cfg"
    jobs += [
        dict(name="doc", module="Glob", cfg=doccfg, workers=W if not quick else 4),
        # emission with several workers: every case is one atomic line, the harness sorts them (determinism)
        dict(name="emit-match", module="Glob", tags={"CASE"}, cfg="MC_Glob_emit.cfg", workers=3, small=True),
        dict(name="emit-doc", module="Glob", tags={"DOC"}, workers=3, small=True,
             cfg="MC_Glob_doc_emit.cfg" if quick else cfg_text("MC_Glob_doc_emit.cfg", MaxSyms="5")),
        dict(name="cache", module="GlobCache", cfg="MC_GlobCache.cfg", tags={"EDGE"}),
        dict(name="neg-prefix", module="Glob", cfg=cfg_text(big, Discipline='"prefix"'), expect="MatchesIffGlob"),
        dict(name="neg-nodotall", module="Glob", cfg=cfg_text(big, DotAll="FALSE"), expect="MatchesIffGlob"),
        dict(name="neg-findfirst", module="Glob", cfg=cfg_text("MC_Glob_doc_quick.cfg", FindFirst="TRUE"), expect="LastWins"),
        dict(name="neg-stalecache", module="GlobCache", expect="SameResult",
             cfg=cfg_text("MC_GlobCache.cfg", props=["SameResult"], StaleCache="TRUE", Emit='"none"')),
        dict(name="neg-keybeforetranslate", module="GlobCache", expect="SameResult",
             cfg=cfg_text("MC_GlobCache.cfg", props=["SameResult"], KeyBeforeTranslate="TRUE", Emit='"none"')),
        dict(name="neg-memojoined-lf", module="GlobMemo", expect="OutFaithful",
             cfg=cfg_text("MC_GlobMemo_quick.cfg", inv=["OutFaithful"], MemoKeyJoined="TRUE", Emit='"none"')),
    ]
    jobs += [
        dict(name="find-lts", module="GlobFind", cfg="MC_GlobFind_quick.cfg" if quick else "MC_GlobFind.cfg", tags={"EDGE"}),
        dict(name="neg-lookupmemo", module="GlobFind", expect="FindIsLast",
             cfg=cfg_text("MC_GlobFind_quick.cfg", LookupMemo="TRUE", Emit='"none"')),
        dict(name="neg-filesendcounter", module="GlobFind", expect="FindIsLast",
             cfg=cfg_text("MC_GlobFind_quick.cfg", props=["FindIsLast"], FilesEndCounter="TRUE", Emit='"none"')),
        dict(name="neg-filesendcounter-order", module="GlobFind", expect="ImplOrder",
             cfg=cfg_text("MC_GlobFind_quick.cfg", inv=["ImplOrder"], FilesEndCounter="TRUE", Emit='"none"')),
        dict(name="neg-scanstopsatlicense", module="GlobFind", expect="FindIsLast",
             cfg=cfg_text("MC_GlobFind_quick.cfg", props=["FindIsLast"], ScanStopsAtLicense="TRUE", Emit='"none"')),
        dict(name="neg-convmemo", module="GlobCache", expect="SameResult",
             cfg=cfg_text("MC_GlobCache.cfg", props=["SameResult"], ConvMemo="TRUE", Emit='"none"')),
        # documents with content-equal (copy-and-paste) Files paragraphs, also equal to the paragraph being added
        dict(name="find-eq-lts", module="GlobFind", tags={"EDGE"},
             cfg="MC_GlobFind_eq.cfg" if quick else cfg_text("MC_GlobFind_eq.cfg", MaxLic="2")),
        dict(name="neg-insertbyvalue", module="GlobFind", expect="FindIsLast",
             cfg=cfg_text("MC_GlobFind_eq.cfg", props=["FindIsLast"], InsertByValue="TRUE", Emit='"none"', MaxLic="0" if quick else "1")),
        dict(name="neg-insertbyvalue-order", module="GlobFind", expect="ImplOrder",
             cfg=cfg_text("MC_GlobFind_eq.cfg", inv=["ImplOrder"], InsertByValue="TRUE", Emit='"none"')),
    ]
    # lists of many patterns answered from lookup tables, PREFIX*SUFFIX by startswith + endswith (C16-seedN)
    jobs.append(dict(name="neg-affixfast", module="Glob", expect="MatchesIffGlob",
                     cfg=cfg_text("MC_Glob_bnd_a.cfg", inv=["MatchesIffGlob"], AffixFrom="1", MaxNameLen="2")))
    if quick:       # one run: design check of the small pool and its LTS; fewer negative controls (all in thorough)
        jobs.append(dict(name="emit-memo", module="GlobMemo", cfg="MC_GlobMemo_quick.cfg", tags={"EDGE"}))
        jobs = [j for j in jobs if j["name"] not in ("neg-nodotall", "neg-findfirst", "neg-stalecache", "neg-lookupmemo",
                                                     "neg-keybeforetranslate", "neg-filesendcounter-order", "neg-scanstopsatlicense",
                                                     "neg-insertbyvalue-order")]
    else:
        jobs += [dict(name="memo", module="GlobMemo", cfg="MC_GlobMemo.cfg"),
                 dict(name="emit-memo", module="GlobMemo", cfg="MC_GlobMemo_emit.cfg", tags={"EDGE"})]
    if quick:       # single patterns of 3 symbols (e.g. an escaped star followed by a wildcard) against names <= 2
        jobs.insert(3, dict(name="emit-match-3", module="Glob", tags={"CASE"},
                            cfg=cfg_text("MC_Glob_bnd_a.cfg", inv=["EmitCase"], SPEC="ESpec", Emit='"match"', MaxNameLen="2")))
    if not quick:
        jobs += [
            dict(name="neg-memojoined-blank", module="GlobMemo", expect="OutFaithful",
                 cfg=cfg_text("MC_GlobMemo_quick.cfg", inv=["OutFaithful"], MemoKeyJoined="TRUE", JoinSep="32", Emit='"none"')),
            dict(name="neg-memojoined-nosep", module="GlobMemo", expect="OutFaithful",
                 cfg=cfg_text("MC_GlobMemo_quick.cfg", inv=["OutFaithful"], MemoKeyJoined="TRUE", JoinSep="0", Emit='"none"')),
            dict(name="emit-match-a", module="Glob", tags={"CASE"},
                 cfg=cfg_text("MC_Glob_bnd_a.cfg", inv=["EmitCase"], SPEC="ESpec", Emit='"match"', MaxNameLen="3")),
            dict(name="emit-match-b", module="Glob", tags={"CASE"},
                 cfg=cfg_text("MC_Glob_bnd_b.cfg", inv=["EmitCase"], SPEC="ESpec", Emit='"match"')),
        ]
    if os.environ.get("VERIF_C16_SKIP_DESIGN"):
        # debugging aid (like VERIF_C16_LEGS): only the emission runs the binding legs need; the design checks and
        # negative controls do not depend on the seed or on the tree under test
        jobs = [j for j in jobs if j.get("tags")]
    pipeline = None
    if quick:
        # pipelined: the emission runs start first and the replay legs begin as soon as the emission they
        # need is there, while the design checks and negative controls (which feed no leg) still run;
        # they are collected -- and any failure raised -- before the verdict (finish_jobs below)
        prio = {"emit-match": 0, "emit-match-3": 1, "emit-doc": 2, "cache": 3, "find-lts": 4, "emit-memo": 5, "find-eq-lts": 6}
        jobs.sort(key=lambda j: prio.get(j["name"], 10))
        timeout = 900

        def one(j):
            return core.run_tlc(j["module"], j["cfg"], ctx.work, workers=j.get("workers", 1),
                                want_tags=j.get("tags", set()), timeout=timeout, java_opts=JOPTS)

        pipeline = concurrent.futures.ThreadPoolExecutor(5)
        futs = {j["name"]: pipeline.submit(one, j) for j in jobs}

        class _Lazy:
            def __getitem__(self, name):
                return futs[name].result()

        res = _Lazy()

        def finish_jobs():
            try:
                results = [futs[j["name"]].result() for j in jobs]
            finally:
                pipeline.shutdown(wait=True)
            book_jobs(ctx, jobs, results)
    else:
        # big runs one after the other (W workers each); the single-worker runs in a second lane
        bigs = [j for j in jobs if j.get("workers", 1) > 1 and not j.get("small")]
        smalls = [j for j in jobs if j.get("workers", 1) == 1 or j.get("small")]
        with concurrent.futures.ThreadPoolExecutor(2) as ex:
            f1 = ex.submit(exec_jobs, ctx, bigs, 1)
            f2 = ex.submit(exec_jobs, ctx, smalls, 2)
            r1, r2 = f1.result(), f2.result()
        res = book_jobs(ctx, bigs + smalls, r1 + r2)
    t_tlc = time.time()
    ctx.extra["constants"] = {"alphabet": "a b / . * ? \\ LF (quick design check without 'b', '/' and '.', which are plain literals in the model)", "quick": "2 patterns x 2, names 2",
                              "thorough": "a: 1x3/names 4; b: 2x2/names 3; c: 2x3/names 3 over a * ? \\",
                              "documents": "<= 3 paragraphs, <= 2 patterns, <= 3 (thorough 4) symbols"}

    stats = {}
    nviol = [0]

    def report(case, msg):
        nviol[0] += 1
        ctx.violation(case, msg)

    # ---- 2. spec -> code: every (pattern list, name) with the result TLC expects
    sigma8 = [97, 98, 47, 46, 42, 63, 92, 10]
    emissions = [("emit-match", all_names(sigma8, 2))]
    if quick:
        emissions += [("emit-match-3", all_names(sigma8, 2))]
    if not quick:
        emissions += [("emit-match-a", all_names(sigma8, 3)), ("emit-match-b", all_names(sigma8, 3))]
    routes = ["prog", "text", "prog-set", "lines", "prog-ctor", "bytes", "prog-raw", "prog-text"]
    n_lists = n_pairs = 0
    sampled = set()
    size_every, size_phase = (22, 3) if quick else (6, 1)     # one size-stressed concretization per that many cases
    n_size, n_huge, max_huge = [0], [0], (4 if quick else 20)
    for ename, names in (emissions if "match" in LEGS else []):
        cases = res[ename].printed.get("CASE", [])
        if not cases or not all(isinstance(x, dict) and "ps" in x for x in cases):
            raise core.MachineryError("no / garbled CASE lines from %s" % ename)
        cases.sort(key=lambda x: (len(x["ps"]), sum(len(p) for p in x["ps"]), x["ps"]))
        for idx, cse in enumerate(cases):
            if nviol[0] >= 5:
                break
            ps = [tuple(p) for p in cse["ps"]]
            mset = set(tuple(x) for x in cse["m"])
            ok = cse["ok"]
            n_lists += 1
            nontrivial = (not ok) or (0 < len(mset) < len(names))
            ctx.case_seen((ename, skey(cse["ps"])), nontrivial)
            direct = all(len(p) > 0 for p in ps) and (not representable(ps) or idx % 4 == 0)
            if direct:
                # globs_to_re called directly: the only way to a pattern that contains a newline
                stats["direct_api_lists"] = stats.get("direct_api_lists", 0) + 1
                for kind in ("canon", "rand"):
                    cmap = conc_map(rng, kind)
                    bad = check_direct_case(ps, ok, mset, names, cmap)
                    n_pairs += len(names)
                    if bad:
                        nm, exp, got = bad
                        pats = [cstr(cmap, p) for p in ps]
                        report({"kind": "direct", "ps": [list(p) for p in ps], "ok": ok, "name": nm, "expected": exp,
                                "cmap": jmap(cmap), "patterns": pats, "filename": None if nm is None else cstr(cmap, nm)},
                               "globs_to_re(%r)%s -> %s, specification (GlobMatch) says %s"
                               % (pats, "" if nm is None else ".fullmatch(%r)" % cstr(cmap, nm), got, exp))
                        break
            nonempty = all(len(p) > 0 for p in ps)
            has_qm = any(QM in p for p in ps)
            size_jobs = []
            if nonempty and (idx % size_every == size_phase):
                # size / character stress: the same abstract case with long blocks, many patterns, boundary lengths
                n_size[0] += 1
                if n_size[0] % 40 == 7 and n_huge[0] < max_huge and len(ps) <= 2:
                    size_jobs.append(("huge", None))
                    n_huge[0] += 1
                else:
                    size_jobs.append(("fill" if n_size[0] % 2 else "block", None))
            if nonempty and (ename in ("emit-match-3", "emit-match-a") or idx % 27 == 4):
                # the NUMBER of patterns of the list is a dimension of its own: every single-pattern case (and a sample of
                # the two-pattern ones) is also asked as part of a list of few (2..15) and of many (16..65) patterns
                size_jobs += [("fill", rng.choice(sz.COUNTS_FEW)), ("fill", rng.choice(sz.COUNTS_MANY))]
            for mode, count in size_jobs:
                if nviol[0] >= 5:
                    break
                t_job = time.process_time()
                sc = sz.size_conc(rng, SIZE_LITERALS, mode, len(ps), has_qm, count=count)
                if mode == "fill" and count is None:
                    sz.hit_joined(rng, sc, ps)
                if count is not None:
                    stats["count_cases"] = stats.get("count_cases", 0) + 1
                as_direct = not representable(ps)
                route = rng.choice(["prog", "prog", "prog-set", "prog-set", "text", "lines", "bytes", "legacy:%d" % rng.randrange(10 ** 6)]
                                   if count is None else ["prog", "prog", "prog-set", "text"])
                lay = rand_seps(rng, len(sc.patterns(ps)), route in TEXTUAL)
                if sc.L > 64:
                    hit = [nm for nm in names if nm in mset]
                    sub = rng.sample(names, min(len(names), 10 if mode != "huge" else 4)) + rng.sample(hit, min(len(hit), 4 if mode != "huge" else 2))
                else:
                    sub = names
                bad = check_size_case(ps, ok, mset, sub, sc, route, lay, direct=as_direct)
                n_pairs += len(sub)
                stats["size_cases_" + mode] = stats.get("size_cases_" + mode, 0) + 1
                if count is not None:
                    stats["count_cases_cpu_s"] = round(stats.get("count_cases_cpu_s", 0) + time.process_time() - t_job, 3)
                if bad:
                    nm, exp, got = bad
                    report({"kind": "size", "ps": [list(p) for p in ps], "ok": ok, "name": nm, "expected": exp,
                            "sc": sc.to_json(), "route": route, "lay": lay, "direct": as_direct},
                           size_report_text(sc, ps, route, nm, exp, got, as_direct))
                    break
            else:
                size_jobs = []
            if size_jobs:       # (left by break: reported)
                continue
            if not representable(ps):
                if not direct:
                    check_unrepresentable(ctx, ps, ok, mset, names, stats)
                stats["unrepresentable_lists"] = stats.get("unrepresentable_lists", 0) + 1
                continue
            if ename == "emit-match":
                plan = [("canon", routes[idx % 2]), ("rand", routes[(idx + 1) % 8]), ("case", routes[(idx + 4) % 8])]
            else:
                plan = [("canon", "prog"), ("rand", routes[idx % 8])]
            if idx % 10 == 3:       # the paragraph arrives through another kind of file object / sequence
                plan[-1] = (plan[-1][0], FORMS.plain())
            if idx % 8 == 2:        # bytes document with a legacy-encoded line next to non-ASCII UTF-8 patterns
                plan.append(("uni", "legacy:%d" % rng.randrange(10 ** 6)))
            for kind, route in plan:
                cmap = conc_map(rng, kind)
                lay = rand_seps(rng, len(ps), route in TEXTUAL)
                bad = check_match_case(ps, ok, mset, names, cmap, route, lay)
                n_pairs += len(names)
                if bad:
                    nm, exp, got = bad
                    pats = [cstr(cmap, p) for p in ps]
                    report({"kind": "match", "ps": [list(p) for p in ps], "ok": ok, "name": nm, "expected": exp,
                            "cmap": jmap(cmap), "route": route, "lay": lay,
                            "patterns": pats, "filename": None if nm is None else cstr(cmap, nm)},
                           "Files %r (%s): matches(%r) -> %s, specification (GlobMatch) says %s"
                           % (pats, route, None if nm is None else cstr(cmap, nm), got, exp))
                    break
            if idx >= len(cases) // 3 and ok and len(ps) == 2 and 2 < len(mset) < 12 and ename not in sampled:
                sampled.add(ename)
                ctx.sample("%s: ps=%r well-formed=%s matching names (of %d)=%r"
                           % (ename, [cstr({}, p) for p in ps], ok, len(names), sorted(cstr({}, x) for x in mset)[:8]))
    ctx.evaluations += n_pairs
    ctx.extra["pattern_lists_replayed"] = n_lists
    ctx.extra["pattern_name_pairs_replayed"] = n_pairs

    t_match = time.time()
    # ---- 3. spec -> code: documents, expected paragraph index for every name
    docs = res["emit-doc"].printed.get("DOC", [])
    if not docs or not all(isinstance(x, dict) and "doc" in x for x in docs):
        raise core.MachineryError("no / garbled DOC lines")
    docs.sort(key=lambda x: (len(x["doc"]), sum(len(ps) for ps in x["doc"]), x["doc"]))
    n_docs = n_finds = 0
    doc_size_every = 25 if quick else 8
    n_bigdoc, n_kdoc, max_kdoc = [0], [0], (2 if quick else 12)
    n_wf = [0]
    droutes = ["prog", "text", "lines", "prog-set", "prog-mix", "bytes", "prog-ctor", "prog-raw"]
    for idx, dc in enumerate(docs if "doc" in LEGS else []):
        if nviol[0] >= 5:
            break
        d = [[tuple(p) for p in ps] for ps in dc["doc"]]
        fexp = [(tuple(x[0]), x[1], x[2]) for x in dc["f"]]
        nontrivial = len(d) > 1 and len({x[1] for x in fexp}) > 1
        ctx.case_seen(("doc", skey(dc["doc"])), nontrivial)
        if not all(representable(ps) for ps in d):
            stats["unrepresentable_docs"] = stats.get("unrepresentable_docs", 0) + 1
            continue
        n_docs += 1
        dplan = [("canon", droutes[idx % 4]), ("rand", droutes[(idx + 1) % 8])]
        if idx % 3 == 1:
            dplan.append(("uni", "legacy:%d" % rng.randrange(10 ** 6)))
        if idx % 4 == 2:        # input forms: every kind of file object / sequence of lines Copyright() accepts
            dplan[1] = ("rand", FORMS.plain())
        if all(x[1] != -1 for x in fexp):       # (a construction failure of an ill-formed document is not judged)
            n_wf[0] += 1
            if n_wf[0] % 10 == 7:   # a line end exactly at / next to a power-of-two offset of the input
                dplan.append(("rand", FORMS.aligned_route(5 * len(d))))
        for kind, route in dplan:
            cmap = conc_map(rng, kind)
            order = []
            for k in range(len(d)):
                if rng.random() < 0.25:
                    order.append("L")
                order.append(k)
            lays = [rand_seps(rng, len(ps), route in TEXTUAL) for ps in d]
            bad = check_doc_case(d, fexp, cmap, route, order, lays)
            n_finds += len(fexp)
            if bad:
                nm, exp, got = bad
                paras = [[cstr(cmap, p) for p in ps] for ps in d]
                report({"kind": "doc", "doc": [[list(p) for p in ps] for ps in d], "f": [[list(a), b, c] for a, b, c in fexp],
                        "cmap": jmap(cmap), "route": route, "order": order, "lays": lays, "paragraphs": paras,
                        "filename": None if nm is None else cstr(cmap, nm)},
                       "document with Files paragraphs %r (%s): find_files_paragraph(%r) -> %s, specification says %s "
                       "(index of the last matching paragraph, 0 = None)"
                       % (paras, route, None if nm is None else cstr(cmap, nm), got, exp))
                break
        if idx % doc_size_every == 5 and nviol[0] < 5:
            # the same abstract document among 10 / 100 / 1000 Files paragraphs, with inflated pattern lists
            n_bigdoc[0] += 1
            if n_bigdoc[0] % 12 == 3 and n_kdoc[0] < max_kdoc:
                total = rng.choice([999, 1000, 1001])
                n_kdoc[0] += 1
            else:
                total = sz.pick(rng, [3, 9, 10, 11, 16, 17, 31, 32, 33, 99, 100, 101, 255, 256, 257], 257 if not quick else 101)
            total = max(total, len(d))
            sc = sz.size_conc(rng, SIZE_LITERALS, rng.choice(["fill", "block"]), 2, any(QM in p for ps in d for p in ps))
            if sc.L > 129:
                sc.pad = sc.pad[:rng.choice([63, 64, 79, 128])]
            positions = sorted(rng.sample(range(1, total + 1), len(d)))
            fillers = sz.filler_paragraphs(rng, total - len(d))
            route = rng.choice(["prog", "prog-set", "text", "lines", "bytes", "legacy:%d" % rng.randrange(10 ** 6)])
            lays = [rand_seps(rng, 250, route in TEXTUAL) for _ in range(total)]
            bad = check_size_doc(d, fexp, sc, positions, fillers, route, lays)
            n_finds += len(fexp)
            stats["size_documents"] = stats.get("size_documents", 0) + 1
            stats["size_documents_max_paragraphs"] = max(stats.get("size_documents_max_paragraphs", 0), total)
            if bad:
                nm, exp, got = bad
                report({"kind": "sizedoc", "doc": [[list(p) for p in ps] for ps in d], "f": [[list(a), b, c] for a, b, c in fexp],
                        "sc": sc.to_json(), "positions": positions, "fillers": fillers, "route": route, "lays": lays},
                       "size-stressed document (%s): %d Files paragraphs, the abstract paragraphs %r sit at positions %r "
                       "(all others cannot match: their patterns start with %r), block length %d: find_files_paragraph(%s) "
                       "-> %s, specification says %s (position of the last matching paragraph, 0 = None)"
                       % (route, total, [[cstr({}, p) for p in ps] for ps in d], positions, sz.FILL, sc.L,
                          None if nm is None else brief(sc.name(tuple(nm))), got, exp))
        if idx >= len(docs) // 2 and "doc" not in sampled and len({x[1] for x in fexp}) > 2 and all(x[1] >= 0 for x in fexp):
            sampled.add("doc")
            ctx.sample("DOC %r expected (name, index) %r" % ([[cstr({}, p) for p in ps] for ps in d],
                                                             [(cstr({}, a), b) for a, b, _ in fexp]))
    ctx.evaluations += n_finds
    ctx.extra["documents_replayed"] = n_docs
    ctx.extra["find_calls_replayed"] = n_finds

    t_doc = time.time()
    # ---- 4. spec -> code: the cache model, every transition + random walks
    g_edges = res["cache"].printed.get("EDGE", [])
    inits = [e["from"] for e in g_edges if e["from"]["key"] == []]
    if not inits:
        raise core.MachineryError("no EDGE lines from GlobCache")
    g = LTS(g_edges, inits[0])
    ctx.extra["cache_lts"] = {"states": len(g.states), "edges": len(g.edges)}
    ops = {}
    for e in g.edges:
        ops[e["op"]] = ops.get(e["op"], 0) + 1
    ctx.extra["edges_per_action"] = ops
    cache_key_drift(ctx, g)
    paths = g.paths()
    bad_lists = sorted({skey(e["from"]["files"]) for e in g.edges if e["op"] == "matches" and e["res"] == "FormatError"})
    n_beh = 0
    for e in (g.edges if "cache" in LEGS else []):
        if nviol[0] >= 5:
            break
        path = paths[e["_f"]] + [e]
        cmap = conc_map(rng, rng.choice(["canon", "rand", "case"]))
        route = ["prog", "prog-ctor", "prog-raw", "prog-text"][n_beh % 4]
        msg = run_cache_path(inits[0]["files"], path, cmap, route, bad_lists)
        ctx.case_seen(("cache-edge", e["_f"], e["op"], skey(e["args"])), e["op"] == "matches")
        n_beh += 1
        if msg:
            report({"kind": "cache", "start": inits[0]["files"], "path": [strip(x) for x in path], "cmap": jmap(cmap),
                    "route": route, "bad": bad_lists}, msg)
    init_keys = sorted({skey(s) for s in inits})
    for w in range((150 if quick else 1500) if "cache" in LEGS else 0):
        if nviol[0] >= 5:
            break
        sk = rng.choice(init_keys)
        path = g.walk(rng, sk, 14, weight=lambda x: 2 if x["op"] == "matches" else 1)
        cmap = conc_map(rng, rng.choice(["canon", "rand", "case"]))
        route = rng.choice(["prog", "text", "prog-set", "bytes", "prog-ctor", "prog-ctor", "prog-raw", "prog-text", "prog-iter",
                            "legacy:%d" % rng.randrange(10 ** 6)])
        msg = run_cache_path(g.states[sk]["files"], path, cmap, route, bad_lists)
        ctx.case_seen(("cache-walk", w), True)
        n_beh += 1
        if msg:
            report({"kind": "cache", "start": g.states[sk]["files"], "path": [strip(x) for x in path],
                    "cmap": jmap(cmap), "route": route, "bad": bad_lists}, msg)
    # error-path histories: on ONE paragraph object, a query that raises the format error followed by
    # further queries (same and other names, matches and find) without touching Files, then Files set to
    # a legal value, queried, and set back to the ill-formed value
    def follow(sk, steps):
        out = []
        for op, arg in steps:
            nxt = [x for x in g.out.get(sk, []) if x["op"] == op and x["args"][0] == arg]
            if not nxt:
                raise core.MachineryError("cache LTS has no edge %s(%r) from %s" % (op, arg, sk))
            out.append(nxt[0])
            sk = nxt[0]["_t"]
        return out

    qnames = sorted({tuple(e["args"][0]) for e in g.edges if e["op"] == "matches"})
    legal = [json.loads(k)["files"] for k in init_keys if skey(json.loads(k)["files"]) not in bad_lists]
    n_err = 0
    for bk in (bad_lists if "cache" in LEGS else []):
        b = json.loads(bk)
        for lg in legal:
            for rep_ in range(1 if quick else 4):
                if nviol[0] >= 5:
                    break
                n1, n2, n3 = [list(x) for x in rng.sample(qnames, 3)]
                q = rng.choice(["matches", "find"])
                sf = [rng.choice(["setfiles", "rawset"]) for _ in range(3)]
                steps = [(q, n1), ("matches", n1), ("find", n1), ("matches", n2), ("find", n3),
                         (sf[0], lg), ("matches", n1), ("find", n2), (sf[1], b),
                         ("find", n1), ("matches", n1), ("matches", n3), ("find", n2)]
                start = rng.choice([b, lg])
                if start is lg:
                    steps = [("matches", n2), (sf[2], b)] + steps
                path = follow(skey({"files": start, "key": []}), steps)
                cmap = conc_map(rng, rng.choice(["canon", "rand", "case"]))
                route = rng.choice(["prog", "text", "prog-set", "bytes", "prog-ctor", "prog-raw", "prog-text",
                                    "legacy:%d" % rng.randrange(10 ** 6)])
                msg = run_cache_path(start, path, cmap, route, bad_lists)
                ctx.case_seen(("cache-error-path", bk, skey(lg), rep_), True)
                n_beh += 1
                n_err += 1
                if msg:
                    report({"kind": "cache", "start": start, "path": [strip(x) for x in path],
                            "cmap": jmap(cmap), "route": route, "bad": bad_lists}, msg)
    ctx.extra["cache_behaviours_replayed"] = n_beh
    ctx.extra["cache_error_path_histories"] = n_err

    # ---- 4b. spec -> code: direct globs_to_re histories (GlobMemo): lists whose joined text
    # coincides, translated in both orders within this process, interleaved with FilesParagraph use
    m_edges = res["emit-memo"].printed.get("EDGE", [])
    if not m_edges:
        raise core.MachineryError("no EDGE lines from GlobMemo")
    gm = LTS(m_edges, [])
    ctx.extra["memo_lts"] = {"states": len(gm.states), "edges": len(gm.edges)}
    for e in gm.edges:
        ops["memo-" + e["op"]] = ops.get("memo-" + e["op"], 0) + 1
    pool_ok = sorted({skey(e["args"][0]) for e in gm.edges if e["op"] == "translate" and e["res"] == "ok"})
    pool_bad = sorted({skey(e["args"][0]) for e in gm.edges if e["op"] == "translate" and e["res"] != "ok"})
    mnames = sorted({tuple(e["args"][0]) for e in gm.edges if e["op"] == "query"})
    para_ok = sorted({skey(e["args"][0]) for e in gm.edges if e["op"] == "paramatch"})

    def mfollow(sk, steps):
        out = []
        for op, args in steps:
            nxt = [x for x in gm.out.get(sk, []) if x["op"] == op and x["args"] == args]
            if not nxt:
                raise core.MachineryError("memo LTS has no edge %s(%r) from %s" % (op, args, sk))
            out.append(nxt[0])
            sk = nxt[0]["_t"]
        return out

    fresh = [(x, y) for x in LIT_POOL for y in LIT_POOL if x != y and not ({x, y} & set("',|xX"))]
    rng.shuffle(fresh)
    n_memo = 0

    def memo_run(steps):
        nonlocal n_memo
        if nviol[0] >= 5 or "memo" not in LEGS:
            return
        path = mfollow(skey([]), steps)
        cmap = memo_cmap(*fresh[n_memo % len(fresh)]) if n_memo else {}
        n_memo += 1
        msg = run_memo_path(path, cmap)
        ctx.case_seen(("memo", n_memo), True)
        if msg:
            report({"kind": "memo", "path": [strip(x) for x in path], "cmap": jmap(cmap)}, msg)

    allq = [("query", [list(nm)]) for nm in mnames]
    for ki in pool_ok:
        for kj in pool_ok:
            if ki == kj:
                continue
            i, j = json.loads(ki), json.loads(kj)
            memo_run([("translate", [i])] + allq + [("translate", [j])] + allq + [("translate", [i])] + allq)
            if kj in para_ok:
                memo_run([("translate", [i])] + [("paramatch", [j, list(nm)]) for nm in mnames] + allq)
            if ki in para_ok:
                memo_run([("paramatch", [i, list(nm)]) for nm in mnames[:3]] + [("translate", [j])] + allq
                         + [("paramatch", [i, list(nm)]) for nm in mnames])
        for kb in pool_bad:
            memo_run([("translate", [json.loads(ki)]), ("translate", [json.loads(kb)])] + allq
                     + [("translate", [json.loads(kb)])])
    for w in range((60 if quick else 600) if "memo" in LEGS else 0):
        if nviol[0] >= 5:
            break
        path = gm.walk(rng, skey([]), 16)
        cmap = memo_cmap(*fresh[(n_memo + w) % len(fresh)])
        msg = run_memo_path(path, cmap)
        ctx.case_seen(("memo-walk", w), True)
        n_memo += 1
        if msg:
            report({"kind": "memo", "path": [strip(x) for x in path], "cmap": jmap(cmap)}, msg)
    ctx.extra["memo_behaviours_replayed"] = n_memo
    n_beh += n_memo

    # ---- 4c. spec -> code: histories of ONE document (GlobFind): Files re-assigned in place (setter / through the
    # Deb822 handle), paragraphs added behind the last Files paragraph of documents PARSED with stand-alone License
    # paragraphs anywhere in between, dump + parse again; every lookup must return the paragraph with the identity
    # the specification says.  Every state of the model is a document the history may start from.
    t_memo = time.time()
    n_fh = 0
    find_routes = {}

    def find_leg(jobname, label, nwalks):
        nonlocal n_fh
        f_edges = res[jobname].printed.get("EDGE", [])
        if not f_edges:
            raise core.MachineryError("no EDGE lines from GlobFind (%s)" % jobname)
        gf = LTS(f_edges, {"d": [], "lay": [], "oth": []})
        ctx.extra[label + "_lts"] = {"states": len(gf.states), "edges": len(gf.edges)}
        for e in gf.edges:
            ops["%s-%s" % (label, e["op"])] = ops.get("%s-%s" % (label, e["op"]), 0) + 1
        bad_f = sorted({skey(e["from"]["d"][0]) for e in gf.edges
                        if e["op"] == "find" and e["res"] == -1 and len(e["from"]["d"]) == 1})

        def find_run(sk, path, tag):
            nonlocal n_fh
            start = gf.states[sk]
            cmap = conc_map(rng, rng.choice(["canon", "rand", "case"]))
            if n_fh % 40 == 4 and start["lay"]:
                route = FORMS.aligned_route(4 * len(start["lay"]))
            else:
                route = rng.choice(["text", "lines", "bytes", "legacy", "form", "form", "prog", "prog-set", "prog-ctor",
                                    "prog-raw", "prog-text", "prog-mix", "prog-mix", "prog-borrow", "prog-iter"])
            if route.startswith("prog") and not trailing_licenses_only(start["lay"]):
                route = rng.choice(["text", "lines", "bytes", "form"])      # only a parser gives this layout
            if route == "legacy":
                route, cmap = "legacy:%d" % rng.randrange(10 ** 6), conc_map(rng, "uni")
            elif route == "form":
                route = FORMS.plain()
            find_routes[route.split(":")[0]] = find_routes.get(route.split(":")[0], 0) + 1
            lays = [rand_seps(rng, len(ps), route in TEXTUAL or route in ("prog-ctor", "prog-raw", "prog-text", "prog-mix", "prog-borrow", "prog-iter"))
                    for ps in start["d"]]
            # a failed parse is followed (every other time) by a fresh parse of the same text in this process:
            # the Reparse step of the model, which leaves the state where it is
            full = []
            for e in path:
                full.append(e)
                if e["op"] == "fault" and e["args"][0] == "parse" and rng.random() < 0.5:
                    full.append([x for x in gf.out[e["_t"]] if x["op"] == "reparse"][0])
            path = full
            seed = rng.randrange(10 ** 9)
            msg = run_find_path(start, path, cmap, route, lays, seed, bad_f)
            ctx.case_seen(tag, True)
            n_fh += 1
            if msg:
                report({"kind": "findhist", "start": start, "path": [strip(x) for x in path], "cmap": jmap(cmap),
                        "route": route, "lays": lays, "seed": seed, "bad": bad_f}, msg)

        def same_find(sk, e1):
            return [x for x in gf.out[sk] if x["op"] == "find" and x["args"] == e1["args"]][0]

        keys_f = sorted(gf.states)
        for sk in keys_f:
            if nviol[0] >= 5:
                break
            outs = gf.out.get(sk, [])
            finds = [x for x in outs if x["op"] == "find"]
            edits = [x for x in outs if x["op"] != "find" and (x["_t"] != sk or x["op"] in ("reparse", "rawset", "fault"))]
            if not finds or not edits:
                raise core.MachineryError("GlobFind state %s without lookups / edits" % sk)
            # every added paragraph: all names before and after, then the document dumped and parsed again
            for e2 in [x for x in outs if x["op"] == "addfiles"]:
                t = e2["_t"]
                after = [x for x in gf.out[t] if x["op"] == "find"]
                rep = [x for x in gf.out[t] if x["op"] == "reparse"][0]
                find_run(sk, finds[:2] + [e2] + after + [rep] + after + gf.walk(rng, t, 2), (label + "-add", sk, skey(e2["args"])))
            # a lookup, one edit, the same lookup again, and on from there
            for e2 in rng.sample(edits, min(len(edits), 1 if quick else 4)):
                e1 = rng.choice(finds)
                find_run(sk, [e1, e2, same_find(e2["_t"], e1)] + gf.walk(rng, e2["_t"], 4),
                         (label + "hist", sk, skey(e1["args"]), e2["op"], skey(e2["args"])))
        for w in range(nwalks):
            if nviol[0] >= 5:
                break
            sk = rng.choice(keys_f) if w % 3 else gf.init
            find_run(sk, gf.walk(rng, sk, 14, weight=lambda x: 3 if x["op"] in ("addfiles", "addlicense", "reparse") else 1),
                     (label + "walk", w))

    if "find" in LEGS:
        find_leg("find-lts", "find", 150 if quick else 2000)
        find_leg("find-eq-lts", "find_eq", 100 if quick else 1500)
    ctx.extra["find_histories_replayed"] = n_fh
    ctx.extra["find_history_routes"] = find_routes
    ctx.extra["faulted_calls"] = dict(sorted(FAULT_LOG.items()))       # what the faulted calls themselves did (not judged)
    n_beh += n_fh

    t_cache = time.time()
    # ---- 5. code -> spec: recorded histories validated by TLC
    ntr, nops = (220, 18) if quick else (3000, 30)
    big_every = 20 if quick else 12
    traces = []
    skipped = 0
    for _ in range(ntr if "trace" in LEGS else 0):
        isbig = len(traces) % big_every == 1
        t, why = execute(rand_script(rng, 14 if isbig else nops, big=isbig))
        if t is None and why == "eager":
            stats["histories_ending_in_eager_format_error"] = stats.get("histories_ending_in_eager_format_error", 0) + 1
        elif t is None:
            skipped += 1
            ctx.drift("trace not recorded: " + why)
        else:
            traces.append(t)
    if skipped * 20 > ntr and not nviol[0]:     # (with violations reported by the replay legs the same cause is already judged)
        raise core.MachineryError("%d of %d histories could not be set up" % (skipped, ntr))
    t_rec = time.time()
    if pipeline is not None:
        finish_jobs()
    rejected, info = validate(ctx, traces)
    ctx.extra["phase_wall_s"] = {"tlc_design_and_emission": round(t_tlc - t_start, 1), "replay_match": round(t_match - t_tlc, 1),
                                 "replay_find": round(t_doc - t_match, 1), "replay_cache_memo": round(t_memo - t_doc, 1), "replay_find_histories": round(t_cache - t_memo, 1),
                                 "record_traces": round(t_rec - t_cache, 1), "validate_traces": round(time.time() - t_rec, 1)}
    try:
        import resource
        ru = resource.getrusage(resource.RUSAGE_SELF)
        ctx.extra["harness_cpu_s"] = round(ru.ru_utime + ru.ru_stime, 1)       # without the TLC child processes
    except Exception:
        pass
    evs = {}
    for t in traces:
        for e in t["events"]:
            key = e["op"] + (":" + str(e["res"]) if e["op"] == "matches" else "")
            evs[key] = evs.get(key, 0) + 1
    ctx.extra["trace_events"] = evs
    ctx.extra["file_object_kinds"] = dict(sorted(FORMS.stats["kinds"].items()))
    ctx.extra["aligned_cases"] = dict(sorted(FORMS.stats["aligned"].items()))     # "<2^k><delta>": documents built
    ctx.extra["traces_recorded"] = len(traces)
    ctx.extra["traces_rejected"] = len(rejected)
    ctx.extra.update(stats)
    ctx.traces += n_lists + n_docs + n_beh + len(traces)
    ctx.evaluations += sum(len(t["events"]) for t in traces)
    for i in range(len(traces)):
        ctx.distinct.add(("trace", i))
    if traces:
        ctx.sample("recorded history (first 4 events): " + json.dumps(traces[0]["events"][:4], separators=(",", ":")))
        ctx.sample("its script: " + json.dumps({k: traces[0]["script"][k] for k in ("route", "paras")}, ensure_ascii=False)
                   + " ops " + json.dumps(traces[0]["script"]["ops"][:3], ensure_ascii=False))
    for i in rejected[:5]:
        t = traces[i - 1]
        at = info.get(i, 0)
        ev = t["events"][at] if at < len(t["events"]) else None
        oi = ev.get("oi") if ev else None
        op = t["script"]["ops"][oi] if oi is not None else None
        cur = [list(ps) for ps in t["script"]["paras"]]
        held = None
        for o in t["script"]["ops"][:oi or 0]:
            if o[0] in ("setfiles", "rawset"):
                cur[o[1]] = o[2]
            elif o[0] == "addfiles":
                cur.append(o[1])
            elif o[0] == "translate":
                held = o[1]
        where = ("the regex of globs_to_re(%r); earlier direct translations in this history: %r"
                 % (held, [o[1] for o in t["script"]["ops"][:oi or 0] if o[0] == "translate"])
                 if op and op[0] in ("query", "translate") else
                 "the document (built via %s) with Files paragraphs %s%s (a lookup returns the IDENTITY of a paragraph: its number in "
                 "the order the paragraphs came into the document); the calls before it: %s"
                 % (t["script"]["route"], brief(cur),
                    " (the first %d tagged %s: paragraphs with the same tag, patterns and layout are content-equal duplicates)"
                    % (len(t["script"]["tags"]), ",".join(t["script"]["tags"])) if len(set(t["script"].get("tags") or [])) < len(t["script"].get("tags") or []) else "",
                    "; ".join(brief(repr(o), 90) for o in t["script"]["ops"][max(0, (oi or 0) - 6):oi or 0]) or "-"))
        report({"kind": "trace", "script": t["script"], "first_unexplained_event": at + 1},
               "recorded history not explained by the Glob reference: event %d %r = call %r on %s"
               % (at + 1, ev, op, where))


def replay(ctx, case):
    global SCRATCH
    SCRATCH = ctx.work
    kind = case.get("kind")
    if kind == "match":
        ps = [tuple(p) for p in case["ps"]]
        cmap = unjmap(case["cmap"])
        pats = [cstr(cmap, p) for p in ps]
        try:
            para = build_para(case["route"], pats, case["lay"])
        except Exception as e:
            return "construction of Files %r failed: %s: %s" % (pats, type(e).__name__, e)
        if case["name"] is None:
            return None
        got = obs_match(para, cstr(cmap, case["name"]))
        if got != case["expected"]:
            return "Files %r: matches(%r) -> %s, specification says %s" % (pats, cstr(cmap, case["name"]), got, case["expected"])
        return None
    if kind == "size":
        sc = sz.SizeConc.from_json(case["sc"])
        ps = [tuple(p) for p in case["ps"]]
        nm = None if case["name"] is None else tuple(case["name"])
        names = [] if nm is None else [nm]
        mset = {nm} if case["expected"] == "match" else set()
        bad = check_size_case(ps, case["ok"], mset, names, sc, case["route"], case["lay"], direct=case["direct"])
        if bad:
            return size_report_text(sc, ps, case["route"], bad[0], bad[1], bad[2], case["direct"])
        return None
    if kind == "sizedoc":
        d = [[tuple(p) for p in ps] for ps in case["doc"]]
        fexp = [(tuple(a), b, c) for a, b, c in case["f"]]
        bad = check_size_doc(d, fexp, sz.SizeConc.from_json(case["sc"]), case["positions"], case["fillers"], case["route"], case["lays"])
        if bad:
            return "find_files_paragraph(name built from %r) -> %s, specification says %s" % (bad[0], bad[2], bad[1])
        return None
    if kind == "direct":
        cmap = unjmap(case["cmap"])
        pats = [cstr(cmap, p) for p in case["ps"]]
        got, rx = obs_translate(pats)
        if case["name"] is None:
            return None if got == case["expected"] else "globs_to_re(%r) -> %s, specification says %s" % (pats, got, case["expected"])
        if rx is None:
            return "globs_to_re(%r) -> %s" % (pats, got)
        got = obs_query(rx, cstr(cmap, case["name"]))
        if got != case["expected"]:
            return "globs_to_re(%r).fullmatch(%r) -> %s, specification says %s" % (pats, cstr(cmap, case["name"]), got, case["expected"])
        return None
    if kind == "memo":
        return run_memo_path(case["path"], unjmap(case["cmap"]))
    if kind == "findhist":
        return run_find_path(case["start"], case["path"], unjmap(case["cmap"]), case["route"], case["lays"], case["seed"], case.get("bad", ()))
    if kind == "doc":
        d = [[tuple(p) for p in ps] for ps in case["doc"]]
        fexp = [(tuple(a), b, c) for a, b, c in case["f"]]
        bad = check_doc_case(d, fexp, unjmap(case["cmap"]), case["route"], case["order"], case["lays"])
        if bad:
            return "find_files_paragraph(%r) -> %s, specification says %s" % (
                None if bad[0] is None else cstr(unjmap(case["cmap"]), bad[0]), bad[2], bad[1])
        return None
    if kind == "cache":
        return run_cache_path(case["start"], case["path"], unjmap(case["cmap"]), case.get("route", "prog"), case.get("bad", ()))
    if kind == "trace":
        t, why = execute(case["script"])
        if t is None:
            return why
        rejected, info = validate(ctx, [t], with_controls=False)
        if rejected:
            return "history still not explained by the specification at event %d" % (info.get(1, 0) + 1)
        return None
    return "unknown case kind"
