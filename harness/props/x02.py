"""X02 (extra) -- debian/watch files are read, written and re-read exactly (lib/debian/watch.py).

statement: see EXTRA["statement"] (and the headers of spec/WatchFile.tla, WatchFileObjs.tla,
           WatchFileExpand.tla).
spec:      spec/WatchFile.tla        text as symbol sequences (opaque words + the characters the parser looks
                                     at); documents = version line + logical lines (Prefixes x UrlShapes x
                                     Tails) in every layout (pads, one / two folds with and without indentation,
                                     comment and blank lines); the line automaton of from_lines (PStep / PEnd,
                                     one branch per branch of the code), dump (DumpLines)
           spec/WatchFileOps.tla     the public objects as values, one operator per call
           spec/WatchFileObjs.tla    heap model: every constructor / parse owns its lists (HeapAgrees, Unshared)
           spec/WatchFileExpand.tla  expand(): symbol-wise statement vs. the code's sequence of replace passes
           spec/TraceWatchFile.tla   trace validation (parse prefix by prefix, API histories, expand)
model checking: WatchFile_quick_layout (7 850 states) / _quick_seq (9 540); thorough: _layout (22 578), _cut2 (39 926),
           _quick_seq, _pairs (153 902), _seq3 (47 730), _gaps (80 736): ParseOK, RoundTrip (incl. normal form), NoVersion,
           InnerSkipped, BadOK in every state; every state is replayed (thorough: canonical form for every 3rd state with all
           probes, a sampled concretization for the others).  Negative controls,
           re-run in every check (each must make TLC report the named invariant): StripIndentV3 -> ParseOK,
           LeakBlank -> ParseOK (what the CODE does: finding 1), NeverQuote -> RoundTrip, PPKnown = FALSE ->
           RoundTrip (finding 2, a defect of the format design visible in the model), CommentEndsCont ->
           InnerSkipped; WatchFileObjs: SharedDefault / SharedWatchDefault / ParseCached -> HeapAgrees;
           WatchFileExpand: ExpandOnce -> ImplIsExpand.
binding:   (a) every CASE line of TLC (text, expected WatchFile, expected dump, outcome without the version line)
               is concretized several times (words, blank runs, numerals, newline style, source kind) and
               replayed: from_lines (strict and not) == expected; dump() == expected text; from_lines(dump) ==
               expected; second dump identical; without version line MissingVersion / None.  CBAD lines (one
               defect each): outcome == TLC's.  XCASE lines: expand() == expected.
           (a') state-leak probes in the replay: the first result is mutated (options, entries, entry options,
               fields) before the same text is parsed again; the previous case's object is kept alive and
               re-verified afterwards.
           (a") size stress (notes/SIZE_STRESS.md).  The model is length-independent by construction (words,
               blank runs and numerals are opaque symbols; PLogical handles every logical line on its own and
               only appends), so the expected result of a size-stressed concretization is the expansion of
               TLC's: words of 1..65537 characters, blank runs up to 8193, numerals up to 10**18 and with
               leading zeros, and every logical line of the case standing for a run of 0..1000 copies
               (`segs`).  expand: the text repeated up to 1000 times, package names up to 65537 characters.
           (b) recorded executions validated by TLC (TraceWatchFile): random in-domain documents (more shapes
               than the bounded model: more options, more fields, random folds) fed prefix by prefix; API
               histories over several live objects (new / parse / append / set / delete / dump / iter) with a
               snapshot of EVERY live object after each call; expand calls.  Results are read back into
               symbols with a per-trace dictionary (every word starts with its own capital letter).  Corrupted
               control traces must be rejected.
verdict observables: the projected WatchFile (version, options, entries with url / matching_pattern / version /
           script / options) == TLC's; dump text == TLC's; exception class; warning issued or not.
unspecified (executed, compared with the model, recorded as drift only): folds whose effect depends on the format
           (format >= 4 directly before a blank; format <= 3 indented inside a field), comment / blank lines
           between two continuation lines, the RESULT of a non-strict call on a file that ends in a
           continuation (only the warning is required).
domain:    words contain no white space (Unicode), none of  " , ( )  and no '/' (the url head, options, a separate pattern and the script may),
           do not start with '#' or end with a backslash, are not numerals; blanks are ' ' and TAB; options are
           non-empty; a list of options with both a '"' and a blank is read but outside the round trip (the format has no
           escape); lines end in LF or nothing (no CR); text input only (str).
"""
import copy
import io
import json
import os
import re
import shutil
import warnings
import zlib
from concurrent.futures import ThreadPoolExecutor

import core

MANIFEST = None
EXTRA = dict(
    title="debian/watch files: from_lines, dump, expand",
    statement=(
        "For every watch file made of a `version=N` line, global option lines (opts=a,b or opts=\"a, b\") and entries "
        "([opts=..] url [pattern [version [script]]], the pattern possibly written as the last path component of the url "
        "when it contains a (..) group), with comment and blank lines between the logical lines, blanks around them, and "
        "logical lines folded over backslash continuation lines (format >= 4: anywhere except directly before a blank, "
        "continuation lines indented at will; format <= 3: anywhere if the continuation line is not indented, at a blank "
        "between two fields if it is), WatchFile.from_lines returns exactly the version, the global options in file order "
        "and the entries that were written, strict or not. dump() of that object is the normal form (version line, one opts "
        "line, one line per entry, quotes exactly when an option contains a blank); parsing the dump gives an equal "
        "WatchFile and dumping again the identical text (as long as no list of options holds both an option with a '\"' and one with a "
        "blank: the format cannot express that). Without a version line as first logical line from_lines raises "
        "MissingVersion (None when there is no logical line); an opts= without options, an unterminated quote or a "
        "non-numeric version raise ValueError; a file ending in a continuation raises WatchFileFormatError when strict and "
        "warns otherwise. Every WatchFile / Watch owns its lists: a call changes the object it is applied to and no other "
        "live object, and parsing again gives the same result. expand(text, package) replaces exactly the non-overlapping "
        "occurrences of @PACKAGE@, @ANY_VERSION@, @ARCHIVE_EXT@, @SIGNATURE_EXT@, @DEB_EXT@ by the package name / the "
        "regular expressions of uscan(1) and leaves everything else in place."),
    technique=(
        "TLA+ specs WatchFile (symbol-level text model; documents x layouts enumerated; line automaton of from_lines; dump), "
        "WatchFileObjs (heap refinement of the value-level API), WatchFileExpand model-checked by TLC with 9 spec-level "
        "negative controls; every TLC case / malformed variant / expand case concretized (size-stressed) and replayed into "
        "debian.watch; recorded executions (prefix-by-prefix parses, API histories with snapshots of all live objects, "
        "expand calls) validated by TLC (TraceWatchFile) together with corrupted control traces"))

# findings on the current tree: turned into KNOWN-FINDING lines (printed by run()), never hidden, everything else
# still a violation
KNOWN = [
    dict(id="X02-quoted-opts-url-blank",
         signature="from_lines: after quoted options (opts=\"..\") an entry whose url is the only field keeps the blank(s) "
                   "before the url: Watch.url == ' https://..' (also when reading back a dump that needed quotes)"),
    dict(id="X02-nested-paren-roundtrip",
         signature="a url with a (..) group in a directory AND in the file component (https://h/v(\\d+)/f-(.+).tgz) is split "
                   "once by from_lines, written as 'https://h/v(\\d+) f-(.+).tgz' by dump and split again when the dump is "
                   "read: parse(dump(wf)) != wf"),
    dict(id="X02-bare-opts-indexerror",
         signature="from_lines: a logical line that is just 'opts=' raises IndexError instead of ValueError"),
]

# ------------------------------------------------------------------ symbols (spec/WatchFile.tla)
SP1, SP2, SPD, BS, HASH, QT, CM, SL, LP, RP, OPTS, VERS, EQ = range(100, 113)
FIXED = {BS: "\\", HASH: "#", QT: '"', CM: ",", SL: "/", LP: "(", RP: ")", OPTS: "opts=", VERS: "version", EQ: "="}
NUM3, NUM4 = 203, 204
XW, XAT, XLK, XLC, XPH, XVAL = 1, 300, 301, 302, 310, 320

# the substitutions documented in uscan(1) (the reference table of the statement -- NOT read from the code)
X_KEYS = {1: "@ANY_VERSION@", 2: "@ARCHIVE_EXT@", 3: "@SIGNATURE_EXT@", 4: "@DEB_EXT@", 5: "@PACKAGE@"}
X_VALUES = {1: r"[-_]?(\d[\-+\.:\~\da-zA-Z]*)",
            2: r"(?i)\.(?:tar\.xz|tar\.bz2|tar\.gz|zip|tgz|tbz|txz)",
            3: r"(?i)\.(?:tar\.xz|tar\.bz2|tar\.gz|zip|tgz|tbz|txz)\.(?:asc|pgp|gpg|sig|sign)",
            4: r"[\+~](debian|dfsg|ds|deb)(\.)?(\d+)?$"}

# ------------------------------------------------------------------ concretization
POOL = {
    1: ["https://samba.org/~jelmer", "http://x", "ftp://ftp.gnu.org/gnu/hello", "https://github.com/o/r/tags", "https://pypi.debian.net/case",
        "x", "http://h/a?b=c&d=e", "https://example.org/@PACKAGE@", "qa.debian.org/watch/sf.php/foo", "https://é.example/ü"],
    2: ["pgpmode=mangle", "uversionmangle=s/-rc/~rc/", "repacksuffix=+dfsg", "foo=bar", "a", "pgpsigurlmangle=s/$/.asc/", "dversionmangle=s/\\+dfsg\\d*$//",
        "component=x", "mode=git", "ü=ö", "pasv", "filenamemangle=s%.*/v?@ANY_VERSION@%@PACKAGE@-$1.tar.gz%"],
    3: ["foo=bar", "pgpmode=none", "b", "decompress", "repack", "compression=xz", "dirversionmangle=s/x/y/", "=", "k=v=w", "opts=no"],
    4: ["blah-", "case-", "v", "foo_", "@PACKAGE@-", "release-", "é-", "x", "-", "[\\w-]+-"],
    5: ["\\d+", ".+", "\\d[\\d.]*", ".*", "?:zip|tgz", "\\d\\S*", "x", "[\\d\\.]+", "?i", "\\d+\\.\\d+"],
    6: [".tar.gz", "\\.tar\\.gz", ".tgz", "@ARCHIVE_EXT@", "\\.(?:zip|tgz)".replace("(", "[").replace(")", "]"), ".zip", "z", "\\.tar\\.xz", "$", ".orig"],
    7: ["blah-.tar.gz", "case-", ".*/v?", "foo-", "[^/]*", "p", "src-", "@PACKAGE@[-_]", "\\S+", ".*"],
    8: ["debian", "same", "ignore", "previous", "group", "checksum", "prev", "d", "Debian", "0debian"],
    9: ["uupdate", "sh", "blah.sh", "debian/repack.stub", "/bin/true", "custom", "u", "./debian/orig-tar.sh", "true", "x=y"],
}
MARKS = "ABCDEFGHI"
WS_POOL = [" ", "\t", "  ", " \t", "\t ", "\t\t", "   ", " \t ", "    ", "\t  \t"]
NUM3_POOL = ["3", "2", "1", "03", "002", "3", "3"]
NUM4_POOL = ["4", "4", "4", "5", "04", "10", "99", "100", "7", "0004"]
NUM4_BIG = ["32768", "65536", "2147483647", "2147483648", "4294967295", "4294967296", "9223372036854775807", "9223372036854775808",
            "1000000000000000000", "000000000000000000000000000004", "99", "100"]
WORD_LENGTHS = [1, 2, 7, 8, 9, 15, 16, 17, 31, 32, 33, 63, 64, 65, 71, 72, 73, 79, 80, 81, 127, 128, 129, 255, 256, 257, 1023, 1024, 1025,
                4095, 4096, 4097, 8191, 8192, 8193, 65535, 65536, 65537]
WS_LENGTHS = [1, 2, 7, 8, 9, 16, 31, 33, 64, 72, 80, 81, 128, 257, 1024, 4097, 8192, 8193]
COUNTS = [0, 1, 2, 3, 9, 10, 11, 16, 17, 31, 32, 33, 99, 100, 101, 255, 256, 257, 1000]
COUNT_WEIGHTS = [3, 2, 3, 3, 2, 2, 2, 2, 2, 2, 2, 2, 1, 2, 1, 1, 1, 1, 1]
NLS = ("nl", "lastbare", "bare")
SOURCES = ("stringio", "list", "tuple", "iter", "gen")
_BAD_CHARS = set('",()')


def word_ok(i, s):
    """domain of an opaque word (module docstring)"""
    if not s or any(ch.isspace() for ch in s) or _BAD_CHARS & set(s) or s[0] == "#" or s[-1] == "\\":
        return False
    if "/" in s and i not in (1, 2, 3, 7, 9):       # only the url field is searched for '/': words 4..6, 8 build it
        return False
    try:
        int(s)
        return False
    except ValueError:
        return True


for _i, _ws in POOL.items():
    for _w in _ws:
        assert word_ok(_i, _w), (_i, _w)


class Conc:
    """symbol -> concrete text (one per replayed case / recorded trace)"""

    def __init__(self, words, sp1, sp2, num3, num4):
        self.w = {int(k): v for k, v in words.items()}
        self.sp = {SP1: sp1, SP2: sp2, SPD: " "}
        self.num = {3: num3, 4: num4}

    def sym(self, x):
        if x < 100:
            return self.w[x]
        if x in self.sp:
            return self.sp[x]
        if x > 200:
            return self.num[x - 200]
        return FIXED[x]

    def text(self, syms):
        return "".join([self.sym(x) for x in syms])

    def field(self, syms):
        return self.text(syms) if syms else None

    def ver(self, v):
        return int(self.num[v])

    def dump_line(self, syms):
        """a line written by dump(): the number in canonical form"""
        return "".join([str(int(self.num[x - 200])) if x > 200 else self.sym(x) for x in syms]) + "\n"

    def to_json(self):
        return {"w": {str(k): v for k, v in self.w.items()}, "sp1": self.sp[SP1], "sp2": self.sp[SP2], "num3": self.num[3], "num4": self.num[4]}

    @classmethod
    def from_json(cls, d):
        return cls(d["w"], d["sp1"], d["sp2"], d["num3"], d["num4"])

    def brief(self):
        def sh(s):
            return s if len(s) <= 40 else "%s..(%d chars)" % (s[:16], len(s))
        return "{%s; sp1=%r sp2=%r N=%s/%s}" % (", ".join("%d:%r" % (k, sh(v)) for k, v in sorted(self.w.items())),
                                               sh(self.sp[SP1]), sh(self.sp[SP2]), sh(self.num[3]), sh(self.num[4]))


CANON = Conc({1: "https://samba.org/~jelmer", 2: "pgpmode=mangle", 3: "foo=bar", 4: "blah-", 5: "\\d+", 6: ".tar.gz", 7: "case-",
              8: "debian", 9: "sh"}, " ", " ", "3", "4")


def _stretch(s, n, fill="x"):
    return s + fill * max(0, n - len(s))


def make_conc(rng, style):
    """style: real | marker (every word starts with its own capital letter: results can be read back into symbols) |
    stress / mstress (the same with boundary sizes)"""
    marker = style in ("marker", "mstress")
    words = {}
    for i in range(1, 10):
        w = rng.choice(POOL[i])
        if marker:
            w = MARKS[i - 1] + "".join(ch for ch in w if not ch.isupper())
        words[i] = w
    if words[2] == words[3]:
        words[3] = words[3] + "2"
    a, b = rng.sample(WS_POOL[1:], 2) if marker else (rng.choice(WS_POOL), rng.choice(WS_POOL))
    n3, n4 = rng.choice(NUM3_POOL), rng.choice(NUM4_POOL)
    if style in ("stress", "mstress"):
        ids = rng.sample(range(1, 10), rng.choice((1, 1, 2, 3)))
        for k, i in enumerate(ids):
            n = rng.choice(WORD_LENGTHS if k == 0 else WORD_LENGTHS[:29])
            words[i] = _stretch(words[i], n) if n > len(words[i]) else (words[i][:max(n, 2)] if word_ok(i, words[i][:max(n, 2)]) else words[i])
        if rng.random() < 0.6:
            a = "".join(rng.choice(" \t") for _ in range(rng.choice(WS_LENGTHS)))
        if rng.random() < 0.4:
            b = "".join(rng.choice(" \t") for _ in range(rng.choice(WS_LENGTHS)))
        if marker and (a == b or " " in (a, b)):
            a, b = a + "\t\t", b + " \t "
        n4 = rng.choice(NUM4_BIG)
        n3 = rng.choice(["0", "00", "3", "000000000003", "1"]) if not marker else rng.choice(["3", "003", "1"])
    return Conc(words, a, b, n3, n4)


def phys_lines(conc, lines, nl):
    """symbol lines -> the strings handed to from_lines"""
    out = [conc.text(l) + ("" if nl == "bare" else "\n") for l in lines]
    if nl == "lastbare" and out:
        out[-1] = out[-1][:-1]
    return out


def make_source(phys, kind):
    if kind == "stringio":
        return io.StringIO("".join(phys))
    if kind == "list":
        return list(phys)
    if kind == "tuple":
        return tuple(phys)
    if kind == "iter":
        return iter(list(phys))
    if kind == "gen":
        return (l for l in list(phys))
    raise AssertionError(kind)


def usable(kind, nl):
    return nl != "bare" or kind != "stringio"


# ------------------------------------------------------------------ driving the real code

def proj(wf):
    """a WatchFile object -> plain data (what the caller can see)"""
    return {"ver": wf.version, "o": list(wf.options),
            "es": [[e.url, e.matching_pattern, e.version, e.script, list(e.options)] for e in wf.entries]}


def run_parse(phys, strict, kind, want_obj=False):
    """-> observation dict r = ok / None / MissingVersion / FormatError / ValueError / EXC:<type>; exceptions of the code
    under test are observations"""
    from debian.watch import WatchFile, MissingVersion, WatchFileFormatError
    src = make_source(phys, kind)
    wf = None
    with warnings.catch_warnings(record=True) as wl:
        warnings.simplefilter("always")
        try:
            wf = WatchFile.from_lines(src, strict=True) if strict else (WatchFile.from_lines(src) if len(phys) % 2 else WatchFile.from_lines(src, strict=False))
            if wf is None:
                ob = {"r": "None"}
            else:
                ob = dict(proj(wf), r="ok")
                if not isinstance(wf, WatchFile):
                    ob["r"] = "EXC:not-a-WatchFile"
        except MissingVersion:
            ob = {"r": "MissingVersion"}
        except WatchFileFormatError:
            ob = {"r": "FormatError"}
        except ValueError:
            ob = {"r": "ValueError"}
        except Exception as e:          # noqa: BLE001 -- observation
            ob = {"r": "EXC:" + type(e).__name__}
    # only warnings of the library count: the warnings machinery is process-wide and other threads of the harness run
    # TLC meanwhile (a ResourceWarning of theirs must not be taken for the parser's complaint)
    ob["warn"] = any(issubclass(w.category, UserWarning) for w in wl)
    return (ob, wf) if want_obj else ob


def run_dump(wf):
    try:
        f = io.StringIO()
        wf.dump(f)
        return f.getvalue()
    except Exception as e:              # noqa: BLE001 -- observation
        return "EXC:" + type(e).__name__


def conc_expected(conc, exp):
    """TLC's expected result (symbols) -> the concrete observation it stands for"""
    if exp["r"] != "ok":
        return {"r": exp["r"], "warn": exp["warn"]}
    return {"r": "ok", "warn": exp["warn"], "ver": conc.ver(exp["ver"]), "o": [conc.text(o) for o in exp["o"]],
            "es": [[conc.text(e["url"]), conc.field(e["mp"]), conc.field(e["vr"]), conc.field(e["sc"]), [conc.text(o) for o in e["o"]]]
                   for e in exp["es"]]}


def _sh(s, n=60):
    if not isinstance(s, str):
        return repr(s)
    return repr(s) if len(s) <= n else "%r..(%d chars)..%r" % (s[:24], len(s), s[-10:])


def show_obs(ob):
    if ob.get("r") != "ok":
        return ob.get("r", "?") + (" +warning" if ob.get("warn") else "")
    es = ob["es"]
    body = ", ".join("Watch(%s)" % ", ".join(_sh(x) if not isinstance(x, list) else "[" + ", ".join(_sh(y) for y in x) + "]" for x in e) for e in es[:4])
    if len(es) > 4:
        body += ", ..(%d entries)" % len(es)
    opts = ob["o"]
    return "version=%r options=[%s]%s entries=[%s]%s" % (ob["ver"], ", ".join(_sh(o) for o in opts[:6]), "" if len(opts) <= 6 else "..(%d)" % len(opts),
                                                        body, " +warning" if ob.get("warn") else "")


def show_text(phys):
    t = "".join(phys) if not isinstance(phys, str) else phys
    return _sh(t, 300)


def same(ob, exp):
    return ob == exp and (ob.get("r") != "ok" or type(ob["ver"]) is int)


# ------------------------------------------------------------------ known findings (KNOWN above)

class Known:
    def __init__(self):
        self.hits = {}
        self.examples = {}

    def hit(self, fid, example):
        self.hits[fid] = self.hits.get(fid, 0) + 1
        self.examples.setdefault(fid, example)


def _is_blank_leak(exp, got, idxs):
    """finding 1: `got` is `exp` except that the url of the entries idxs (0-based) has blanks in front"""
    if got.get("r") != "ok" or exp.get("r") != "ok" or not idxs:
        return False
    if (got["ver"], got["o"], got["warn"], len(got["es"])) != (exp["ver"], exp["o"], exp["warn"], len(exp["es"])):
        return False
    for k, (g, e) in enumerate(zip(got["es"], exp["es"])):
        if g == e:
            continue
        if k not in idxs or g[1:] != e[1:] or not isinstance(g[0], str) or g[0] == g[0].lstrip(" \t") or g[0].lstrip(" \t") != e[0]:
            return False
    return True


def _dump_quotes(entry):
    """entries that dump() writes with quoted options and the url as only field"""
    return any(" " in o or "\t" in o for o in entry[4]) and entry[1] is None and entry[2] is None and entry[3] is None


_PAREN_TAIL = re.compile(r"/[^/]*\([^/]*\)[^/]*$")


def _is_nested_paren(exp, got):
    """finding 2: the entries that differ are exactly those whose url still ends in a component with a (..) group;
    they come back with that component as pattern and the pattern as version"""
    if got.get("r") != "ok" or got["ver"] != exp["ver"] or got["o"] != exp["o"] or len(got["es"]) != len(exp["es"]):
        return False
    seen = False
    for g, e in zip(got["es"], exp["es"]):
        if _PAREN_TAIL.search(e[0]) and e[1] is not None:
            cut = e[0].rindex("/")
            if g[0] != e[0][:cut] or g[1] != e[0][cut + 1:] or g[2] != e[1] or g[4] != e[4]:
                return False
            seen = True
        elif g != e:
            return False
    return seen


# ------------------------------------------------------------------ (a) replay of one TLC case

def mutate_result(wf):
    """the caller ruins an object he was given"""
    from debian.watch import Watch
    wf.options.append("<junk>")
    wf.options.reverse()
    for e in wf.entries:
        e.options.append("<junk-entry-option>")
        e.url = "<junk-url>"
        e.script = "<junk>"
    wf.entries.append(Watch("<junk-entry>", opts=wf.options))
    wf.version = -7


def check_case(v, conc, nl, kind, known, probes=True, keep=None, light=None):
    """one concretization of one CASE line -> None or a message.  keep: dict carrying the previous case's live object.
    light = True / False: only the strict / the non-strict call, no run without version line (sampled concretizations
    of the thorough tier)"""
    exp = conc_expected(conc, v["exp"])
    phys = phys_lines(conc, v["lines"], nl)
    what = "watch file %s" % show_text(phys)
    f1 = set(x - 1 for x in v["f1"])
    results = []
    for strict in ((False, True) if light is None else (light,)):
        ob, wf = run_parse(phys, strict, kind, want_obj=True)
        if not same(ob, exp):
            if _is_blank_leak(exp, ob, f1):
                known.hit("X02-quoted-opts-url-blank", "%s -> %s" % (what, show_obs(ob)))
                return None
            return "%s (%s source, strict=%s): from_lines gives %s, specification says %s" % (what, kind, strict, show_obs(ob), show_obs(exp))
        results.append(wf)
    wf = results[0]
    # dump is the normal form
    text = run_dump(wf)
    want = "".join(conc.dump_line(l) for l in v["dump"])
    if text != want:
        return "%s: dump() writes %s, specification says %s" % (what, show_text(text), show_text(want))
    # parse(dump) == wf, dump(parse(dump)) == dump
    ob2, wf2 = run_parse(text.splitlines(True), True, "stringio", want_obj=True)
    if v["qc"]:
        pass            # a list of options with a '"' and a blank: cannot be written (outside RoundTrip, see WatchFile.tla)
    elif not same(ob2, exp):
        if v["pp"] and _is_nested_paren(exp, ob2):
            known.hit("X02-nested-paren-roundtrip", "%s -> dump %s -> %s" % (what, show_text(text), show_obs(ob2)))
        elif _is_blank_leak(exp, ob2, set(k for k, e in enumerate(exp["es"]) if _dump_quotes(e))):
            known.hit("X02-quoted-opts-url-blank", "dump %s -> %s" % (show_text(text), show_obs(ob2)))
        else:
            return "%s: its dump %s is read back as %s, specification says %s" % (what, show_text(text), show_obs(ob2), show_obs(exp))
    else:
        text2 = run_dump(wf2)
        if text2 != text:
            return "%s: dumping the re-read dump gives %s instead of %s" % (what, show_text(text2), show_text(text))
    if light is not None:
        return None
    # without the version line
    nov = phys[:v["vpos"] - 1] + phys[v["vpos"]:]
    ob3 = run_parse(nov, False, kind)
    if ob3["r"] != v["nover"]:
        return "watch file without version line %s: %s, specification says %s" % (show_text(nov), show_obs(ob3), v["nover"])
    if probes:
        # no state between calls: ruin the first result, parse the same text again; the strict result was not touched
        try:
            mutate_result(wf)
        except Exception as e:          # noqa: BLE001 -- observation
            return "%s: the result cannot be modified through its public attributes: %s" % (what, type(e).__name__)
        ob4 = run_parse(phys, False, "list" if nl == "bare" else "stringio")
        if not same(ob4, exp):
            return "%s: parsed again after the caller modified the first result: %s, specification says %s" % (what, show_obs(ob4), show_obs(exp))
        ob5 = dict(proj(results[1]), r="ok", warn=False)
        if not same(ob5, exp):
            return "%s: the result of the strict call changed when the result of another call was modified: %s, specification says %s" % (
                what, show_obs(ob5), show_obs(exp))
        if keep is not None:
            if keep.get("wf") is not None:
                ob6 = dict(proj(keep["wf"]), r="ok", warn=False)
                if not same(ob6, keep["exp"]):
                    return "%s: an object returned earlier (for %s) changed while this file was handled: %s, specification says %s" % (
                        what, keep["what"], show_obs(ob6), show_obs(keep["exp"]))
            keep.update(wf=results[1], exp=exp, what=what)
    return None


def check_zone(v, conc, nl, kind):
    """unspecified zones: the model's prediction is compared, a difference is drift"""
    exp = conc_expected(conc, v["exp"])
    phys = phys_lines(conc, v["lines"], nl)
    ob = run_parse(phys, False, kind)
    if ob.get("r", "").startswith("EXC:"):
        return "zone %s %s: %s" % (v["zone"], show_text(phys), ob["r"])
    if not same(ob, exp) and not _is_blank_leak(exp, ob, set(range(len(exp.get("es", ()))))):      # (finding 1 occurs here too)
        return "zone %s %s: %s, model predicts %s" % (v["zone"], show_text(phys), show_obs(ob), show_obs(exp))
    return None


def check_bad(v, conc, nl, kind, known):
    phys = phys_lines(conc, v["lines"], nl)
    for strict, want in ((True, v["strict"]), (False, v["lax"])):
        ob = run_parse(phys, strict, kind)
        if want == "warn":
            ok = ob["warn"] and ob["r"] != "FormatError" and not ob["r"].startswith("EXC:")
        else:
            ok = ob["r"] == want and not ob["warn"]
        if not ok:
            if v["kind"].startswith("bareopts") and ob["r"] == "EXC:IndexError":
                known.hit("X02-bare-opts-indexerror", "%s -> IndexError" % show_text(phys))
                continue
            return "malformed watch file [%s] %s (strict=%s): %s, specification says %s" % (
                v["kind"], show_text(phys), strict, show_obs(ob), "a warning" if want == "warn" else want)
    return None


# ------------------------------------------------------------------ (a") size stress: logical lines as runs

def scale_case(v, runs):
    """every logical line of the case stands for runs[i] copies (with the comment / blank lines in front of it).
    PLogical handles each logical line on its own and only appends, so the expected result is the expansion."""
    lines, head = v["lines"], v["vpos"]
    out = list(lines[:head])
    pos = head
    o, es, f1, dump_es = [], [], [], []
    oi = ei = 0
    exp = v["exp"]
    for seg, r in zip(v["segs"], runs):
        chunk = lines[pos:pos + seg["n"]]
        pos += seg["n"]
        out += chunk * r
        if seg["g"]:
            o += exp["o"][oi:oi + seg["k"]] * r
            oi += seg["k"]
        else:
            if ei + 1 in v["f1"]:
                f1 += list(range(len(es) + 1, len(es) + r + 1))
            es += [exp["es"][ei]] * r
            ei += 1
            dump_es.append((ei, r))
    out += lines[pos:]
    nv = dict(v, lines=out, exp=dict(exp, o=o, es=es), f1=f1)
    # the dump: version line, options line, one line per entry
    d = v["dump"]
    has_o = 1 if exp["o"] else 0
    if all(r == 1 for seg, r in zip(v["segs"], runs) if seg["g"]):
        nd = d[:1 + has_o]
        for ei, r in dump_es:
            nd += [d[has_o + ei]] * r
        nv["dump"] = nd
    else:
        nv["dump"] = None
    nv["nover"] = "MissingVersion" if sum(runs) else "None"
    return nv


def check_scaled(v, conc, nl, kind, known):
    exp = conc_expected(conc, v["exp"])
    phys = phys_lines(conc, v["lines"], nl)
    what = "watch file of %d lines %s" % (len(phys), show_text(phys))
    ob, wf = run_parse(phys, False, kind, want_obj=True)
    f1 = set(x - 1 for x in v["f1"])
    if not same(ob, exp):
        if _is_blank_leak(exp, ob, f1):
            known.hit("X02-quoted-opts-url-blank", "%s -> %s" % (what, show_obs(ob)))
            return None
        return "%s (%s source): from_lines gives %s, specification says %s" % (what, kind, show_obs(ob), show_obs(exp))
    text = run_dump(wf)
    if v["dump"] is not None:
        want = "".join(conc.dump_line(l) for l in v["dump"])
        if text != want:
            return "%s: dump() writes %s, specification says %s" % (what, show_text(text), show_text(want))
    ob2, wf2 = run_parse(text.splitlines(True), True, "stringio", want_obj=True)
    if v["qc"]:
        pass
    elif not same(ob2, exp):
        if v["pp"] and _is_nested_paren(exp, ob2):
            known.hit("X02-nested-paren-roundtrip", "%s" % what)
        elif _is_blank_leak(exp, ob2, set(k for k, e in enumerate(exp["es"]) if _dump_quotes(e))):
            known.hit("X02-quoted-opts-url-blank", "dump %s" % show_text(text))
        else:
            return "%s: its dump %s is read back as %s, specification says %s" % (what, show_text(text), show_obs(ob2), show_obs(exp))
    elif run_dump(wf2) != text:
        return "%s: dumping the re-read dump changes the text" % what
    nov = phys[:v["vpos"] - 1] + phys[v["vpos"]:]
    ob3 = run_parse(nov, False, kind)
    if ob3["r"] != v["nover"]:
        return "watch file without version line %s: %s, specification says %s" % (show_text(nov), show_obs(ob3), v["nover"])
    return None


# ------------------------------------------------------------------ expand

X_NAMES = ["PACKAGE", "ANY_VERSION", "ARCHIVE_EXT", "SIGNATURE_EXT", "DEB_EXT"]
X_LOOKALIKES = ["@package@", "@Package@", "@VERSION@", "@ANY-VERSION@", "@ PACKAGE@", "@PACKAGE_@", "@ARCHIVEEXT@", "@DEB_EXT @", "@any_version@", "@PKG@"]
X_WORDS = ["foo-", "https://example.org/", ".tar.gz", "x", "-", "blah_", "é中", " ", "\n", "(\\d+)", "a b", "PACKAG", "E", "%", "$1"]
X_PACKAGES = ["foo", "python-debian", "libfoo++2.0", "a", "0ad", "x.y-z", "gcc-13", "PACKAGE", "any_version"]


class XConc:
    def __init__(self, word, lk, lc, pkg):
        self.word, self.lk, self.lc, self.pkg = word, lk, lc, pkg

    def sym_in(self, x):
        if x == XW:
            return self.word
        if x == XAT:
            return "@"
        if x == XLK:
            return self.lk
        if x == XLC:
            return self.lc
        return X_KEYS[x - XPH]

    def sym_out(self, x):
        if XVAL < x <= XVAL + 5:
            return self.pkg if x == XVAL + 5 else X_VALUES[x - XVAL]
        return self.sym_in(x)

    def to_json(self):
        return {"word": self.word, "lk": self.lk, "lc": self.lc, "pkg": self.pkg}


def make_xconc(rng, stress=False):
    word, pkg = rng.choice(X_WORDS), rng.choice(X_PACKAGES)
    if stress:
        if rng.random() < 0.5:
            word = _stretch(word, rng.choice(WORD_LENGTHS))
        if rng.random() < 0.7:
            pkg = _stretch(pkg, rng.choice(WORD_LENGTHS), "z")
    return XConc(word, rng.choice(X_NAMES), rng.choice(X_LOOKALIKES), pkg)


def run_expand(text, pkg):
    from debian.watch import expand
    try:
        return expand(text, pkg)
    except Exception as e:              # noqa: BLE001 -- observation
        return ("EXC", type(e).__name__)


def check_xcase(t, out, xc, reps):
    """the text repeated `reps` times (XExpand is symbol-wise: the expected result is the repetition)"""
    text = "".join(xc.sym_in(x) for x in t)
    want = "".join(xc.sym_out(x) for x in out)
    if reps != 1:
        text, want = (text + xc.word) * reps, (want + xc.word) * reps
    got = run_expand(text, xc.pkg)
    if got != want:
        return "expand(%s, %s) gives %s, specification says %s" % (_sh(text, 200), _sh(xc.pkg), _sh(got, 200) if isinstance(got, str) else got, _sh(want, 200))
    return None


# ------------------------------------------------------------------ reading results back into symbols (trace leg)

class Reader:
    """concrete text -> symbols, for concretizations of the `marker` style: every word starts with its own capital
    letter (and contains no other), the three blank runs are pairwise different.  Anything that is not exactly a known
    word / blank run becomes the impossible symbol 0 (the specification then rejects the observation)."""

    def __init__(self, conc):
        self.conc = conc
        self.by_mark = {w[0]: (i, w) for i, w in conc.w.items()}
        self.ws = {conc.sp[SP1]: SP1, conc.sp[SP2]: SP2, " ": SPD}
        assert len(self.by_mark) == len(conc.w) and len(self.ws) == 3
        self.ws_order = sorted(self.ws, key=len, reverse=True)
        self.single = {v: k for k, v in FIXED.items() if len(v) == 1}

    def _ws(self, run):
        if run in self.ws:
            return [self.ws[run]]
        out, i = [], 0
        while i < len(run):
            for w in self.ws_order:
                if run.startswith(w, i):
                    out.append(self.ws[w])
                    i += len(w)
                    break
            else:
                return [0]
        return out

    def syms(self, s):
        out, i, n = [], 0, len(s)
        while i < n:
            ch = s[i]
            if ch in " \t":
                j = i
                while j < n and s[j] in " \t":
                    j += 1
                out += self._ws(s[i:j])
                i = j
            elif ch in self.by_mark:
                k, w = self.by_mark[ch]
                if s.startswith(w, i):
                    out.append(k)
                    i += len(w)
                else:
                    out.append(0)
                    i += 1
            elif ch in self.single:
                out.append(self.single[ch])
                i += 1
            else:
                if not out or out[-1] != 0:
                    out.append(0)
                i += 1
        return out

    def field(self, x):
        if x is None:
            return []
        if not isinstance(x, str) or x == "":
            return [0]
        return self.syms(x)

    def ver(self, n):
        if type(n) is int:
            if n == self.conc.ver(3):
                return 3
            if n == self.conc.ver(4):
                return 4
        return 0

    def value(self, p):
        """proj() data -> [ver, o, es] in symbols"""
        return {"ver": self.ver(p["ver"]), "o": [self.field(o) for o in p["o"]],
                "es": [{"url": self.field(e[0]), "mp": self.field(e[1]), "vr": self.field(e[2]), "sc": self.field(e[3]),
                        "o": [self.field(o) for o in e[4]]} for e in p["es"]]}

    def obs(self, ob):
        if ob["r"] != "ok":
            return {"r": ob["r"], "ver": 0, "o": [], "es": [], "warn": ob["warn"]}
        return dict(self.value(ob), r="ok", warn=ob["warn"])

    def dump(self, text):
        if not isinstance(text, str):
            return [[0]]
        out = []
        for k, line in enumerate(text.split("\n")[:-1] if text.endswith("\n") else text.split("\n") + ["\0"]):
            m = re.match(r"^version=(-?\d+)$", line) if k == 0 else None
            if m:
                v = self.ver(int(m.group(1)))
                out.append([VERS, EQ, 200 + v if v else 0])
            elif line.startswith("opts="):
                out.append([OPTS] + self.syms(line[5:]))
            else:
                out.append(self.syms(line))
        return out


# ------------------------------------------------------------------ (b) random in-domain documents (input generation only)

GAP_LINES = {"C": [[HASH, 2]], "CV": [[HASH, VERS, EQ, NUM3]], "CO": [[HASH, OPTS, 2, SP1, 1]], "CB": [[HASH, 2, BS]],
             "B": [[]], "WB": [[SP1]], "WB2": [[SP2, SP1]], "CH": [[HASH]], "CS": [[HASH, SP1, 1, SP1, 7, BS]]}
URLS = [[1], [1, SL], [1, SL, 4], [1, SL, 4, LP, 5, RP], [1, SL, 4, LP, 5, RP, 6], [1, SL, LP, 4, RP, SL, 4, LP, 5, RP, 6],
        [1, SL, 4, LP, 5, RP, SL], [1, SL, RP, 4, LP], [1, SL, 6, SL, LP, 5, RP]]
MPS = [[7], [7, LP, 5, RP], [4, LP, 5, RP, 6], [6]]
SCS = [[9], [9, SP2, 9], [9, SP2, 9, SP2, 8]]


def gen_options(rng, quoted, nmax=3):
    n = rng.choice([1, 1, 2, 2, 3][:nmax + 2]) if nmax < 30 else nmax
    opts = []
    for k in range(n):
        base = [2] if k % 2 == 0 else [3]
        r = rng.random()
        if quoted and r < 0.3:
            o = base + [SP2, 3]
        elif quoted and r < 0.55:
            o = [SP2] + base
        elif not quoted and r < 0.15 and k > 0:
            o = base + [QT]
        else:
            o = base
        opts.append(o)
    if quoted and not any(SP2 in o for o in opts) and rng.random() < 0.7:
        opts[-1] = opts[-1] + [SP2, 2]
    return opts


def gen_item(rng, allow_global=True):
    """-> content symbols of one logical line (in the domain, and not one of the inputs of the known findings)"""
    r = rng.random()
    c, quoted = [], False
    if r < 0.55:
        quoted = rng.random() < 0.4
        opts = gen_options(rng, quoted)
        body = []
        for k, o in enumerate(opts):
            body += ([CM] if k else []) + o
        c = [OPTS] + ([QT] + body + [QT] if quoted else body)
        if allow_global and rng.random() < 0.3:
            return c
        c = c + [SP1]
    url = rng.choice(URLS)
    embedded = WfParenTail(url)
    fields = []
    nf = rng.choice([0, 1, 1, 2, 3, 3])
    if quoted and nf == 0:
        nf = 1                                      # finding 1: quoted options + url as only field
    names = ["vr", "sc"] if embedded else ["mp", "vr", "sc"]
    for nm in names[:nf]:
        fields.append(rng.choice(MPS) if nm == "mp" else [8] if nm == "vr" else rng.choice(SCS))
    c = c + url
    for f in fields:
        c += [SP1] + f
    return c


def WfParenTail(url):
    """input generation only: does the url carry the pattern?"""
    if SL not in url:
        return False
    j = len(url) - 1 - url[::-1].index(SL)
    tail = url[j + 1:]
    return LP in tail and RP in tail[tail.index(LP):]


def fold_item(rng, c, ver, maxcuts=3):
    """in-domain folds (header of WatchFile.tla): format >= 4 anywhere except directly before a blank, any indentation;
    format <= 3 anywhere without indentation, next to a field separator with"""
    ncuts = rng.choice([0, 0, 1, 1, 2, maxcuts])
    cuts = {}
    for _ in range(ncuts):
        p = rng.randint(1, len(c) - 1) if len(c) > 1 else 0
        if not p:
            break
        nxt_sp = c[p] in (SP1, SP2)
        if ver > 3:
            if nxt_sp:
                continue
            cuts[p] = rng.choice([[], [SP2], [SP1], [SP1, SP2]])
        else:
            near_sep = c[p - 1] == SP1 or c[p] == SP1
            cuts[p] = rng.choice([[], [SP2], [SP1]]) if near_sep else []
    out, last, ind = [], 0, []
    for p in sorted(cuts):
        out.append(ind + c[last:p] + [BS])
        last, ind = p, cuts[p]
    out.append(ind + c[last:])
    r = rng.random()
    if r < 0.15:
        out[0] = [SP1] + out[0]
    if r > 0.85:
        out[-1] = out[-1] + [rng.choice((SP1, SP2))]
    return out


def gen_doc(rng, nitems=None, malformed=True, big=False):
    """-> (ver, lines) a random document as symbol lines"""
    ver = rng.choice((3, 4))
    lines = []
    kinds = list(GAP_LINES)

    def gap(p):
        while rng.random() < p:
            lines.extend(copy.deepcopy(GAP_LINES[rng.choice(kinds)]))
    gap(0.3)
    num = 200 + ver
    lines.append(rng.choice([[VERS, EQ, num], [VERS, EQ, num], [VERS, SP1, EQ, SP2, num], [SP1, VERS, EQ, num, SP2], [VERS, EQ, SP1, num]]))
    if nitems is None:
        nitems = rng.choice([0, 1, 1, 2, 2, 3, 4, 6])
    for _ in range(nitems):
        gap(0.05 if big else 0.3)
        c = gen_item(rng)
        lines.extend([c] if big and rng.random() < 0.8 else fold_item(rng, c, ver))
    gap(0.25)
    kind = "ok"
    if malformed:
        r = rng.random()
        if r < 0.05:
            lines = [l for l in lines if not (VERS in l and l[0] != HASH)]
            kind = "noversion"
        elif r < 0.09 and lines[-1] and lines[-1][0] != HASH and any(x not in (SP1, SP2) for x in lines[-1]):
            lines[-1] = lines[-1] + [BS]
            kind = "dangling"
        elif r < 0.12:
            lines.append([OPTS, QT, 2, CM, SP2, 3, SP1, 1, SP1, 7])
            lines.extend(fold_item(rng, gen_item(rng), ver))
            kind = "unterminated"
        elif r < 0.14:
            lines = [[VERS, EQ, 2] if (VERS in l and l[0] != HASH) else l for l in lines]
            kind = "verjunk"
        elif r < 0.16:
            lines.insert(0, gen_item(rng, allow_global=False))
            kind = "entryfirst"
    return ver, lines, kind


def record_parse(rng, conc, reader, lines, strict, kind, nl, nobs=24):
    """feed the document prefix by prefix to the real from_lines"""
    phys = phys_lines(conc, lines, nl)
    n = len(phys)
    if n <= nobs:
        watch = set(range(1, n + 1))
    else:
        watch = set(rng.sample(range(1, n), nobs - 4)) | {1, 2, n - 1}
    obs = []
    for i in range(1, n + 1):
        if i in watch and i < n:
            pre = phys[:i]
            if nl == "lastbare":
                pre = pre[:-1] + [pre[-1].rstrip("\n")] if rng.random() < 0.5 else pre
            obs.append(reader.obs(run_parse(pre, strict, kind)))
        else:
            obs.append({"r": "skip"})
    final = reader.obs(run_parse(phys, strict, kind))
    return {"kind": "parse", "strict": strict, "lines": lines, "obs": obs, "final": final}


# ------------------------------------------------------------------ (b) API histories over several live objects

def gen_entry(rng, nopts=None):
    """an entry as symbols (input generation only)"""
    url = rng.choice(URLS[:3] + URLS[6:8])
    e = {"url": url, "mp": [], "vr": [], "sc": [], "o": []}
    n = rng.choice([0, 1, 2, 3])
    if n >= 1:
        e["mp"] = rng.choice(MPS)
    if n >= 2:
        e["vr"] = [8]
    if n >= 3:
        e["sc"] = rng.choice(SCS)
    k = rng.choice([0, 0, 1, 2]) if nopts is None else nopts
    e["o"] = [rng.choice([[2], [3], [2, SP2, 3], [SP2, 3]]) for _ in range(k)]
    return e


def build_watch(conc, e, style):
    from debian.watch import Watch
    url, mp, vr, sc = conc.text(e["url"]), conc.field(e["mp"]), conc.field(e["vr"]), conc.field(e["sc"])
    opts = [conc.text(o) for o in e["o"]]
    if style == 0 and not opts:
        if sc is not None:
            return Watch(url, mp, vr, sc)
        if vr is not None:
            return Watch(url, mp, vr)
        if mp is not None:
            return Watch(url, mp)
        return Watch(url)
    if style == 1:
        return Watch(url, matching_pattern=mp, version=vr, script=sc, opts=opts if opts else None)
    return Watch(url, mp, vr, sc, opts)


def api_step(conc, reader, live, ev):
    """execute one abstract call on the real objects; fills ev['out'] for observing calls.  Exceptions of the code under
    test are observations (recorded as an impossible output)."""
    from debian.watch import WatchFile
    op = ev["op"]
    try:
        if op == "new":
            v = ev["v"]
            if ev.get("default"):
                live.append(WatchFile())
            else:
                es = [build_watch(conc, e, (k + ev.get("style", 0)) % 3) for k, e in enumerate(v["es"])]
                opts = [conc.text(o) for o in v["o"]]
                if ev.get("style", 0) == 1 and not es and not opts:
                    live.append(WatchFile(version=conc.ver(v["ver"])))
                else:
                    live.append(WatchFile(entries=es, options=opts, version=conc.ver(v["ver"])))
        elif op == "parse":
            ob, wf = run_parse(phys_lines(conc, ev["lines"], ev.get("nl", "nl")), ev["strict"], ev.get("src", "stringio"), want_obj=True)
            ev["out"] = ob["r"]
            if ob["r"] == "ok":
                live.append(wf)
        elif op == "addopt":
            live[ev["t"] - 1].options.append(conc.text(ev["x"]))
        elif op == "addent":
            live[ev["t"] - 1].entries.append(build_watch(conc, ev["v"], ev.get("style", 0)))
        elif op == "entopt":
            live[ev["t"] - 1].entries[ev["i"] - 1].options.append(conc.text(ev["x"]))
        elif op == "setver":
            live[ev["t"] - 1].version = conc.ver(ev["i"])
        elif op == "delent":
            del live[ev["t"] - 1].entries[ev["i"] - 1]
        elif op == "setfield":
            setattr(live[ev["t"] - 1].entries[ev["i"] - 1], {"url": "url", "mp": "matching_pattern", "vr": "version", "sc": "script"}[ev["f"]],
                    conc.field(ev["x"]))
        elif op == "dump":
            ev["out"] = reader.dump(run_dump(live[ev["t"] - 1]))
        elif op == "iter":
            ev["out"] = reader.value({"ver": 0, "o": [], "es": [[e.url, e.matching_pattern, e.version, e.script, list(e.options)]
                                                              for e in iter(live[ev["t"] - 1])]})["es"]
    except Exception as e:              # noqa: BLE001 -- observation
        ev["out"] = "EXC:" + type(e).__name__
        ev["exc"] = True
    try:
        ev["snap"] = [reader.value(proj(w)) for w in live]
    except Exception as e:              # noqa: BLE001 -- observation
        ev["snap"] = ["EXC:" + type(e).__name__]
    return ev


def gen_api_recipe(rng, big=None):
    """a random call sequence (abstract); big = (entries, options) for one size-stressed object"""
    evs, nlive, sizes = [], 0, []
    nops = rng.randint(5, 12)

    def val(ne, no):
        return {"ver": rng.choice((3, 4)), "o": [rng.choice([[2], [3], [2, SP2, 3]]) for _ in range(no)],
                "es": [gen_entry(rng) for _ in range(ne)]}
    while len(evs) < nops:
        r = rng.random()
        if nlive == 0 or (r < 0.22 and nlive < 4):
            kind = rng.random()
            if big and not sizes:
                evs.append({"op": "new", "v": val(big[0], big[1]), "style": rng.randint(0, 2)})
            elif kind < 0.4:
                evs.append({"op": "new", "v": {"ver": 4, "o": [], "es": []}, "default": True})
            elif kind < 0.7:
                evs.append({"op": "new", "v": val(rng.choice([0, 1, 2, 3]), rng.choice([0, 0, 1, 2])), "style": rng.randint(0, 2)})
            else:
                ver, lines, _k = gen_doc(rng, malformed=rng.random() < 0.3)
                nl = rng.choice(NLS)
                src = rng.choice(SOURCES)
                evs.append({"op": "parse", "lines": lines, "strict": rng.random() < 0.4, "nl": nl, "src": src if usable(src, nl) else "list",
                            "_ok": _k in ("ok",)})
                if _k != "ok":
                    continue                      # raises (or warns): no new object expected -- decided by TLC, see fixup
            nlive += 1
            sizes.append(None)
            continue
        t = rng.randint(1, nlive)
        evs.append({"op": rng.choice(["addopt", "addent", "entopt", "setver", "delent", "setfield", "dump", "dump", "iter", "reparse"]), "t": t})
    return evs


def record_api(rng, conc, reader, recipe):
    """run the recipe; calls that need an entry index pick one from what is really there (the reference state is what
    TLC computes; here only inputs are chosen)"""
    live, events = [], []
    for ev in recipe:
        ev = dict(ev)
        ev.pop("_ok", None)
        op = ev["op"]
        if op == "reparse":
            # the dump of a live object is parsed as a new object (not for the inputs of finding 1: quoted options and
            # the url as only field)
            if ev["t"] > len(live):
                continue
            val = reader.value(proj(live[ev["t"] - 1]))
            if any(any(x in (SP1, SP2, SPD) for o in e["o"] for x in o) and not (e["mp"] or e["vr"] or e["sc"]) for e in val["es"]):
                continue
            lines = reader.dump(run_dump(live[ev["t"] - 1]))
            if any(0 in l for l in lines):
                continue
            ev = {"op": "parse", "lines": lines, "strict": True, "nl": "nl", "src": "stringio"}
            op = "parse"
        if op in ("addopt", "addent", "entopt", "setver", "delent", "setfield", "dump", "iter"):
            if ev["t"] > len(live):
                continue
            ne = len(live[ev["t"] - 1].entries)
            if op in ("entopt", "delent", "setfield"):
                if ne == 0:
                    ev = {"op": "addent", "t": ev["t"]}
                    op = "addent"
                else:
                    ev.setdefault("i", rng.randint(1, ne))
            if op in ("addopt", "entopt"):
                ev.setdefault("x", rng.choice([[2], [3], [2, SP2, 3], [SP2, 2]]))
            if op == "addent":
                ev.setdefault("v", gen_entry(rng))
                ev.setdefault("style", rng.randint(0, 2))
            if op == "setver":
                ev.setdefault("i", rng.choice((3, 4)))
            if op == "setfield":
                ev.setdefault("f", rng.choice(["url", "mp", "vr", "sc"]))
                ev.setdefault("x", rng.choice([[7], [8], [9, SP2, 9], [1, SL]] + ([[]] if ev["f"] != "url" else [])))
        events.append(api_step(conc, reader, live, ev))
    return {"kind": "api", "events": events}


def api_conc(rng, stress=False):
    c = make_conc(rng, "mstress" if stress else "marker")
    c.num[4] = rng.choice(["4", "4", "04"])       # WatchFile() has DEFAULT_VERSION 4
    c.num[3] = rng.choice(["3", "2", "03"])
    return c


# ------------------------------------------------------------------ (b) expand calls

def gen_xtext(rng, n):
    alpha = [XW, XAT, XLK, XLC] + [XPH + k for k in range(1, 6)] * 2
    while True:
        t = [rng.choice(alpha) for _ in range(n)]
        has_at = lambda x: x == XAT or x == XLC or XPH < x <= XPH + 5      # noqa: E731
        if all(not (t[i] == XLK and has_at(t[i - 1]) and has_at(t[i + 1])) for i in range(1, n - 1)):
            return t


def record_expand(xc, t):
    """aligned read-back: walk the input symbols and see what stands in the output in their place"""
    text = "".join(xc.sym_in(x) for x in t)
    got = run_expand(text, xc.pkg)
    out, pos = [], 0
    if not isinstance(got, str):
        return {"kind": "expand", "t": t, "out": [0]}, text, got
    for x in t:
        a = xc.sym_in(x)
        if got.startswith(a, pos):
            out.append(x)
            pos += len(a)
        elif XPH < x <= XPH + 5 and got.startswith(xc.sym_out(x + 10), pos):
            out.append(x + 10)
            pos += len(xc.sym_out(x + 10))
        else:
            out.append(0)
            break
    if pos != len(got) and (not out or out[-1] != 0):
        out.append(0)
    return {"kind": "expand", "t": t, "out": out}, text, got


# ------------------------------------------------------------------ corrupted control traces

def control_traces(traces):
    out = []

    def first(pred):
        for t in traces:
            if pred(t):
                return copy.deepcopy(t)
        return None
    t = first(lambda t: t["kind"] == "parse" and t["final"]["r"] == "ok" and not t["final"]["warn"] and t["final"]["es"])
    if t:                                           # a field of an entry differs
        t["final"]["es"][-1]["url"] = t["final"]["es"][-1]["url"] + [SL]
        out.append(t)
    t = first(lambda t: t["kind"] == "parse" and t["final"]["r"] == "ok" and not t["final"]["warn"] and len(t["final"]["es"]) >= 2)
    if t:                                           # an entry is missing
        del t["final"]["es"][0]
        out.append(t)
    t = first(lambda t: t["kind"] == "parse" and t["final"]["r"] == "ok" and not t["final"]["warn"] and t["final"]["o"])
    if t:                                           # global options in another order / one lost
        t["final"]["o"] = t["final"]["o"][1:]
        out.append(t)
    t = first(lambda t: t["kind"] == "parse" and t["final"]["r"] == "MissingVersion")
    if t:                                           # accepted without version line
        t["final"] = {"r": "None", "ver": 0, "o": [], "es": [], "warn": False}
        out.append(t)
    t = first(lambda t: t["kind"] == "parse" and any(o["r"] == "ok" and not o["warn"] for o in t["obs"]))
    if t:                                           # the version of a prefix observation differs
        k = [i for i, o in enumerate(t["obs"]) if o["r"] == "ok" and not o["warn"]][0]
        t["obs"][k]["ver"] = 7 - t["obs"][k]["ver"]
        out.append(t)
    t = first(lambda t: t["kind"] == "api" and len(t["events"][-1]["snap"]) >= 2)
    if t:                                           # an object that was not the target changed
        s = t["events"][-1]["snap"]
        tgt = t["events"][-1].get("t", len(s))
        other = 0 if tgt != 1 else 1
        s[other]["o"] = s[other]["o"] + [[2]]
        out.append(t)
    t = first(lambda t: t["kind"] == "api" and any(e["op"] == "dump" and isinstance(e.get("out"), list) and len(e["out"]) >= 2 for e in t["events"]))
    if t:                                           # a dump with another separator
        e = [e for e in t["events"] if e["op"] == "dump" and isinstance(e.get("out"), list) and len(e["out"]) >= 2][0]
        e["out"][-1] = [SP1 if x == SPD else x for x in e["out"][-1]] + [SPD]
        out.append(t)
    t = first(lambda t: t["kind"] == "expand" and any(XVAL < x for x in t["out"]))
    if t:                                           # a placeholder left in place
        t["out"] = [x - 10 if x > XVAL else x for x in t["out"]]
        out.append(t)
    t = first(lambda t: t["kind"] == "expand" and XLC in t["out"])
    if t:                                           # a look-alike replaced
        t["out"] = [XVAL + 5 if x == XLC else x for x in t["out"]]
        out.append(t)
    return out


# ------------------------------------------------------------------ TLC plumbing

class HashChoice:
    """choices derived from the content of a case (TLC's output order depends on thread timing)"""

    def __init__(self, h):
        self.h = h & 0x7FFFFFFF

    def _next(self):
        self.h = (self.h * 1103515245 + 12345) & 0x7FFFFFFF
        return self.h >> 8

    def choice(self, seq):
        return seq[self._next() % len(seq)]

    def random(self):
        return (self._next() % 10007) / 10007.0

    def weighted(self, seq, weights):
        x = self._next() % sum(weights)
        for s, w in zip(seq, weights):
            if x < w:
                return s
            x -= w
        return seq[-1]


def stream_printed(path):
    """(tag, value, hash) for the <<"TAG", "json">> lines of a raw TLC output file"""
    with open(path, errors="replace") as f:
        for line in f:
            if not (line.startswith('<<"C') or line.startswith('<<"X')):
                continue
            line = line.rstrip("\n")
            if not line.endswith('">>'):
                raise core.MachineryError("truncated TLC output line: %r" % line[:120])
            tag, _, rest = line[3:].partition('", "')
            yield tag, json.loads(rest[:-3].replace('\\"', '"')), zlib.crc32(rest.encode())


NEG_CONTROLS = [
    ("WatchFile", "WatchFile_neg.cfg", "StripIndentV3 = FALSE", "StripIndentV3 = TRUE", "ParseOK"),
    ("WatchFile", "WatchFile_neg.cfg", "LeakBlank = FALSE", "LeakBlank = TRUE", "ParseOK"),
    ("WatchFile", "WatchFile_neg.cfg", "NeverQuote = FALSE", "NeverQuote = TRUE", "RoundTrip"),
    ("WatchFile", "WatchFile_neg.cfg", "PPKnown = TRUE", "PPKnown = FALSE", "RoundTrip"),
    ("WatchFile", "WatchFile_neg.cfg", "CommentEndsCont = FALSE", "CommentEndsCont = TRUE", "InnerSkipped"),
    ("WatchFileObjs", "MC_WatchFileObjs_neg.cfg", "SharedDefault = FALSE", "SharedDefault = TRUE", "HeapAgrees"),
    ("WatchFileObjs", "MC_WatchFileObjs_neg.cfg", "SharedWatchDefault = FALSE", "SharedWatchDefault = TRUE", "HeapAgrees"),
    ("WatchFileObjs", "MC_WatchFileObjs_neg.cfg", "ParseCached = FALSE", "ParseCached = TRUE", "HeapAgrees"),
    ("WatchFileExpand", "WatchFileExpand_neg.cfg", "ExpandOnce = TRUE", "ExpandOnce = TRUE", "ImplIsExpand"),
]


def _neg_control(ctx, item):
    module, cfgname, old, new, inv = item
    with open(os.path.join(core.SPEC, cfgname)) as f:
        base = f.read()
    if old not in base:
        raise core.MachineryError("negative control: %r not in %s" % (old, cfgname))
    r = ctx.tlc(module, base.replace(old, new), workers=1, count=False)
    if r.violated != inv:
        raise core.MachineryError("negative control %s: expected TLC to report %s, got %r" % (new, inv, r.violated))
    return new.split(" = ")[0] + ("=FALSE" if new.endswith("FALSE") else ""), inv


def background_models(ctx, pool):
    """the spec-level negative controls and the two small design models run while the main enumeration is replayed"""
    futs = [pool.submit(_neg_control, ctx, it) for it in NEG_CONTROLS]
    futs.append(pool.submit(lambda: ("objs", ctx.tlc_must_hold("WatchFileObjs", "MC_WatchFileObjs.cfg", workers=1))))
    return futs


def cfg_constants(name):
    out = {}
    with open(os.path.join(core.SPEC, name)) as f:
        for line in f:
            m = re.match(r"^\s+(\w+) = (.+)$", line)
            if m:
                out[m.group(1)] = m.group(2).strip()
    return out


# ------------------------------------------------------------------ (a) replay of everything TLC printed

def replay_emission(ctx, raw_paths, known, quick, stats):
    rng = ctx.rng
    concs = {"real": [make_conc(rng, "real") for _ in range(16)] + [make_conc(rng, "marker") for _ in range(8)],
             "stress": [make_conc(rng, "stress") for _ in range(16)] + [make_conc(rng, "mstress") for _ in range(8)]}
    keep = stats.setdefault("_keep", {})
    drift_seen = stats.setdefault("drift_by_zone", {})
    samples = {}
    scale_mod = 13 if quick else 23
    for tag, v, h in (x for rp in raw_paths for x in stream_printed(rp)):
        if len(ctx.violations) >= 5:
            break
        hc = HashChoice(h ^ (ctx.seed * 2654435761))
        if tag == "CASE":
            stats["cases"] += 1
            stats["zone:" + v["zone"]] = stats.get("zone:" + v["zone"], 0) + 1
            # quick: the canonical form and one sampled concretization per case; thorough (30 x the cases): one of the two,
            # both for every 7th case
            plans = [(CANON, "nl", "stringio")] if quick or h % 3 == 0 or h % 7 == 0 else []
            nrep = 1 if quick or h % 3 != 0 or h % 7 == 0 else 0
            for rep in range(nrep):
                conc = hc.choice(concs["stress" if (h >> 3) % 2 == rep else "real"])
                nl = hc.choice(NLS) if hc.random() < 0.6 else "nl"
                kind = hc.choice(SOURCES)
                plans.append((conc, nl, kind if usable(kind, nl) else "list"))
            if v["zone"] != "dom":
                for conc, nl, kind in plans[:2]:
                    msg = check_zone(v, conc, nl, kind)
                    stats["real_calls"] += 1
                    if msg:
                        drift_seen[v["zone"]] = drift_seen.get(v["zone"], 0) + 1
                        if drift_seen[v["zone"]] <= 3:
                            ctx.drift(msg[:400])
                ctx.case_seen(("zone", h), True)
                continue
            for k, (conc, nl, kind) in enumerate(plans):
                canon = conc is CANON
                light = None if quick or canon else bool((h >> 5) % 2)
                msg = check_case(v, conc, nl, kind, known, probes=canon, keep=keep if canon else None, light=light)
                stats["real_calls"] += 8 if light is None else 4
                if msg:
                    ctx.violation({"kind": "case", "v": v, "conc": conc.to_json(), "nl": nl, "src": kind, "probes": canon, "light": light}, msg)
                    break
            if h % scale_mod == 0 and v["n"] >= 1 and not ctx.violations:
                hs = HashChoice((h + 31) ^ (ctx.seed * 69069))
                runs = [hs.weighted(COUNTS, COUNT_WEIGHTS) for _ in v["segs"]]
                conc = hs.choice(concs["stress"][:6] + concs["real"])          # long lines x many lines stays small
                if sum(runs) > 300:
                    conc = hs.choice(concs["real"])
                nl = hs.choice(NLS)
                kind = hs.choice(SOURCES)
                kind = kind if usable(kind, nl) else "tuple"
                msg = check_scaled(scale_case(v, runs), conc, nl, kind, known)
                stats["scaled"] += 1
                stats["scaled_max_lines"] = max(stats["scaled_max_lines"], sum(r * s["n"] for r, s in zip(runs, v["segs"])))
                for r in runs:
                    stats["runs"][str(r)] = stats["runs"].get(str(r), 0) + 1
                if msg:
                    ctx.violation({"kind": "scaled", "v": v, "runs": runs, "conc": conc.to_json(), "nl": nl, "src": kind},
                                  "[size stress: logical lines as runs %s] %s" % (runs, msg))
            ctx.case_seen(("case", h), v["n"] > 0)
            if v["n"] >= 2 and len(v["lines"]) >= 5 and h % 997 < 2:
                conc = plans[-1][0] if plans else CANON
                samples[("a", h)] = "CASE lines=%s -> %s; e.g. %s" % (json.dumps(v["lines"], separators=(",", ":")), json.dumps(v["exp"], separators=(",", ":"))[:300],
                                                                     show_text(phys_lines(conc, v["lines"], "nl")))
        elif tag == "CBAD":
            stats["bad"] += 1
            stats["bad:" + v["kind"]] = stats.get("bad:" + v["kind"], 0) + 1
            if not quick and h % 4:
                continue
            for rep in ((h >> 2) % 2,):
                conc = CANON if rep == 0 else hc.choice(concs["real"] + concs["stress"][:8])
                nl = hc.choice(NLS) if rep else "nl"
                kind = hc.choice(SOURCES)
                kind = kind if usable(kind, nl) else "list"
                if v["kind"] == "dangling" and nl == "bare":
                    nl = "nl"
                msg = check_bad(v, conc, nl, kind, known)
                stats["real_calls"] += 2
                if msg:
                    ctx.violation({"kind": "bad", "v": v, "conc": conc.to_json(), "nl": nl, "src": kind}, msg)
                    break
            ctx.case_seen(("bad", h), True)
            if h % 1499 == 0:
                samples[("b", h)] = "CBAD %s %s -> strict: %s, lax: %s" % (v["kind"], show_text(phys_lines(CANON, v["lines"], "nl")), v["strict"], v["lax"])
        elif tag == "XCASE":
            stats["xcases"] += 1
            for rep in range(2):
                xc = make_xconc(hc, stress=rep == 1)
                reps = 1 if rep == 0 else hc.weighted(COUNTS[1:], COUNT_WEIGHTS[1:])
                if reps * len(v["t"]) * max(len(xc.word), len(xc.pkg)) > 3000000:
                    reps = 3
                msg = check_xcase(v["t"], v["out"], xc, reps)
                stats["real_calls"] += 1
                if msg:
                    ctx.violation({"kind": "xcase", "t": v["t"], "out": v["out"], "xc": xc.to_json(), "reps": reps}, msg)
                    break
            ctx.case_seen(("x", h), any(x > XPH for x in v["t"]))
    for k in sorted(samples)[:2]:
        ctx.sample(samples[k])


# ------------------------------------------------------------------ (b) recorded executions

def record_executions(ctx, quick, stats):
    rng = ctx.rng
    traces, metas = [], []
    ndocs = 130 if quick else 1200
    for i in range(ndocs):
        conc = make_conc(rng, "mstress" if i % 4 == 0 else "marker")
        ver, lines, kind = gen_doc(rng)
        nl = rng.choice(NLS)
        src = rng.choice(SOURCES)
        src = src if usable(src, nl) else "list"
        strict = rng.random() < 0.4
        traces.append(record_parse(rng, conc, Reader(conc), lines, strict, src, nl))
        metas.append({"kind": "trace", "tkind": "parse", "lines": lines, "strict": strict, "src": src, "nl": nl, "conc": conc.to_json(), "doc": kind})
        stats["doc:" + kind] = stats.get("doc:" + kind, 0) + 1
    sizes = [9, 33, 100, 257] + ([1000] if ctx.seed % 2 == 0 else [600]) if quick else [9, 10, 11, 31, 33, 99, 100, 101, 255, 256, 257, 1000, 1001, 3000]
    for n in sizes:                                     # size stress: documents of many logical lines, line by line in TLC
        conc = make_conc(rng, "mstress" if n <= 100 else "marker")
        ver, lines, kind = gen_doc(rng, nitems=n, malformed=False, big=n > 100)
        src = rng.choice(("list", "stringio", "gen"))
        traces.append(record_parse(rng, conc, Reader(conc), lines, False, src, "nl", nobs=16))
        metas.append({"kind": "trace", "tkind": "parse", "lines": lines, "strict": False, "src": src, "nl": "nl", "conc": conc.to_json(), "doc": "big"})
        stats["longest_document_lines"] = max(stats.get("longest_document_lines", 0), len(lines))
    nparse = len(traces)
    napi = 60 if quick else 500
    bigs = {3: (257, 33), 7: (1000, 3), 9: (2, 257), 11: (100, 100), 13: (33, 1)}
    for i in range(napi):
        conc = api_conc(rng, i % 5 == 0)
        recipe = gen_api_recipe(rng, bigs.get(i))
        tr = record_api(rng, conc, Reader(conc), recipe)
        traces.append(tr)
        metas.append({"kind": "trace", "tkind": "api", "conc": conc.to_json(),
                      "recipe": [{k: x for k, x in e.items() if k not in ("out", "snap", "exc")} for e in tr["events"]]})
        for e in tr["events"]:
            stats["op:" + e["op"]] = stats.get("op:" + e["op"], 0) + 1
    nx = 150 if quick else 1500
    for i in range(nx):
        xc = make_xconc(rng, i % 4 == 0)
        t = gen_xtext(rng, rng.choice([0, 1, 2, 3, 5, 8, 12, 12, 30]))
        tr, text, got = record_expand(xc, t)
        traces.append(tr)
        metas.append({"kind": "trace", "tkind": "expand", "xc": xc.to_json(), "t": t})
    return traces, metas, nparse, napi, nx


def validate_executions(ctx, quick, stats, traces, metas, nparse, napi, nx):
    controls = control_traces(traces)
    if len(controls) < 6:
        raise core.MachineryError("only %d control traces could be built" % len(controls))
    acc, _, r = core.validate_traces(ctx, "TraceWatchFile", "TraceWatchFile.cfg", traces, extra_env={"TRACE_DIAG": "0"}, controls=controls,
                                     workers=4, java_opts=["-Xss64m"] + (["-XX:TieredStopAtLevel=1"] if quick else []))
    rejected = [i for i in range(1, len(traces) + 1) if i not in acc]
    ctx.traces += len(traces)
    ctx.evaluations += len(traces)
    for i in range(len(traces)):
        ctx.distinct.add(("trace", i))
    stats["traces"] = {"parse": nparse, "api": napi, "expand": nx, "rejected": len(rejected), "controls": len(controls),
                       "physical_lines": sum(len(t["lines"]) for t in traces[:nparse]), "api_calls": sum(len(t["events"]) for t in traces[nparse:nparse + napi])}
    ex = next((t for t in traces[:nparse] if t["final"]["r"] == "ok" and 2 <= len(t["final"]["es"]) <= 3 and len(t["lines"]) <= 9), None)
    if ex:
        ctx.sample("recorded parse: lines=%s -> %s" % (json.dumps(ex["lines"], separators=(",", ":")), json.dumps(ex["final"], separators=(",", ":"))[:400]))
    if rejected:
        sub = [traces[i - 1] for i in rejected[:8]]
        _, prog, _ = core.validate_traces(ctx, "TraceWatchFile", "TraceWatchFile.cfg", sub, extra_env={"TRACE_DIAG": "1"}, java_opts=["-Xss64m"])
        for j, i in enumerate(rejected[:5]):
            ctx.violation(dict(metas[i - 1], trace=_slim(traces[i - 1])), explain_trace(traces[i - 1], metas[i - 1], prog.get(j + 1, 0)))


def _slim(tr):
    """replay files stay small: the recipe is enough to re-record the trace"""
    if tr["kind"] == "api":
        return {"kind": "api", "n": len(tr["events"])}
    if tr["kind"] == "parse":
        return {"kind": "parse", "final": tr["final"] if len(json.dumps(tr["final"])) < 4000 else "(large)"}
    return tr


def explain_trace(tr, meta, at):
    if tr["kind"] == "expand":
        xc = XConc(**meta["xc"])
        text = "".join(xc.sym_in(x) for x in tr["t"])
        return "recorded expand(%s, %s) = %s is not what WatchFileExpand says (symbols %s -> %s)" % (
            _sh(text, 200), _sh(xc.pkg), _sh(run_expand(text, xc.pkg), 200), tr["t"], tr["out"])
    conc = Conc.from_json(meta["conc"])
    if tr["kind"] == "parse":
        phys = phys_lines(conc, tr["lines"][:at + 1] if at < len(tr["lines"]) else tr["lines"], meta["nl"])
        ob = tr["obs"][at] if at < len(tr["lines"]) else tr["final"]
        return "recorded execution not explained by WatchFile: from_lines(%s, strict=%s) (%s source; first %d of %d lines) gives %s (as symbols)" % (
            show_text(phys), tr["strict"], meta["src"], min(at + 1, len(tr["lines"])), len(tr["lines"]), json.dumps(ob, separators=(",", ":"))[:700])
    ev = tr["events"][min(at, len(tr["events"]) - 1)]
    return "recorded API history not explained by WatchFileOps: call %d %s left the live objects as %s (symbols; words %s)" % (
        at + 1, json.dumps({k: x for k, x in ev.items() if k != "snap"}, separators=(",", ":"))[:500],
        json.dumps(ev["snap"], separators=(",", ":"))[:700], conc.brief()[:300])


# ------------------------------------------------------------------ the check

def run(ctx):
    quick = ctx.tier == "quick"
    known = Known()
    stats = {"cases": 0, "bad": 0, "xcases": 0, "scaled": 0, "scaled_max_lines": 0, "real_calls": 0, "runs": {}}
    cfgs = ["WatchFile_quick_layout.cfg", "WatchFile_quick_seq.cfg"] if quick else \
           ["WatchFile_layout.cfg", "WatchFile_cut2.cfg", "WatchFile_quick_seq.cfg", "WatchFile_pairs.cfg", "WatchFile_seq3.cfg", "WatchFile_gaps.cfg"]
    ctx.extra["model_constants"] = {c: {k: x for k, x in cfg_constants(c).items() if k in ("MaxItems", "ItemMode", "LayoutMode", "GapMode", "VFormMode")}
                                    for c in cfgs}
    ctx.assumptions += [
        "small scope for the exhaustive part: <= 3 logical lines per document; one or two folds per logical line; items from Prefixes x UrlShapes x Tails",
        "words are opaque: no white space, none of \" , ( ), '/' only in the url head / options / separate pattern / script; blanks are ' ' and TAB; no CR; str input only",
        "unspecified, executed and compared with the model as drift only: format-dependent folds (zone glue), comment / blank lines inside a continuation (zone inner), "
        "the result of a non-strict call on a file ending in a continuation",
        "three findings on the current tree are reported as KNOWN-FINDING lines (KNOWN in harness/props/x02.py); the trace generators avoid their inputs",
        "trusted: TLC, the concretizer and the reader that maps results back to symbols (a wrong reading is rejected by TLC, never accepted), the uscan(1) table of substitutions",
    ]
    pool = ThreadPoolExecutor(max_workers=2)        # negative controls and the heap model, one TLC worker each
    main = ThreadPoolExecutor(max_workers=2 if quick else 1)    # the enumerations (quick: two at a time, 3 TLC workers each)
    try:
        futs = background_models(ctx, pool)
        emis = [main.submit(ctx.tlc_must_hold, "WatchFileExpand", "WatchFileExpand.cfg", workers=1, keep_raw=True, want_tags=set())]
        emis += [main.submit(ctx.tlc_must_hold, "WatchFile", c, workers=3 if quick else 6, keep_raw=True, want_tags=set()) for c in cfgs]
        # meanwhile: record executions of the real code (validated by TLC at the end)
        recorded = record_executions(ctx, quick, stats)
        for f in emis:
            r = f.result()
            replay_emission(ctx, [r.raw_path], known, quick, stats)
            shutil.rmtree(os.path.dirname(r.raw_path), ignore_errors=True)
        done = {}
        for f in futs:
            k, x = f.result()
            if k != "objs":
                done[k] = x
        ctx.extra["spec_negative_controls"] = done
    finally:
        main.shutdown(wait=True)
        pool.shutdown(wait=True)
    if not ctx.violations and (stats["cases"] == 0 or stats["bad"] == 0 or stats["xcases"] == 0):
        raise core.MachineryError("TLC emitted no CASE / CBAD / XCASE lines: %r" % stats)
    ctx.traces += stats["cases"] + stats["bad"] + stats["xcases"]
    if len(ctx.violations) < 5:
        validate_executions(ctx, quick, stats, *recorded)
    stats.pop("_keep", None)
    ctx.extra["replay"] = stats
    ctx.extra["known_findings"] = {k: {"occurrences": n, "example": known.examples[k][:400]} for k, n in sorted(known.hits.items())}
    for f in KNOWN:
        if known.hits.get(f["id"]):
            print("KNOWN-FINDING: extra=X02 %s: %s (%d occurrences; e.g. %s)" % (f["id"], f["signature"], known.hits[f["id"]], known.examples[f["id"]][:300]))


def replay(ctx, case):
    kind = case["kind"]
    known = Known()
    if kind in ("case", "scaled", "bad"):
        conc = Conc.from_json(case["conc"])
        if kind == "case":
            return check_case(case["v"], conc, case["nl"], case["src"], known, probes=case.get("probes", True), keep={}, light=case.get("light"))
        if kind == "scaled":
            return check_scaled(scale_case(case["v"], case["runs"]), conc, case["nl"], case["src"], known)
        return check_bad(case["v"], conc, case["nl"], case["src"], known)
    if kind == "xcase":
        return check_xcase(case["t"], case["out"], XConc(**case["xc"]), case["reps"])
    if kind == "trace":
        import random
        rng = random.Random(0)
        if case["tkind"] == "expand":
            tr, _, _ = record_expand(XConc(**case["xc"]), case["t"])
        else:
            conc = Conc.from_json(case["conc"])
            if case["tkind"] == "parse":
                tr = record_parse(rng, conc, Reader(conc), case["lines"], case["strict"], case["src"], case["nl"], nobs=200)
            else:
                # the history is run twice and the second run is validated: what earlier histories of the same process
                # left behind (a shared default list ...) is part of what made the recorded one fail
                for _round in range(2):
                    live, events = [], []
                    for ev in case["recipe"]:
                        events.append(api_step(conc, Reader(conc), live, dict(ev)))
                    if _round == 0:
                        for w in live:
                            try:
                                mutate_result(w)
                            except Exception:       # noqa: BLE001
                                pass
                tr = {"kind": "api", "events": events}
        acc, prog, _ = core.validate_traces(ctx, "TraceWatchFile", "TraceWatchFile.cfg", [tr], extra_env={"TRACE_DIAG": "1"}, java_opts=["-Xss64m"])
        if 1 not in acc:
            return "execution still not explained by the specification: " + explain_trace(tr, case, prog.get(1, 0))
        return None
    return "unknown case kind"
