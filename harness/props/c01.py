"""C01 -- the format-preserving deb822 parser is lossless: parse then dump reproduces the input.

spec:      spec/ReproTokenizer.tla -- line-class automaton of tokenize_deb822_file (one action per
           branch of its loop) + the element builders of parse_deb822_file as an automaton over
           the token groups; history variables carry input segments, tokens and the part tree.
           TLC: MC_ReproTokenizer_lts (closed: totality/determinism, control invariants, emits
           the LTS), MC_ReproTokenizer_bnd* (every document of <= N lines over class x
           termination x mode: Lossless, TokenShape, TokenLocal, PartsLossless, ParaShape; one
           CASE line per document carrying the expected output).
           Spec-level negative controls, re-run in every check: MergeUnterminatedWs = TRUE (the
           tokenizer before fix a57dfe0) must violate TokenShape; DropFloatingComment = TRUE
           must violate PartsLossless.
binding:   (a) spec -> code: every CASE x k concretizations is fed to the real parser.  The
           concretizer only turns the segments TLC lists for the document into text; the expected
           output is the text of the CASE's `out` sequence (segment order as produced by the
           model's tokens, which TLC has shown equal to the input order).
           (b) code -> spec: random documents (walks through the emitted LTS, concretized; raw
           random text; mixtures; <= 40 lines) are parsed by the real code and the recorded
           (lines as code points, outputs as code points, exception, token kinds, part list) is
           validated by spec/TraceReproTokenizer.tla, which itself derives termination, input
           mode and domain membership from the code points and decides the verdict
           (outputs = Expected); the class of each line comes from the independent classifier
           below and is used for the diagnostic replay of the automaton only.
           (c) process-wide state (spec/ReproTokenizerShared.tla: documents, objects, a memo keyed
           by line text; UnmodifiedLossless, Isolation, InputUntouched; negative control
           SharedTokens = TRUE): the previous document is kept alive and re-dumped / its input
           re-tokenized after the next parse; for every 3rd case (thorough: every case of <= 3 lines, every
           3rd 4-line and 4th 5-line case) the same lines
           are parsed as iterator, generator and twice as the same list object (the list must come
           back untouched), the first result is edited through the public API (set / delete / sort /
           append / insert), a different document sharing its lines (the CASE without the last line)
           and a second parse of the same lines must still dump exactly, and further edits of other
           documents must not change the first one's dump.  In the trace leg every document is
           re-dumped after the next document was parsed and a sibling parse was edited; that output
           is one more element of `outs`, judged by TLC.
           Aborted parses are history steps too (ParseFails; negative control LeftoverRunBuffer =
           TRUE): before every 5th (thorough: 4th) CASE parse and every 4th recorded document a parse of 1..8 (now
           and then 9..257) comment / field / error / continuation lines is aborted -- the input
           generator raises, a bytes line does not decode, or an unterminated non-final line follows
           -- and the valid parse after it must still be exact.
           (d) size dimension (notes/SIZE_STRESS.md): the abstract cases are unchanged; every 4th
           (thorough: 4th, 8th of the 5-line cases) CASE gets one more concretization whose segment lengths hit boundary
           values (names up to 300, whitespace runs up to 4097, values / comments / garbage lines up
           to 8193 and occasionally 64 KiB) -- the expected text is still the CASE's `out` sequence,
           which does not depend on lengths.  The trace leg records size-stressed documents (long
           lines; runs of 10..1000 blank / comment / error lines; paragraphs of 10..1000 fields;
           values of 10..1000 continuation lines; documents of 100 / 1000 / 10000 lines) in the
           abstract trace form (per line: length, checksums, termination, classes; outputs as
           length+checksum blobs cut at newlines), so TLC still decides the verdict without
           scanning the text.
           (e) API surface and character stress (notes/API_SURFACE.md, SIZE_STRESS.md part 2), see
           the table below; payload pools contain non-NFC text next to its precomposed twins,
           case-mapping hazards, U+FEFF at the start of first and later lines, zero-width / bidi
           characters, non-BMP, lone surrogates (str paths only), NEL/LS/PS and the other
           str.splitlines boundaries inside lines, and line-final / line-initial characters
           rotating through every UTF-8 trailing byte (U+0400..U+043F).

public entry point / variant                         exercised by (same expected text, verdict unless noted)
---------------------------------------------------  --------------------------------------------------------------
parse_deb822_file(list of str), both accept_* True    replay (every CASE concretization), trace (every document)
  ... tuple / deque / iterable object (only __iter__) replay: variant_check rotation; trace: variant_extra rotation
  ... iterator / generator / same list object twice   replay: shared_scenario (caller's list must stay untouched)
  ... text file object (io.StringIO), real text file  replay + trace rotation; only sequences a text file can carry
      opened with newline="\n"                         (every line but the last newline-terminated): mode N is out of
                                                      domain for this form (a file has no "lines without newlines")
  ... binary file object (io.BytesIO), real "rb" file  replay + trace rotation; UTF-8-encodable text only
  ... list of bytes lines (UTF-8)                     replay: every variant_check (plus a drift-only sample in run_case);
                                                      trace rotation
  ... mixed str / bytes lines in one list             replay + trace rotation
  ... bytes that are not UTF-8, input iterable raises history step ParseFails only (outside the domain: must not leak
      mixed termination, inner newline, '' last line    into later parses; their own outcome is not judged)
  accept_files_with_error_tokens=False /              diagnostic (spec_drift): the statement speaks about the accepting
  accept_files_with_duplicated_fields=False             mode; tried on documents the model shows free of error parts /
                                                      duplicate names (every 10th variant_check); flags are keyword-only
                                                      (a positional flag is a TypeError by signature)
tokenize_deb822_file(list / every form above)         replay: run_case (list), variant_check (rotating form), shared
                                                      scenario (same list again); trace: every document (list)
Deb822FileElement.dump()                              replay, trace (verdict observable of the statement)
  .dump(fd) with a binary file object                 replay: variant_check (every check, encodable text); trace rotation
  .convert_to_text()                                  replay: variant_check; trace rotation
  .iter_tokens() -> token.text / .convert_to_text()   replay: variant_check; trace rotation; diagnostics: token kinds
  .iter_recurse(only_element_or_token_type=Deb822Token) replay: variant_check; trace rotation
  .iter_parts() -> paragraph.dump() / paragraph.dump(fd) replay: variant_check; trace rotation; diagnostics: part list
      / element.convert_to_text()
  results read back LATER, after other parses / edits  replay: prev_check, shared_scenario, variant_check (`alive`: created
      / aborted parses, through another output form      through one form, read through another); trace: `later` re-dump
  iter(file) (paragraphs), paragraph mapping API       only as the means of CallerMutates in shared_scenario (C05/C10/C11
                                                      own the mapping/edit semantics)
  copy.copy / copy.deepcopy of the result             diagnostic (spec_drift), every 10th variant_check
  pickle of the result                                out of domain: not supported by the classes (weakref parent
                                                      pointers: TypeError "cannot pickle weakref" on the unchanged tree;
                                                      reported to the lead, not a C01 observable)
  str() / repr() of elements                          out of domain: object default, no documented text form
  print_ast, Deb822ParsedTokenList / interpret_as     out of domain: debugging aid / list views are C11
verdict observables:   parse_deb822_file(lines, accept_files_with_error_tokens=True,
           accept_files_with_duplicated_fields=True) returns; dump() == expected;
           "".join(t.text for t in tokenize_deb822_file(lines)) == expected.
           The same for every unmodified document at any later time and for any iterable form of the
           same line sequence; the caller's list is unchanged; an operation on one document does not
           change the dump of another (frame condition, compared before/after).
diagnostic (spec_drift only): token kind sequence, top-level part list, bytes input form,
           agreement of the classifier with the generator, token objects shared between live documents.
"""
import json
import random
import threading

import core
from lts import LTS, skey

MANIFEST = dict(
    technique="TLA+ spec (ReproTokenizer: line-class automaton of the tokenizer + element-builder automaton, segment identities) model-checked by TLC; every bounded document replayed into parse_deb822_file/tokenize_deb822_file with several concretizations; recorded parses of random documents validated by TLC (TraceReproTokenizer)",
    text="TLC checks totality and determinism of the tokenizer automaton on the closed control-state space (documents of any length) and, for every document of up to 3 lines over 11 line classes and 4 lines over 6 classes (quick; thorough: 5 lines over 11 classes, 6 lines over 6 classes) x termination x the two input modes, that every input segment lands in exactly one token in order (Lossless), that tokens obey the constructor rule (TokenShape) and that the element builders only group tokens (PartsLossless). Each of these documents is concretized several times (odd Unicode whitespace, duplicate and case-variant field names, values with ':' '#' '-', non-ASCII, garbage lines) and fed to the real parser: dump() and the joined token texts must equal the expected text carried by the TLC case. The property is also checked process-wide (ReproTokenizerShared: unmodified documents stay lossless whatever was parsed or edited before, the caller's list is untouched): earlier results are kept alive and re-dumped, inputs are parsed repeatedly and in iterator form, and results are edited through the public API between parses. Payload sizes are stressed in both legs (segment lengths at boundary values up to 64 KiB in the replay leg; long-line documents, runs of up to 1000 blank/comment/error lines, 1000-field paragraphs, 1000-line values and 10000-line documents in the trace leg, validated by TLC on a length-abstracted trace form). Every public input form (tuple, iterator, generator, text/binary file objects, bytes and mixed lines) and output form (dump(), dump(fd), convert_to_text(), iter_tokens, iter_recurse, iter_parts with paragraph dump) is exercised on a rotating sample with the same expected text, payload text is character-stressed (non-NFC twins, BOM, zero-width, surrogates, every UTF-8 trailing byte at line ends), and aborted parses are history steps. In the other direction random documents of up to 40 lines (walks through the emitted LTS, raw random text, mixtures) are parsed by the real code and TLC validates the recorded outputs against the identity, deciding itself from the code points whether the document is in the domain.",
    note="Small-scope: bounded configurations stop at 4/6 lines (the longest ones over a reduced class alphabet; thorough replays documents of <= 4 lines over 11 classes and 5 lines over 8 classes); payload characters are sampled, not enumerated. Field-name equality (duplicate fields) is a payload dimension sampled by the concretizer, not modelled. Token kinds and part lists are diagnostic (spec_drift), only parse success and the two identities give a verdict. Lines may contain any code point except newline (incl. other str.splitlines boundaries); an empty unterminated last line and mixed termination are outside the domain (executed, any outcome accepted). Trusted: TLC, the concretizer, the projection (dump(), token texts); the independent line classifier only feeds diagnostics. Corrupted control traces must be rejected in every run.",
    design="5 (C01)")

SEG = ["nl", "ws", "cmt", "lead", "body", "junk", "name", "colon", "pre", "value", "post", "sp"]
KIND = ["ws", "nl", "comment", "cont", "value", "error", "name", "sep"]
PART = ["ws", "comment", "para", "error", "value"]
SEGCODE = {s: i for i, s in enumerate(SEG)}

# ------------------------------------------------------------------ text material

WS_PLAIN = [" ", "\t"]
# Unicode whitespace other than space/tab/newline (what the tokenizer's \s also takes); the first
# five are the ones named in DESIGN.md
WS_EXOTIC = ["\r", "\f", "\v", "\xa0", "\u2003", "\x1c", "\x1d", "\x1e", "\x1f", "\x85",
             "\u2028", "\u2029", "\u3000", "\u1680", "\u202f", "\u205f", "\u2000", "\u200a"]
ASCII_WORD = list("abcxyzABZ0189")
ASCII_PUNCT = list(":#-,.=()${}|<>/\\\"'~+_@!?*[]%^&;`")
NON_ASCII = ["\xe9", "\xdf", "\u4e2d", "\u03a9", "\u0301", "\U0001f600", "\ufeff", "\u200b", "\ud7ff",
             "\uffff", "\U0010ffff", "\u0660", "\xad"]
# character stress (notes/SIZE_STRESS.md part 2): text that is not NFC/NFKC-stable next to its
# precomposed twin, case-mapping hazards, zero-width / bidi / BOM, non-BMP; comparisons are by code
# point.  Entries may be short sequences (base letter + combining mark, Hangul jamo).
STRESS = ["e\u0301", "\xe9", "a\u030a", "\xe5", "A\u030a", "\xc5", "\u212b", "\u2126", "\u03a9", "\uf9d0", "\ufb01",
          "\uff21", "\u1100\u1161", "\uac00", "\u1e9b\u0323",
          "\xdf", "\u0130", "\u0131", "\u017f", "\u03c3", "\u03c2", "\U00010400", "\U00010428", "\u01c5",
          "\ufeff", "\u200b", "\u200c", "\u200d", "\u2060", "\xad", "\u200e", "\u200f", "\u202e", "\u2066",
          "\U0001f600", "\U0001f1e9\U0001f1ea", "\U000e0001", "\U0010ffff", "\u0301", "\u20dd"]
# lone surrogates: str lines carry them through parse/dump() (the byte-oriented variants skip them)
SURROGATES = ["\ud800", "\udbff", "\udc00", "\udfff"]
# line-final / line-initial characters: U+0400..U+043F encode as D0 80..D0 BF (every UTF-8 trailing
# byte), plus characters whose encodings start with the lead bytes of 2/3/4-byte sequences and end
# in trailing bytes such as 0x85 / 0xA0
TAILS = [chr(c) for c in range(0x400, 0x440)] + ["\xc5", "\u0105", "\u2105", "\u8005", "\U00010005", "\U00010385",
                                                  "\u07ff", "\u0800", "\uffff", "\U00010000", "\xa9", "\u20a0"]
_tail_rot = [0]


def tail_char():
    """rotates through TAILS so that every UTF-8 trailing byte ends (or starts) a line regularly"""
    _tail_rot[0] += 1
    return TAILS[_tail_rot[0] % len(TAILS)]


CONTROL = ["\x00", "\x01", "\x08", "\x1b", "\x7f", "\x80", "\x9f"]
NAME_FIRST = [chr(c) for c in range(0x21, 0x7f) if chr(c) not in ":#-."]
NAME_REST = [chr(c) for c in range(0x21, 0x7f) if chr(c) != ":"]
NAME_WORDS = ["Package", "Source", "Version", "Depends", "X-Foo", "Build-Depends", "Description", "a", "B",
              "Vcs-Git", "Files", "0", "~x", "!bang", "a.b", "A_b", "x#y", "p-", "K\x7f"]


def _isws(ch):
    return ch.isspace()


def ws_text(rng, style):
    if style == "canonical":
        return " "
    n = rng.choice([1, 1, 1, 2, 2, 3])
    if style == "ascii":
        return "".join(rng.choice(WS_PLAIN) for _ in range(n))
    return "".join(rng.choice(WS_PLAIN) if rng.random() < 0.5 else rng.choice(WS_EXOTIC) for _ in range(n))


def payload_char(rng, style):
    r = rng.random()
    if style == "ascii":
        return rng.choice(ASCII_WORD) if r < 0.6 else rng.choice(ASCII_PUNCT) if r < 0.85 else rng.choice(WS_PLAIN)
    if r < 0.32:
        return rng.choice(ASCII_WORD)
    if r < 0.50:
        return rng.choice(ASCII_PUNCT)
    if r < 0.61:
        return rng.choice(WS_PLAIN)
    if r < 0.71:
        return rng.choice(WS_EXOTIC)
    if r < 0.80:
        return rng.choice(NON_ASCII)
    if r < 0.93:
        return rng.choice(STRESS)
    if r < 0.94:
        return rng.choice(SURROGATES)
    return rng.choice(CONTROL)


def solid_char(rng, style):
    """a character that is not whitespace (in the widest sense)"""
    while True:
        c = payload_char(rng, style)
        if not _isws(c):
            return c


def core_text(rng, style, maxlen=8):
    """starts and ends with a non-whitespace character, anything but newline in between"""
    n = rng.choice([1, 1, 2, 3, 5, maxlen])
    wild = style != "ascii"
    if n == 1:
        return tail_char() if wild and rng.random() < 0.3 else solid_char(rng, style)
    first = rng.choice([":", "#", "-", ",", "."]) if rng.random() < 0.25 else solid_char(rng, style)
    last = tail_char() if wild and rng.random() < 0.4 else solid_char(rng, style)
    return first + "".join(payload_char(rng, style) for _ in range(n - 2)) + last


def junk_text(rng, style):
    """a line that is neither blank, comment, indented nor a field line"""
    if style == "canonical":
        return "junk"
    form = rng.randrange(11)
    tail = "".join(payload_char(rng, style) for _ in range(rng.choice([0, 1, 3, 6])))
    if style != "ascii" and tail and rng.random() < 0.4 and not _isws(tail[-1]):
        tail = tail[:-1] + tail_char()
    if style != "ascii" and form == 9:       # a byte order mark in front of what would be a field / comment
        return "\ufeff" + rng.choice(["Source: foo", "# c", "A:", ": x", "", "\ufeff"]) + tail
    if style != "ascii" and form == 10:      # line-initial character with a rotating UTF-8 encoding
        return tail_char() + rng.choice(["", ": x", "A: b"]) + tail
    if form >= 9:
        form = 4
    if form == 0:      # no colon at all
        return "".join(c for c in core_text(rng, "ascii") if c not in ":# \t-") + "x" + tail.replace(":", "")
    if form == 1:      # leading hyphen
        return "-" + rng.choice(["", "foo", "foo: bar", ": x"]) + tail
    if form == 2:      # empty field name
        return ":" + tail
    if form == 3:      # whitespace inside the name
        return "Foo" + rng.choice(WS_PLAIN) + "bar: baz" + tail
    if form == 4:      # bare word
        return rng.choice(["Package", "x", "--", "-", "-----BEGIN PGP SIGNED MESSAGE-----", "="])
    if style == "ascii":
        return rng.choice(["a b", "[section]", "key = value", "-x:y"]) + tail.replace(":", "")
    if form == 5:      # non-ASCII first character
        return rng.choice(NON_ASCII) + rng.choice(["", "foo: bar", ": x", "A:b"]) + tail
    if form == 6:      # starts with whitespace that is neither space nor tab, then content
        return rng.choice(WS_EXOTIC) + rng.choice(["foo", "A: b", "#c", "x y"]) + tail
    if form == 7:      # control character first
        return rng.choice(CONTROL[:4] + CONTROL[5:]) + rng.choice(["", "A: b", ":"]) + tail
    return "Na\xefve: field" + tail   # non-ASCII inside the name


def comment_text(rng, style):
    if style == "canonical":
        return "#c"
    t = "#" + "".join(payload_char(rng, style) for _ in range(rng.choice([0, 1, 3, 7])))
    return t + tail_char() if style != "ascii" and rng.random() < 0.3 else t


def body_text(rng, style):
    """content of an indented line after its first character: has a non-whitespace character"""
    if style == "canonical":
        return "c"
    pre = ws_text(rng, style) if rng.random() < 0.3 else ""
    post = ws_text(rng, style) if rng.random() < 0.3 else ""
    mid = rng.choice([".", "#x", "A: b", ":", "-"]) if rng.random() < 0.3 else core_text(rng, style)
    return pre + mid + post


class Names:
    """field names of one document: either all distinct or drawn from a small pool with case
    variants (duplicate fields, also across case)"""

    def __init__(self, rng, style):
        self.rng = rng
        self.style = style
        self.n = 0
        if style == "canonical":
            self.pool = None
        else:
            if style == "big":
                self.style = "ascii"
            k = rng.choice([1, 2, 2, 3, 6])
            self.pool = [self.fresh() for _ in range(k)]
            self.dups = rng.random() < 0.6

    def fresh(self):
        rng = self.rng
        if rng.random() < 0.5:
            return rng.choice(NAME_WORDS)
        if self.style == "ascii":
            return rng.choice("ABCXYZabc") + "".join(rng.choice("abcxyz-019") for _ in range(rng.choice([0, 1, 4])))
        return rng.choice(NAME_FIRST) + "".join(rng.choice(NAME_REST) for _ in range(rng.choice([0, 0, 1, 2, 5])))

    def next(self):
        self.n += 1
        if self.pool is None:
            return "ABCDEFGHIJKLMNOPQRSTUVWXYZ"[(self.n - 1) % 26] + ("" if self.n <= 26 else str(self.n))
        if not self.dups:
            return self.fresh() if self.rng.random() < 0.7 else self.rng.choice(self.pool)
        w = self.rng.choice(self.pool)
        return self.rng.choice([w, w, w.lower(), w.upper(), w.swapcase()])


# ---- size dimension (notes/SIZE_STRESS.md): the abstract case is unchanged, payload lengths and
# repeat counts hit boundary neighbourhoods
EDGES = [1, 2, 7, 8, 9, 15, 16, 17, 31, 32, 33, 63, 64, 65, 71, 72, 73, 79, 80, 81, 127, 128, 129, 255, 256, 257,
         1023, 1024, 1025, 4095, 4096, 4097, 8191, 8192, 8193]
HUGE = [65535, 65536, 65537]
COUNTS = [9, 10, 11, 16, 17, 31, 32, 33, 99, 100, 101, 255, 256, 257]


def big_len(rng, cap, huge=False):
    """heavy-tailed length that regularly hits a boundary value <= cap"""
    r = rng.random()
    if r < 0.35:
        return rng.randint(1, 9)
    if huge and r > 0.97:
        return rng.choice(HUGE)
    return rng.choice([e for e in EDGES if e <= cap])


def stretch(rng, n, first=None, last=None):
    """n characters without newline; first/last (if given) are kept as they are"""
    fill = rng.choice(["x", "ab ", "\xe9", "0123456789", ": # - ,", "\u4e2d\t"])
    body = (fill * (n // len(fill) + 1))[:max(n - len(first or "") - len(last or ""), 0)]
    return (first or "") + body + (last or "")


def big_seg_text(rng, seg, names):
    if seg == "nl":
        return "\n"
    if seg == "colon":
        return ":"
    if seg in ("ws", "pre", "post", "sp"):
        n = big_len(rng, 4097)
        c = rng.choice([" ", " ", "\t", " \t", "\xa0 "])
        return (c * n)[:n]
    if seg == "lead":
        return rng.choice(WS_PLAIN)
    if seg == "name":
        n = big_len(rng, 300)
        if n > 257:
            n = rng.choice([299, 300])
        base = names.next()
        return base if len(base) >= n else base + stretch(rng, n - len(base)).replace(" ", "-").replace(":", "_") \
            .replace("\t", "+").replace("\xe9", "e").replace("\u4e2d", "z").replace("#", "h").replace(",", ".")
    n = big_len(rng, 8193, huge=True)
    if seg == "cmt":
        return stretch(rng, n, first="#")
    if seg == "junk":
        return stretch(rng, n, first=rng.choice(["-", "\xe9", "junk "]), last="!")
    if seg == "body":
        return stretch(rng, n, first=rng.choice(["", " ", "."]), last="$") if n > 1 else "$"
    if seg == "value":
        return stretch(rng, n, first=rng.choice(["v", ":", "#", "-"]), last="$") if n > 1 else "v"
    raise core.MachineryError("unknown segment kind %r" % (seg,))


def seg_text(rng, seg, style, names):
    if style == "big":
        return big_seg_text(rng, seg, names)
    if seg == "nl":
        return "\n"
    if seg in ("ws", "pre", "post", "sp"):
        return ws_text(rng, style)
    if seg == "colon":
        return ":"
    if seg == "lead":
        return " " if style == "canonical" else rng.choice(WS_PLAIN)
    if seg == "cmt":
        return comment_text(rng, style)
    if seg == "body":
        return body_text(rng, style)
    if seg == "junk":
        return junk_text(rng, style)
    if seg == "name":
        return names.next()
    if seg == "value":
        return "v" if style == "canonical" else core_text(rng, style, 12)
    raise core.MachineryError("unknown segment kind %r" % (seg,))


# ------------------------------------------------------------------ independent line classifier
# Written from the deb822 syntax (Policy 5.1 / deb822(5)): a line is empty, blank, a comment (#),
# a continuation-shaped line (starts with space or tab), a field line "name:[ws][value][ws]" or
# something else.  Two readings are left open by the syntax and both are reported (the trace
# module accepts either; classes only feed diagnostics):
#   * "whitespace" = space and tab only, or any Unicode whitespace;
#   * field names = Policy (U+0021..U+007E without ':', not starting with '#' or '-'), or the
#     implementation's reading known from the documentation of its regex (also U+007F; '.' not
#     as first character).

def _name_policy(n):
    return all(0x21 <= ord(c) <= 0x7e and c != ":" for c in n) and n[0] not in "#-"


def _name_impl(n):
    return all(0x21 <= ord(c) <= 0x7f and c != ":" for c in n) and n[0] not in "#-."


def _classify(body, isws, name_ok):
    if body == "":
        return "E"
    if all(isws(c) for c in body):
        return "W"
    if body[0] == "#":
        return "H"
    if body[0] in " \t":
        return "C"
    i = body.find(":")
    if i > 0 and name_ok(body[:i]):
        rest = body[i + 1:]
        a = 0
        while a < len(rest) and isws(rest[a]):
            a += 1
        if a == len(rest):
            return "F0s" if rest else "F0"
        b = len(rest)
        while isws(rest[b - 1]):
            b -= 1
        return "F1" + ("b" if a else "") + ("a" if b < len(rest) else "")
    return "X"


def classify(line):
    """candidate classes of a line (without regard to its termination)"""
    body = line[:-1] if line.endswith("\n") else line
    if "\n" in body:
        return ["X"]            # not a line: the trace module puts the document outside the domain
    out = []
    for isws in (lambda c: c in " \t", _isws):
        for name_ok in (_name_policy, _name_impl):
            c = _classify(body, isws, name_ok)
            if c not in out:
                out.append(c)
    return out


# ------------------------------------------------------------------ driving the real code

KMAP = {"Deb822WhitespaceToken": 0, "Deb822NewlineAfterValueToken": 1, "Deb822CommentToken": 2,
        "Deb822ValueContinuationToken": 3, "Deb822ValueToken": 4, "Deb822ErrorToken": 5,
        "Deb822FieldNameToken": 6, "Deb822FieldSeparatorToken": 7}


def _ntok(x):
    return sum(1 for _ in x.iter_tokens())


def project_parts(f):
    from debian._deb822_repro import parsing as P
    from debian._deb822_repro.tokens import Deb822WhitespaceToken
    out = []
    for part in f.iter_parts():
        if isinstance(part, P.Deb822ParagraphElement):
            out.append([2, _ntok(part), [_ntok(kv) for kv in part.iter_parts()]])
        elif isinstance(part, P.Deb822CommentElement):
            out.append([1, _ntok(part), []])
        elif isinstance(part, P.Deb822ErrorElement):
            out.append([3, _ntok(part), []])
        elif isinstance(part, P.Deb822ValueElement):
            out.append([4, _ntok(part), []])
        elif isinstance(part, Deb822WhitespaceToken):
            out.append([0, 1, []])
        else:
            out.append([90, _ntok(part) if hasattr(part, "iter_tokens") else 1, []])
    return out


def observe(lines, diag=True, keep=False):
    """run the code under test on one document; every exception it raises is an observation.
    keep=True: the parsed file object stays in obs["file"] (shared-state checks re-dump it later)"""
    from debian._deb822_repro import parse_deb822_file
    from debian._deb822_repro.tokens import tokenize_deb822_file
    obs = {"exc": "none", "dump": None, "tokjoin": None, "kinds": None, "parts": None}
    f = None
    try:
        f = parse_deb822_file(list(lines), accept_files_with_error_tokens=True,
                              accept_files_with_duplicated_fields=True)
        obs["dump"] = f.dump()
    except Exception as e:
        obs["exc"] = "parse/dump: %s: %s" % (type(e).__name__, e)
    try:
        toks = list(tokenize_deb822_file(list(lines)))
        obs["tokjoin"] = "".join(t.text for t in toks)
        if diag:
            obs["kinds"] = [KMAP.get(type(t).__name__, 99) for t in toks]
    except Exception as e:
        if obs["exc"] == "none":
            obs["exc"] = "tokenize: %s: %s" % (type(e).__name__, e)
    if diag and f is not None:
        try:
            obs["parts"] = project_parts(f)
        except Exception as e:       # diagnostics only
            obs["parts"] = [[91, 0, []]]
            obs["parts_error"] = "%s: %s" % (type(e).__name__, e)
    if keep:
        obs["file"] = f
    return obs


def observe_bytes(lines):
    """secondary input form (diagnostic): the same lines as UTF-8 bytes"""
    from debian._deb822_repro import parse_deb822_file
    try:
        return parse_deb822_file([l.encode("utf-8") for l in lines], accept_files_with_error_tokens=True,
                                 accept_files_with_duplicated_fields=True).dump()
    except Exception as e:
        return "EXC %s: %s" % (type(e).__name__, e)


def verdict(obs, expected):
    """the three verdict observables against the expected text (which comes from TLC)"""
    if obs["exc"] != "none":
        return "the parser raised %s" % obs["exc"]
    if obs["dump"] != expected:
        return "dump() = %r" % (obs["dump"],)
    if obs["tokjoin"] != expected:
        return "token texts join to %r" % (obs["tokjoin"],)
    return None


# ------------------------------------------------------------------ process-wide state
# C01 quantifies over every line sequence regardless of what was parsed before and of what the
# caller did with earlier results (spec/ReproTokenizerShared.tla: UnmodifiedLossless, Isolation,
# InputUntouched).  The scenarios below drive the real parser through the behaviours named in that
# module; expected texts are those of the TLC CASEs, the isolation check is a frame condition
# (dump before == dump after an operation on ANOTHER document).

def _parse(x):
    from debian._deb822_repro import parse_deb822_file
    return parse_deb822_file(x, accept_files_with_error_tokens=True, accept_files_with_duplicated_fields=True)


def _tokjoin(x):
    from debian._deb822_repro.tokens import tokenize_deb822_file
    return "".join(t.text for t in tokenize_deb822_file(x))


def mutate(rng, f, stats=None):
    """CallerMutates: edit a parsed document through its public API (two operations).  What the
    edits do to the document itself is the business of C05/C10; exceptions are only counted."""
    from debian._deb822_repro.parsing import Deb822ParagraphElement
    done = []
    for _ in range(2):
        try:
            paras = list(f)
            ops = ["append", "insert0"] + (["set-new", "set-first", "del-first", "sort", "set-multi"] * 2 if paras else [])
            op = rng.choice(ops)
            if op in ("append", "insert0"):
                p = Deb822ParagraphElement.new_empty_paragraph()
                p["X-Verif-Added"] = "added"
                if op == "append":
                    f.append(p)
                else:
                    f.insert(0, p)
            else:
                p = rng.choice(paras)
                keys = list(p.keys())
                if op == "set-new":
                    p["X-Verif-New"] = "new value"
                elif op == "set-first":
                    p[keys[0]] = "changed"
                elif op == "set-multi":
                    p[keys[-1]] = "changed\n more\n lines"
                elif op == "del-first":
                    del p[keys[0]]
                else:
                    p.sort_fields()
            done.append(op)
        except Exception as e:
            done.append("%s!%s" % (op, type(e).__name__))
            if stats is not None:
                stats["mutations_raised"] = stats.get("mutations_raised", 0) + 1
    if stats is not None:
        stats["mutations"] = stats.get("mutations", 0) + 1
    return done


def _dump_or_exc(f):
    try:
        return f.dump()
    except Exception as e:
        return "<dump raised %s: %s>" % (type(e).__name__, e)


def shared_scenario(lines, expected, other, mseed, stats=None):
    """other = (lines, expected) of a different in-domain document that shares lines with this one,
    or None.  Returns None or a message (verdict observables of C01 only)."""
    rng = random.Random(mseed)
    L = list(lines)
    snap = list(L)
    where = "input %s, expected %s" % (short(snap, 800), short(expected, 500))
    try:
        # (4) the same line sequence as iterator / generator / the same list object twice; the
        # caller's list must come back untouched (InputUntouched)
        forms = [("an iterator", lambda: iter(L)), ("a generator", lambda: (x for x in L)),
                 ("the list", lambda: L), ("the same list object again", lambda: L)]
        fA1 = None
        for label, make in forms:
            fA1 = _parse(make())
            d = fA1.dump()
            if L != snap:
                return "parsing %s altered the caller's list: now %r; %s" % (label, L, where)
            if d != expected:
                return "parsing %s: dump() = %r; %s" % (label, d, where)
        tj = _tokjoin(L)
        if L != snap:
            return "tokenizing altered the caller's list: now %r; %s" % (L, where)
        if tj != expected:
            return "tokenizing the same list again: token texts join to %r; %s" % (tj, where)
        # (3) a different document sharing lines with this one
        fB = None
        if other is not None:
            fB = _parse(list(other[0]))
            if fB.dump() != other[1]:
                return "document %r parsed after %r: dump() = %r" % (other[0], snap, fB.dump())
        # (2) CallerMutates(A1); the other documents and a second parse of the same lines are unaffected
        ops1 = mutate(rng, fA1, stats)
        if fB is not None:
            d = _dump_or_exc(fB)
            if d != other[1]:
                return ("after editing (%s) a document parsed from %r, the UNMODIFIED document parsed from %r "
                        "dumps %r" % (",".join(ops1), snap, other[0], d))
        fA2 = _parse(list(lines))
        d = fA2.dump()
        if d != expected:
            return ("second parse of the same lines after the first result was edited (%s): dump() = %r; %s"
                    % (",".join(ops1), d, where))
        tj = _tokjoin(list(lines))
        if tj != expected:
            return "tokenizing again after an earlier result was edited: token texts join to %r; %s" % (tj, where)
        # Isolation: operations on another document do not change this (edited) document's dump
        dA1 = _dump_or_exc(fA1)
        ops2 = mutate(rng, fB if fB is not None else _parse(list(lines)), stats)
        d = _dump_or_exc(fA1)
        if d != dA1:
            return ("editing (%s) ANOTHER document changed the dump of the first document from %r to %r; %s"
                    % (",".join(ops2), dA1, d, where))
        d = _dump_or_exc(fA2)
        if d != expected:
            return ("after editing (%s) other documents the UNMODIFIED second parse dumps %r; %s"
                    % (",".join(ops1 + ops2), d, where))
    except Exception as e:
        return "the parser raised %s: %s in the shared-state scenario; %s" % (type(e).__name__, e, where)
    return None


class _InputBoom(Exception):
    """raised by the harness' own input generator (ParseFails: the input iterable raises)"""


FAIL_HOWS = ("generator", "bytes", "unterminated")


def failing_parse(lines, how):
    """ParseFails: a parse that reads the given (terminated) lines and is then aborted --
    the input generator raises, a bytes line does not decode, or the next line is an
    unterminated non-final line (outside the domain: the tokenizer refuses it).  What the
    failing call does is not judged; returns the exception type name (or "returned")."""
    if how == "generator":
        def gen():
            for l in lines:
                yield l
            raise _InputBoom("input iterable failed")
        arg = gen()
    elif how == "bytes":
        arg = [l.encode("utf-8", "surrogatepass") for l in lines] + [b"# \xff\xfe undecodable\n", b"X: y\n"]
    else:
        arg = list(lines) + ["Unterminated: line", "After: it\n"]
    try:
        _parse(arg)
        return "returned"
    except Exception as e:
        return type(e).__name__


def poison_lines(rng, gen, want, style="ascii"):
    """k terminated lines that leave a run pending when the parse is aborted after them: comment
    lines, field lines, error lines, continuation lines, or a mixture (classes and segments come
    from the specification's LTS); k up to 8, sometimes a boundary count"""
    r = rng.random()
    k = rng.choice([1, 2, 2, 3, 4, 5, 6, 7, 8, 8]) if r < 0.96 else rng.choice(COUNTS[:8] if r < 0.995 else COUNTS)
    F = ["F1", "F1b", "F1a", "F1ba", "F0", "F0s"]
    kind = want if (want and rng.random() < 0.7) else rng.choice(["comment", "field", "error", "value", "mixed"])
    if kind == "comment":
        cl = ["H"] * k
    elif kind == "field":
        cl = [rng.choice(F) for _ in range(k)]
    elif kind == "error":
        cl = rng.choice([[], ["E"]]) + [rng.choice(["X", "X", "C"]) for _ in range(k)]
    elif kind == "value":
        cl = ["F1b"] + ["C"] * k
    else:
        cl = [rng.choice(gen.classes) for _ in range(k)]
    if rng.random() < 0.3:
        cl = rng.choice([["F1b"], ["X"], ["H", "F1"], ["E"]]) + cl
    return gen.from_classes(cl, "T", style), kind


def wanted_poison(classes):
    """the kind of pending run that the next (valid) document would pick up"""
    kinds = []
    if "H" in classes:
        kinds.append("comment")
    if any(c.startswith("F") for c in classes):
        kinds.append("field")
    if "X" in classes or "C" in classes:
        kinds.append("error")
    if "C" in classes and any(c.startswith("F") for c in classes):
        kinds.append("value")
    return kinds


def prev_check(prev, cur_lines):
    """(1) the previous document (kept alive, unmodified) after another document was parsed"""
    pf, plines, pexp = prev
    d = _dump_or_exc(pf)
    if d != pexp:
        return "after parsing %r the earlier, unmodified document parsed from %r dumps %r" % (cur_lines, plines, d)
    try:
        tj = _tokjoin(list(plines))
    except Exception as e:
        tj = "<raised %s: %s>" % (type(e).__name__, e)
    if tj != pexp:
        return "after parsing %r, tokenizing the earlier input %r again gives %r" % (cur_lines, plines, tj)
    return None


# ------------------------------------------------------------------ API surface (notes/API_SURFACE.md)
# Every public way of feeding the same line sequence and of reading the result back gets the same
# verdict: the expected text of the abstract case.

class _LinesObject:
    """an iterable that is neither list nor iterator (only __iter__)"""

    def __init__(self, lines):
        self._lines = lines

    def __iter__(self):
        return iter(list(self._lines))


INPUT_FORMS = ["tuple", "text file object", "binary file object", "bytes lines", "mixed str/bytes lines",
               "iterable object", "deque", "real text file", "real binary file"]


def input_form(form, lines, workdir):
    """a fresh input object of the given form for the same line sequence, or None when the form
    cannot carry this sequence (file objects: only newline-terminated-except-last sequences; byte
    forms: only text that UTF-8 can encode)"""
    import collections
    import io
    import os
    if form == "tuple":
        return tuple(lines)
    if form == "iterable object":
        return _LinesObject(lines)
    if form == "deque":
        return collections.deque(lines)
    try:
        enc = [l.encode("utf-8") for l in lines]
    except UnicodeEncodeError:
        enc = None
    if form == "bytes lines":
        return enc
    if form == "mixed str/bytes lines":
        return None if enc is None else [e if i % 2 else l for i, (l, e) in enumerate(zip(lines, enc))]
    text = "".join(lines)
    if list(io.StringIO(text)) != list(lines):       # the reference text file splits it differently
        return None
    if form == "text file object":
        return io.StringIO(text)
    if enc is None:
        return None
    if form == "binary file object":
        return io.BytesIO(text.encode("utf-8"))
    path = os.path.join(workdir, "c01-input")
    with open(path, "wb") as fh:
        fh.write(text.encode("utf-8"))
    if form == "real text file":
        return open(path, "r", encoding="utf-8", newline="\n")
    return open(path, "rb")


def output_forms(f, encodable):
    """(label, text) for every public way of turning a parsed file back into text"""
    import io
    from debian._deb822_repro.parsing import Deb822ParagraphElement
    from debian._deb822_repro.tokens import Deb822Token
    out = [("dump()", f.dump()),
           ("convert_to_text()", f.convert_to_text()),
           ("iter_tokens() texts", "".join(t.text for t in f.iter_tokens())),
           ("iter_tokens() convert_to_text()", "".join(t.convert_to_text() for t in f.iter_tokens())),
           ("iter_recurse(Deb822Token) texts",
            "".join(t.text for t in f.iter_recurse(only_element_or_token_type=Deb822Token))),
           ("iter_parts(): paragraph.dump() / convert_to_text()",
            "".join(x.dump() if isinstance(x, Deb822ParagraphElement) else x.convert_to_text() for x in f.iter_parts()))]
    if encodable:
        b = io.BytesIO()
        f.dump(b)
        out.append(("dump(fd)", b.getvalue().decode("utf-8")))
        b = io.BytesIO()
        for x in f.iter_parts():
            if isinstance(x, Deb822ParagraphElement):
                x.dump(b)
            else:
                b.write(x.convert_to_text().encode("utf-8"))
        out.append(("iter_parts(): paragraph.dump(fd)", b.getvalue().decode("utf-8")))
    return out


def variant_check(lines, expected, vi, workdir, alive, stats=None):
    """the same line sequence through a rotating input form (plus always the bytes-lines form) and
    every output form; an earlier result created through another form is re-read through a rotating
    output form.  Returns None or a message."""
    where = "input %s, expected %s" % (short(list(lines), 800), short(expected, 500))
    try:
        encodable = True
        try:
            expected.encode("utf-8")
        except UnicodeEncodeError:
            encodable = False
        forms = [INPUT_FORMS[vi % 7] if vi % 40 < 38 else INPUT_FORMS[7 + vi % 2], "bytes lines"]
        for form in forms:
            for target in ("parse", "tokenize"):
                inp = input_form(form, lines, workdir)
                if inp is None:
                    continue
                try:
                    if target == "tokenize":
                        tj = _tokjoin(inp)
                        if tj != expected:
                            return "tokenize_deb822_file(%s): token texts join to %s; %s" % (form, short(tj), where)
                        continue
                    f = _parse(inp)
                finally:
                    if hasattr(inp, "close"):
                        inp.close()
                if stats is not None:
                    stats["input_form: " + form] = stats.get("input_form: " + form, 0) + 1
                for label, text in output_forms(f, encodable):
                    if text != expected:
                        return "parse_deb822_file(%s) read back through %s gives %s; %s" % (form, label, short(text), where)
                alive.append((f, expected, form, encodable))
        # a result created earlier through another input form, read back now through one output form
        if len(alive) > 3:
            of, oexp, oform, oenc = alive.pop(0)
            outs = output_forms(of, oenc)
            label, text = outs[vi % len(outs)]
            if text != oexp:
                return ("an earlier, unmodified result of parse_deb822_file(%s), read back later through %s, gives %s, "
                        "expected %s" % (oform, label, short(text), short(oexp)))
            del alive[:-3]
    except Exception as e:
        return "%s: %s raised through a secondary entry point (form rotation %d); %s" % (type(e).__name__, e, vi, where)
    return None


def strict_and_copy_diagnostics(ctx, case, conc, lines, expected):
    """diagnostic only (C01 speaks about the accepting mode and about the parsed result itself): the
    non-accepting flags on documents the model shows free of error parts / duplicate names, and
    copies of the result"""
    import copy
    from debian._deb822_repro import parse_deb822_file
    has_error = any(p[0] in (3, 4) for p in case["p"])
    names = [conc["%d:name" % (i + 1)].lower() for i, c in enumerate(case["ls"]) if c.startswith("F")]
    dup, k = False, 0
    for part in case["p"]:
        if part[0] == 2:
            mine = names[k:k + len(part[2])]
            k += len(part[2])
            dup = dup or len(set(mine)) != len(mine)
    try:
        if not has_error:
            d = parse_deb822_file(list(lines), accept_files_with_duplicated_fields=True).dump()
            if d != expected:
                ctx.drift("accept_files_with_error_tokens=False on error-free %s gives %s" % (short(lines), short(d)))
        if not dup:
            d = parse_deb822_file(list(lines), accept_files_with_error_tokens=True).dump()
            if d != expected:
                ctx.drift("accept_files_with_duplicated_fields=False on duplicate-free %s gives %s" % (short(lines), short(d)))
        f = _parse(list(lines))
        for name, fn in (("copy.copy", copy.copy), ("copy.deepcopy", copy.deepcopy)):
            d = fn(f).dump()
            if d != expected:
                ctx.drift("%s of the result of %s dumps %s" % (name, short(lines), short(d)))
    except Exception as e:
        ctx.drift("strict flags / copy on %s: %s: %s" % (short(lines), type(e).__name__, e))


# ------------------------------------------------------------------ spec -> code: CASE replay

def concretize_case(rng, case, style):
    """text for every segment TLC lists in the document (key "<line>:<segment kind>")"""
    names = Names(rng, style)
    conc = {}
    for code in case["out"]:
        ln, s = code // 16, SEG[code % 16]
        conc["%d:%s" % (ln, s)] = seg_text(rng, s, style, names)
    return conc


def case_texts(case, conc):
    """(lines fed to the parser, expected output) of a concretized CASE; both are read off the
    `out` sequence emitted by TLC (segment order of the model's token stream)"""
    n = len(case["ls"])
    lines = [""] * n
    exp = []
    for code in case["out"]:
        ln, s = code // 16, SEG[code % 16]
        txt = conc["%d:%s" % (ln, s)]
        exp.append(txt)
        if not (case["m"] == "N" and s == "nl"):
            lines[ln - 1] += txt
    expected = "".join(exp)
    # machinery cross-check: the CASE is self-consistent (termination flags, identity)
    for i, l in enumerate(lines):
        if l.endswith("\n") != bool(case["t"][i]) or "\n" in l[:-1]:
            raise core.MachineryError("CASE/concretizer inconsistent at line %d: %r %r" % (i + 1, case, lines))
    same = "".join(lines) if case["m"] == "T" else "".join(l + "\n" for l in lines)
    if same != expected:
        raise core.MachineryError("CASE expected output is not the input: %r %r" % (case, lines))
    return lines, expected


def run_case(ctx, case, conc, with_bytes=False, keep=None):
    """returns (message or None, lines, expected); keep: a list that receives the parsed file"""
    lines, expected = case_texts(case, conc)
    obs = observe(lines, keep=keep is not None)
    if keep is not None:
        keep.append(obs.get("file"))
    msg = verdict(obs, expected)
    if msg:
        return "%s; input %s (mode %s), expected %s" % (short(msg, 900), short(lines, 900), case["m"], short(expected, 600)), lines, expected
    if ctx is not None:
        if obs["kinds"] != case["k"]:
            ctx.drift("token kinds of %s: real %s, model %s" % (short(lines), kinds_str(obs["kinds"]), kinds_str(case["k"])))
        elif obs["parts"] != case["p"]:
            ctx.drift("part list of %s: real %s, model %s" % (short(lines), parts_str(obs["parts"]), parts_str(case["p"])))
        if with_bytes:
            ok = True
            try:
                "".join(lines).encode("utf-8")
            except UnicodeEncodeError:
                ok = False
            if ok:
                b = observe_bytes(lines)
                if b != expected:
                    ctx.drift("bytes input form of %s gives %s" % (short(lines), short(b)))
    return None, lines, expected


def safe(msg):
    """messages go to stdout: lone surrogates and the like are escaped"""
    return msg.encode("utf-8", "backslashreplace").decode("utf-8") if isinstance(msg, str) else msg


def short(x, n=400):
    r = safe(x) if isinstance(x, str) else repr(x)
    return r if len(r) <= n else r[:n // 2] + " ...[%d chars]... " % len(r) + r[-n // 4:]


def kinds_str(ks):
    return " ".join(KIND[k] if isinstance(k, int) and 0 <= k < len(KIND) else str(k) for k in (ks or []))


def parts_str(ps):
    return " ".join("%s/%d%s" % (PART[p[0]] if p[0] < len(PART) else p[0], p[1], p[2] if p[2] else "") for p in (ps or []))


def case_key(case):
    return (case["m"], tuple(case["ls"]), tuple(case["t"]))


def prefix_case(index, case):
    """the CASE of the document without its last line (a different in-domain document sharing all
    its lines with `case`), if TLC emitted one"""
    n = len(case["ls"]) - 1
    if n < (2 if case["m"] == "N" else 1):
        return None
    return index.get((case["m"], tuple(case["ls"][:n]), tuple(case["t"][:n])))


def replay_history(history):
    """re-execute the recorded last few harness events (parses and shared-state scenarios) so that a
    failure that depends on what happened before in the process can be reproduced; returns the
    objects to keep alive"""
    alive = []
    for ev in history or []:
        try:
            if ev["ev"] == "fail":
                failing_parse(ev["lines"], ev["how"])
                continue
            lines, expected = case_texts(ev["case"], ev["conc"])
            if ev["ev"] == "parse":
                alive.append(observe(lines, keep=True))
            else:
                other = case_texts(ev["other_case"], ev["conc"]) if ev.get("other_case") else None
                shared_scenario(lines, expected, other, ev["mseed"])
        except core.MachineryError:
            raise
        except Exception:
            pass
    return alive


def replay_cases(ctx, cases, styles, index, shared_every, stats, bytes_every=7, big_every=4, gen=None,
                 fail_every=3, variant_every=3):
    """styles: concretization styles per case (the first one is the canonical minimal form);
    shared_every: every n-th case also runs the shared-state scenario (1 = all);
    big_every: every n-th case gets one more, size-stressed concretization (boundary lengths)"""
    from collections import deque
    rng = ctx.rng
    n = 0
    prev = None          # (file, lines, expected) of the previous concretization, kept alive
    history = deque(maxlen=6)     # the last harness events, recorded with every violation
    alive_variants = []           # results created through secondary input forms, kept alive
    for idx, case in enumerate(cases):
        for j, style in enumerate(styles + ["big"] if idx % big_every == 1 % big_every else styles):
            conc = concretize_case(rng, case, style)
            if gen is not None and (idx + j) % fail_every == 0:
                # ParseFails before the valid parse: an aborted call must leave nothing behind
                kinds = wanted_poison(case["ls"])
                pl, kind = poison_lines(rng, gen, rng.choice(kinds) if kinds else None,
                                        "big" if rng.random() < 0.03 else rng.choice(["ascii", "wild"]))
                how = FAIL_HOWS[(idx + j) // fail_every % 3]
                res = failing_parse(pl, how)
                key = "aborted_parses_%s" % how
                stats[key] = stats.get(key, 0) + 1
                if res == "returned":
                    stats["aborted_parses_that_returned"] = stats.get("aborted_parses_that_returned", 0) + 1
                history.append({"ev": "fail", "lines": pl, "how": how})
            if style == "big":
                stats["size_stressed_concretizations"] = stats.get("size_stressed_concretizations", 0) + 1
                stats["longest_line_replayed"] = max(stats.get("longest_line_replayed", 0),
                                                     max([len(v) for v in conc.values()] or [0]))
            keep = []
            msg, lines, expected = run_case(ctx, case, conc, with_bytes=((idx + j) % bytes_every == 0), keep=keep)
            n += 1
            if msg:
                ctx.violation({"kind": "case", "case": case, "conc": conc, "lines": lines, "expected": expected,
                               "history": list(history)}, msg)
                history.append({"ev": "parse", "case": case, "conc": conc})
                break
            if prev is not None:
                msg = prev_check(prev, lines)
                msg = short(msg, 2500) if msg else msg
                stats["previous_document_rechecked"] = stats.get("previous_document_rechecked", 0) + 1
                if msg:
                    ctx.violation({"kind": "prev", "case": case, "conc": conc, "history": list(history)}, msg)
                    break
                # diagnostic: two live documents never consist of the same token OBJECTS (tokens carry
                # parent pointers); not observable through dump(), hence drift only
                if keep and keep[0] is not None and stats.get("token_objects_shared", 0) < 3:
                    try:
                        mine = {id(t) for t in keep[0].iter_tokens()}
                        if any(id(t) in mine for t in prev[0].iter_tokens()):
                            stats["token_objects_shared"] = stats.get("token_objects_shared", 0) + 1
                            ctx.drift("documents parsed from %r and %r share token objects" % (prev[1], lines))
                    except Exception:
                        pass
            prev = (keep[0], lines, expected) if keep and keep[0] is not None else None
            history.append({"ev": "parse", "case": case, "conc": conc})
            if (idx + j) % variant_every == 0:
                vi = stats.get("api_variant_checks", 0)
                stats["api_variant_checks"] = vi + 1
                msg = variant_check(lines, expected, vi, ctx.work, alive_variants, stats)
                if msg:
                    ctx.violation({"kind": "variant", "case": case, "conc": conc, "vi": vi, "history": list(history)},
                                  short(msg, 2500))
                    break
                if vi % 10 == 0:
                    strict_and_copy_diagnostics(ctx, case, conc, lines, expected)
            if idx % shared_every == 0 and j == (idx // shared_every) % min(2, len(styles)):
                pc = prefix_case(index, case)
                other = case_texts(pc, conc) if pc is not None else None
                mseed = rng.randrange(1 << 30)
                msg = shared_scenario(lines, expected, other, mseed, stats)
                msg = short(msg, 2500) if msg else msg
                stats["shared_state_scenarios"] = stats.get("shared_state_scenarios", 0) + 1
                hist = list(history)
                history.append({"ev": "shared", "case": case, "conc": conc, "other_case": pc, "mseed": mseed})
                if msg:
                    ctx.violation({"kind": "shared", "case": case, "conc": conc, "other_case": pc, "mseed": mseed,
                                   "history": hist}, msg)
                    break
        ctx.case_seen(case_key(case), len(case["ls"]) > 0)
        if len(ctx.violations) >= ctx.max_violation_files:
            break
    return n


# ------------------------------------------------------------------ code -> spec: recorded parses

RAW_ALPHA = ([" ", "\t", ":", "#", "-", "A", "b", "a", ".", ","] * 3 + WS_EXOTIC[:7] * 2 + WS_EXOTIC[7:]
             + NON_ASCII + CONTROL + ["x", "Z", "0", "=", "\\", "\"", "~"] + STRESS + SURROGATES[:2] + TAILS[::7])


def raw_body(rng):
    n = rng.choice([0, 1, 1, 2, 2, 3, 3, 4, 5, 7, 10, 16])
    return "".join(rng.choice(RAW_ALPHA) for _ in range(n))


def terminate(rng, bodies, mode):
    """turn bodies into the lines of a document of the given mode"""
    if mode == "N":
        return list(bodies)
    lines = [b + "\n" for b in bodies]
    if lines and rng.random() < 0.35 and bodies[-1] != "":
        lines[-1] = bodies[-1]
    return lines


class DocGen:
    """documents for trace validation.  `segs_of[(class, nl)]` (segment kinds of a raw line) and
    the graph come from the LTS emitted by TLC, so the class grammar is the specification's."""

    def __init__(self, g, rng):
        self.g = g
        self.rng = rng
        self.segs_of = {}
        for e in g.edges:
            self.segs_of[(e["args"][0], bool(e["args"][1]))] = e["segs"]
        self.classes = sorted({c for c, _ in self.segs_of})
        self.edge_hits = {}

    def line_from_class(self, c, nl, style, names):
        return "".join(seg_text(self.rng, s, style, names) for s in self.segs_of[(c, nl)])

    def walk_doc(self, mode, maxlen):
        rng = self.rng
        init = {"mode": mode, "n": 0, "ended": False, "fld": False, "wsOpen": False, "last": "brk", "pend": False}
        n = rng.randint(2 if mode == "N" else 1, maxlen)
        path = self.g.walk(rng, skey(init), n, weight=lambda e: 1.0 if (e["args"][1] or mode == "N") else 0.04)
        style = rng.choice(["ascii", "wild", "wild"])
        names = Names(rng, style)
        lines, gen = [], []
        for e in path:
            k = (e["_f"], e["op"], skey(e["args"]))
            self.edge_hits[k] = self.edge_hits.get(k, 0) + 1
            lines.append(self.line_from_class(e["args"][0], bool(e["args"][1]), style, names))
            gen.append(e["args"][0])
        return lines, gen

    def raw_doc(self, mode, maxlen):
        rng = self.rng
        n = rng.randint(2 if mode == "N" else 1, maxlen)
        return terminate(rng, [raw_body(rng) for _ in range(n)], mode), None

    def mixed_doc(self, mode, maxlen):
        rng = self.rng
        n = rng.randint(2 if mode == "N" else 1, maxlen)
        style = rng.choice(["ascii", "wild"])
        names = Names(rng, style)
        bodies = []
        for _ in range(n):
            if rng.random() < 0.35:
                bodies.append(raw_body(rng))
            else:
                c = rng.choice(self.classes)
                bodies.append(self.line_from_class(c, False, style, names))
        return terminate(rng, bodies, mode), None

    def outside_doc(self):
        """documents outside the domain of C01 (executed; any outcome is accepted)"""
        rng = self.rng
        form = rng.randrange(4)
        if form == 0:      # mixed termination
            return ["A: b", "C: d\n", "\n"][:rng.randint(2, 3)], None
        if form == 1:      # an unterminated line that is not the last
            return ["A: b\n", " c", "D: e\n"], None
        if form == 2:      # an empty unterminated last "line"
            return rng.choice([["A: b\n", ""], [""], ["\n", ""]]), None
        return ["A: b\nC: d\n", "\n"], None   # a newline inside a line

    # ---- size-stressed documents (notes/SIZE_STRESS.md): same class grammar, large counts / lengths
    def from_classes(self, classes, mode, style, last_unterminated=False, dups=None):
        names = Names(self.rng, style)
        if dups is not None and names.pool is not None:
            names.dups = dups
        lines = []
        for i, c in enumerate(classes):
            nl = mode == "T" and not (last_unterminated and i == len(classes) - 1 and c != "E")
            lines.append(self.line_from_class(c, nl, style, names))
        return lines

    def count(self, big=False):
        rng = self.rng
        if big:
            return rng.choice([999, 1000, 1001, 1024, 1025])
        return rng.choice(COUNTS)

    def big_docs(self, quick):
        """(label, lines) -- a handful per run in quick, more in thorough"""
        rng = self.rng
        F = ["F1", "F1b", "F1a", "F1ba", "F0", "F0s"]
        out = []

        def mode():
            return "N" if rng.random() < 0.3 else "T"

        def small_style():
            return rng.choice(["ascii", "wild"])
        # long lines: every class, boundary lengths up to 64 KiB
        for _ in range(5 if quick else 40):
            cl = [rng.choice(self.classes) for _ in range(rng.randint(2, 9))]
            out.append(("long lines", self.from_classes(cl, mode(), "big", rng.random() < 0.3)))
        # runs of blank / comment / error lines between fields
        for kind, pool in (("blank", ["E", "W", "E"]), ("comment", ["H"]), ("error", ["X", "X", "C"])):
            for big in ([False, True] if quick else [False, False, False, True, True]):
                n = self.count(big)
                run = [rng.choice(pool) for _ in range(n)]
                if kind == "error":
                    head = rng.choice([["E"], ["F1b", "E"], ["F1b"]])    # indented lines: stray or continuation
                else:
                    head = rng.choice([[], ["F1b"], ["F1b", "C"]])
                tail = rng.choice([[], ["F1"], ["H", "F0", "C"]])
                out.append(("run of %d %s lines" % (n, kind),
                            self.from_classes(head + run + tail, mode(), small_style(), rng.random() < 0.3)))
        # paragraphs with many fields (distinct names, and with duplicates / case variants)
        for big in ([False, False, True] if quick else [False] * 6 + [True] * 3):
            n = self.count(big)
            cl = [rng.choice(F) for _ in range(n)]
            out.append(("paragraph of %d fields" % n,
                        self.from_classes(cl, mode(), rng.choice(["canonical", "ascii", "wild"]), rng.random() < 0.3,
                                          dups=rng.random() < 0.5)))
        # values with many continuation lines (some with comments inside)
        for big in ([False, True] if quick else [False] * 4 + [True] * 2):
            n = self.count(big)
            cl = [rng.choice(["F0", "F1b"])] + [("H" if rng.random() < 0.05 else "C") for _ in range(n)] + ["F1"]
            out.append(("value of %d continuation lines" % n, self.from_classes(cl, mode(), small_style())))
        # long documents: walks through the LTS
        for n in ([100, 1000, 10000] if quick else [100, 101, 257, 1000, 1000, 4097, 10000, 10000]):
            m = "N" if rng.random() < 0.3 else "T"
            init = {"mode": m, "n": 0, "ended": False, "fld": False, "wsOpen": False, "last": "brk", "pend": False}
            path = self.g.walk(rng, skey(init), n - 1, weight=lambda e: 1.0 if (e["args"][1] or m == "N") else 0.0)
            last = self.g.out[path[-1]["_t"]]
            if m == "T":        # the last line with or without newline
                want = rng.random() < 0.6
                last = [e for e in last if bool(e["args"][1]) == want]
            path.append(rng.choice(last))
            style = small_style()
            names = Names(rng, style)
            out.append(("document of %d lines" % len(path),
                        [self.line_from_class(e["args"][0], bool(e["args"][1]), style, names) for e in path]))
        return out

    def doc(self, maxlen):
        rng = self.rng
        r = rng.random()
        mode = "N" if rng.random() < 0.3 else "T"
        if r < 0.02:
            return self.outside_doc()
        if r < 0.45:
            return self.walk_doc(mode, maxlen)
        if r < 0.75:
            return self.raw_doc(mode, maxlen)
        return self.mixed_doc(mode, maxlen)


def cps(s):
    return [ord(c) for c in s]


def chk(s):
    """30-bit checksum of a text (abstract traces: the text itself never reaches TLC)"""
    import zlib
    return zlib.crc32(s.encode("utf-8", "surrogatepass")) & 0x3fffffff


def pieces(o):
    """an output cut after every newline, as [length, checksum] blobs"""
    parts = o.split("\n")
    ps = [p + "\n" for p in parts[:-1]] + ([parts[-1]] if parts[-1] else [])
    return [[len(x), chk(x)] for x in ps]


def is_big(lines):
    return len(lines) > 60 or any(len(l) > 100 for l in lines)


def make_trace(lines, obs):
    if is_big(lines):
        # size-stressed document: length + checksum per line, outputs as blobs (length-independent
        # identity expectation, see the header of TraceReproTokenizer.tla)
        diag = 1 if len(lines) <= 300 else 0
        outs = []
        for o in [obs["dump"], obs["tokjoin"], obs.get("later")] + list(obs.get("extra") or []):
            if o is not None:
                p = {"pieces": pieces(o)}
                if p not in outs:
                    outs.append(p)
        ls = []
        for l in lines:
            nl = l.endswith("\n")
            ls.append({"n": len(l), "h": chk(l), "hn": chk(l + "\n"), "nl": int(nl),
                       "inner": int("\n" in (l[:-1] if nl else l)), "cls": classify(l) if diag else []})
        return {"abs": 1, "diag": diag, "lines": ls,
                "exc": "none" if obs["exc"] == "none" else obs["exc"].split(":")[1].strip(), "outs": outs,
                "kinds": (obs["kinds"] or []) if diag else [], "parts": (obs["parts"] or []) if diag else []}
    outs = []
    for o in [obs["dump"], obs["tokjoin"], obs.get("later")] + list(obs.get("extra") or []):
        if o is not None and cps(o) not in outs:
            outs.append(cps(o))
    return {"abs": 0, "diag": 1, "lines": [{"t": cps(l), "cls": classify(l)} for l in lines],
            # only the exception type goes to TLC (messages may quote arbitrary input text)
            "exc": "none" if obs["exc"] == "none" else obs["exc"].split(":")[1].strip(), "outs": outs, "kinds": obs["kinds"] or [], "parts": obs["parts"] or []}


def corrupt(t, how):
    """control traces the trace module must NOT accept (in-domain documents only)"""
    import copy
    t = copy.deepcopy(t)
    if t.get("abs"):
        if t["exc"] != "none" or not t["outs"] or len(t["outs"][0]["pieces"]) < 2:
            return None
        ps = t["outs"][0]["pieces"]
        if how == "drop":          # one line lost
            del ps[len(ps) // 2]
        elif how == "raise":
            t["exc"] = "ValueError"
            t["outs"] = []
        elif how == "swap":        # one character of one line changed (same length)
            ps[len(ps) // 2][1] = (ps[len(ps) // 2][1] + 1) % (1 << 30)
        elif how == "nl":          # one character lost in one line
            ps[0][0] += 1
        elif how == "second":
            t["outs"] = [t["outs"][0], {"pieces": ps[:-1]}]
        return t
    if t["exc"] != "none" or not t["outs"] or len(t["outs"][0]) < 2:
        return None
    if how == "drop":          # one character lost
        del t["outs"][0][len(t["outs"][0]) // 2]
    elif how == "raise":       # the parser raised
        t["exc"] = "ValueError"
        t["outs"] = []
    elif how == "swap":        # two characters exchanged
        o = t["outs"][0]
        for i in range(len(o) - 1):
            if o[i] != o[i + 1]:
                o[i], o[i + 1] = o[i + 1], o[i]
                return t
        return None
    elif how == "nl":          # a final newline added
        t["outs"][0].append(10)
    elif how == "second":      # only the second observed output is wrong
        t["outs"] = [t["outs"][0], t["outs"][0][:-1]]
    return t


def in_domain_py(lines):
    """only used to pick control candidates and to label samples -- never for a verdict"""
    if all("\n" not in l for l in lines):
        return len(lines) >= 2 or (len(lines) == 1 and lines[0] != "")
    return all(l.endswith("\n") and "\n" not in l[:-1] for l in lines[:-1]) and lines[-1] != "" and "\n" not in lines[-1][:-1]


def validate(ctx, docs, with_controls=True):
    """docs: list of (lines, obs).  Returns (violating ids, drift ids, progress) -- ids 0-based"""
    traces = [make_trace(lines, obs) for lines, obs in docs]
    controls, kind_controls = [], []
    if with_controls:
        for form in (0, 1):
            for how in ("drop", "raise", "swap", "nl", "second"):
                for (lines, _), t in zip(docs, traces):
                    if t["abs"] == form and in_domain_py(lines):
                        c = corrupt(t, how)
                        if c:
                            controls.append(c)
                            break
        # diagnostic layer control: a wrong token kind must be noticed as drift
        for (lines, _), t in zip(docs, traces):
            if in_domain_py(lines) and t["exc"] == "none" and len(t["kinds"]) >= 2 and t["diag"]:
                c = json.loads(json.dumps(t))
                c["kinds"][-1] = (c["kinds"][-1] + 1) % 8
                kind_controls.append(c)
                break
        if len(controls) < 3 or not kind_controls:
            raise core.MachineryError("no usable control traces in this batch")
    allt = traces + kind_controls
    acc, prog, r = core.validate_traces(ctx, "TraceReproTokenizer", "TraceReproTokenizer.cfg", allt,
                                        controls=controls)
    for j in range(len(traces) + 1, len(allt) + 1):
        if j not in acc or prog.get(j, 0) >= len(allt[j - 1]["lines"]) + 1:
            raise core.MachineryError("trace module did not flag a wrong token kind as drift: binding of the "
                                      "diagnostic layer is vacuous")
        ctx.extra["negative_controls_rejected"] = ctx.extra.get("negative_controls_rejected", 0) + 1
    bad = [i for i in range(len(traces)) if (i + 1) not in acc]
    drift = [i for i in range(len(traces)) if (i + 1) in acc and prog.get(i + 1, 0) < len(traces[i]["lines"]) + 1]
    return bad, drift, prog


def variant_extra(obs, lines, vi, workdir):
    """the same lines through a secondary input form, read back through two secondary output forms:
    more observed outputs for TLC to judge"""
    form = INPUT_FORMS[vi % 7]
    try:
        inp = input_form(form, lines, workdir)
        if inp is None:
            return
        try:
            vf = _parse(inp)
        finally:
            if hasattr(inp, "close"):
                inp.close()
        enc = True
        try:
            "".join(lines).encode("utf-8")
        except UnicodeEncodeError:
            enc = False
        outs_v = output_forms(vf, enc)
        obs["extra"] = [outs_v[vi % len(outs_v)][1], outs_v[(vi // 7 + 3) % len(outs_v)][1]]
    except Exception as e:
        obs["exc"] = "variant %s: %s: %s" % (form, type(e).__name__, e)


def sibling_edit(lines, mseed, stats=None):
    """a second parse of the same lines is edited and dropped (CallerMutates on a sibling document)"""
    try:
        g = _parse(list(lines))
    except Exception:
        return
    mutate(random.Random(mseed), g, stats)


def add_later(obs):
    """re-dump a document that is still alive and unmodified; the result is one more observed output
    of that document (the trace module requires every output to equal Expected)"""
    f = obs.get("file")
    if f is not None:
        obs["later"] = _dump_or_exc(f)
        obs["file"] = None


def record_and_validate(ctx, gen, ndocs, maxlen, batch, stats):
    g = gen.g
    total_bad = 0
    ndrift = 0
    lens = {}
    for start in range(0, ndocs, batch):
        docs = []
        ctxs = []
        todo = [gen.doc(maxlen) for _ in range(min(batch, ndocs - start))]
        if start == 0:
            bigs = gen.big_docs(ctx.tier == "quick")
            todo += [(lines, None) for _, lines in bigs]
            stats["size_stressed_documents"] = len(bigs)
            stats["size_stressed_shapes"] = sorted({label.split(" of ")[0] for label, _ in bigs})
            stats["longest_document_lines"] = max(len(l) for _, l in bigs)
            stats["longest_line_recorded"] = max(max(len(x) for x in l) for _, l in bigs if l)
        for lines, genc in todo:
            pre_fail = None
            if len(docs) % 4 == 0:
                # an aborted parse right before this document (ParseFails, Parse): nothing may leak
                classes = [classify(l)[-1] for l in lines[:12] if len(l) < 200]
                kinds = wanted_poison(classes)
                pl, _ = poison_lines(ctx.rng, gen, ctx.rng.choice(kinds) if kinds else None, ctx.rng.choice(["ascii", "wild"]))
                how = FAIL_HOWS[(len(docs) // 4) % 3]
                failing_parse(pl, how)
                stats["aborted_parses_before_recorded_documents"] = stats.get("aborted_parses_before_recorded_documents", 0) + 1
                pre_fail = {"lines": pl, "how": how}
            if lines and ctx.rng.random() < 0.06:
                # a byte order mark in front of the first (and sometimes of a later) line: part of the text
                lines = list(lines)
                lines[0] = "\ufeff" + lines[0]
                if len(lines) > 2 and ctx.rng.random() < 0.5:
                    k = ctx.rng.randrange(1, len(lines))
                    lines[k] = "\ufeff" + lines[k]
                genc = None
                stats["recorded_documents_with_bom"] = stats.get("recorded_documents_with_bom", 0) + 1
            obs = observe(lines, keep=True, diag=len(lines) <= 300)
            vi = None
            if len(docs) % 3 == 1 and obs["exc"] == "none":
                vi = stats.get("recorded_variant_outputs", 0)
                stats["recorded_variant_outputs"] = vi + 1
                variant_extra(obs, lines, vi, ctx.work)
            mseed = ctx.rng.randrange(1 << 30)
            sibling_edit(lines, mseed, stats)
            if docs:
                # the previous document (unmodified, still alive) after this one was parsed and a
                # second parse of the previous one was edited
                add_later(docs[-1][1])
                ctxs[-1]["next_lines"] = lines
            docs.append((lines, obs))
            ctxs.append({"mseed": mseed, "next_lines": None, "pre_fail": pre_fail, "vi": vi})
            b = min(len(lines) // 10 * 10, 40)
            lens[b] = lens.get(b, 0) + 1
            if genc is not None:
                for l, c in zip(lines, genc):
                    if c not in classify(l):
                        ctx.drift("classifier %r vs generator class %s for line %s" % (classify(l), c, short(l)))
        bad, drift, prog = validate(ctx, docs)
        for i in bad:
            lines, obs = docs[i]
            total_bad += 1
            ctx.violation({"kind": "trace", "lines": lines, "mseed": ctxs[i]["mseed"], "next_lines": ctxs[i]["next_lines"],
                           "pre_fail": ctxs[i]["pre_fail"], "vi": ctxs[i]["vi"]},
                          "recorded parse rejected by TraceReproTokenizer: the document is in the domain but the "
                          "output is not the input (exception: %s; dump() = %s; token texts = %s; dump() again after "
                          "the next document was parsed = %s); input %s"
                          % (obs["exc"], short(obs["dump"]), short(obs["tokjoin"]), short(obs.get("later")),
                             short(lines, 1200)))
        for i in drift:
            lines, obs = docs[i]
            ndrift += 1
            at = max(prog.get(i + 1, 0), 0)
            ctx.drift("automaton explains only %d of %d lines of %s: line %d = %s classes %s; real kinds %s, parts %s"
                      % (at, len(lines), short(lines), at, short(lines[at - 1]) if 0 < at <= len(lines) else "-",
                         [classify(l) for l in lines[max(at - 2, 0):at + 1]], short(kinds_str(obs["kinds"])),
                         short(parts_str(obs["parts"]))))
        if start == 0 and docs:
            for lines, obs in docs:
                if 3 <= len(lines) <= 6 and obs["exc"] == "none":
                    ctx.sample("recorded parse: lines=%s classes=%s kinds=[%s] parts=[%s]" % (
                        json.dumps(lines, ensure_ascii=True), json.dumps([classify(l) for l in lines]),
                        kinds_str(obs["kinds"]), parts_str(obs["parts"])))
                    break
        if len(ctx.violations) >= ctx.max_violation_files:
            break
    ctx.extra["trace_docs_by_length_decade"] = {str(k): v for k, v in sorted(lens.items())}
    ctx.extra["lts_edges_hit_by_walk_documents"] = "%d of %d" % (len(gen.edge_hits), len(g.edges))
    per = {}
    for (_, op, _a), n in gen.edge_hits.items():
        per[op] = per.get(op, 0) + n
    ctx.extra["walk_document_lines_per_branch"] = per
    ctx.extra["traces_rejected"] = total_bad
    ctx.extra["traces_with_drift"] = ndrift


# ------------------------------------------------------------------ the check

NEG_CONTROLS = [("MC_ReproTokenizer_neg_merge.cfg", "TokenShape", "MergeUnterminatedWs"),
                ("MC_ReproTokenizer_neg_comment.cfg", "PartsLossless", "DropFloatingComment")]


def load_cases(r):
    cases = r.printed.get("CASE", [])
    for c in cases:
        if not isinstance(c, dict):
            raise core.MachineryError("unparsable CASE line: %r" % (c,))
    cases.sort(key=lambda c: (len(c["ls"]), c["m"], c["ls"], c["t"]))
    return cases


def run(ctx):
    quick = ctx.tier == "quick"
    W = 8
    _violation = ctx.violation
    ctx.violation = lambda case, msg: _violation(case, safe(msg))
    ctx.assumptions += [
        "bounded configurations: documents of <= 3 lines over all 11 line classes and of 4 lines over 6 classes (quick); "
        "<= 4 lines over 11 classes and 5 lines over 8 classes replayed, <= 5 lines over 11 classes and <= 6 lines over 6 "
        "classes model-checked (thorough); the closed lts "
        "configuration covers the control state for documents of any length",
        "payload (concrete characters, field names incl. duplicates and case variants) is sampled with the run's seed",
        "domain: lines contain no newline except as terminator; an empty unterminated last line and mixed termination "
        "are unspecified (executed, any outcome accepted)",
        "token kinds / part lists / bytes input are diagnostic (spec_drift); trusted: TLC, concretizer, projections",
    ]
    # 1. closed configuration: totality + determinism + control invariants; the LTS
    r = ctx.tlc_must_hold("ReproTokenizer", "MC_ReproTokenizer_lts.cfg", workers=1, want_tags={"EDGE"})
    g = LTS(r.printed["EDGE"], {"mode": "T", "n": 0, "ended": False, "fld": False, "wsOpen": False,
                                "last": "brk", "pend": False})
    per_branch = {}
    for e in g.edges:
        per_branch[e["op"]] = per_branch.get(e["op"], 0) + 1
    ctx.extra["lts"] = {"control_states": len(g.states), "edges": len(g.edges)}
    ctx.extra["edges_per_branch"] = per_branch
    if set(per_branch) != {"TokBlank", "TokComment", "TokContinuation", "TokStrayIndent", "TokField", "TokGarbage"}:
        raise core.MachineryError("a tokenizer branch is unreachable in the model: %r" % (per_branch,))

    # 2. design-level runs that do not feed the binding go to a background thread (they only need to
    #    finish before the verdict): spec-level negative controls, the process-wide model, and in the
    #    thorough tier the larger bounded configurations
    neg = {}
    bg_res = {}

    def design_runs():
        try:
            for cfg, inv, const in NEG_CONTROLS:
                rn = ctx.tlc("ReproTokenizer", cfg, count=False, workers=2)
                if rn.violated != inv:
                    raise core.MachineryError("negative control %s = TRUE did not violate %s (got %r)"
                                              % (const, inv, rn.violated))
                neg[const] = "violates " + inv
            # process-wide model: unmodified documents stay lossless, edits are isolated, aborted
            # parses leave nothing behind
            ctx.tlc_must_hold("ReproTokenizerShared", "MC_ReproTokenizerShared_quick.cfg" if quick
                              else "MC_ReproTokenizerShared.cfg", workers=2)
            for cfg, const in (("MC_ReproTokenizerShared_neg.cfg", "SharedTokens"),
                               ("MC_ReproTokenizerShared_neg_leftover.cfg", "LeftoverRunBuffer")):
                rn = ctx.tlc("ReproTokenizerShared", cfg, count=False, workers=2)
                if rn.violated != "UnmodifiedLossless":
                    raise core.MachineryError("negative control %s = TRUE did not violate UnmodifiedLossless "
                                              "(got %r)" % (const, rn.violated))
                neg[const] = "violates UnmodifiedLossless"
            if not quick:
                ctx.tlc_must_hold("ReproTokenizerShared", "MC_ReproTokenizerShared_big.cfg", workers=4)
                ctx.tlc_must_hold("ReproTokenizer", "MC_ReproTokenizer_bnd6.cfg", workers=4)
                ctx.tlc_must_hold("ReproTokenizer", "MC_ReproTokenizer_bnd5.cfg", workers=4)
        except Exception as e:      # re-raised in the main thread
            bg_res["err"] = e
    bg = threading.Thread(target=design_runs)
    bg.start()
    gen = DocGen(g, ctx.rng)
    stats = {}

    # 3. bounded configurations: the property on every document; CASE replay
    plan = None
    if quick:
        ctx.extra["model_constants"] = {"classes": 11, "max_lines_full_alphabet": 3, "max_lines_6_classes": 4,
                                        "modes": ["T", "N"]}
    else:
        ctx.extra["model_constants"] = {"classes": 11, "max_lines_full_alphabet": "4 replayed, 5 model-checked",
                                        "max_lines_8_classes": "5 replayed", "max_lines_6_classes": "6 model-checked",
                                        "modes": ["T", "N"]}
    try:
        if quick:
            rq = ctx.tlc_must_hold("ReproTokenizer", "MC_ReproTokenizer_bnd_quick.cfg", workers=W, want_tags={"CASE"})
            cq = load_cases(rq)
            plan = [([c for c in cq if len(c["ls"]) <= 2], ["canonical", "wild", "wild", "wild"]),
                    ([c for c in cq if len(c["ls"]) == 3], ["canonical", "wild"]),
                    ([c for i, c in enumerate(c for c in cq if len(c["ls"]) == 4) if i % 2 == 0], ["canonical"]),
                    ([c for i, c in enumerate(c for c in cq if len(c["ls"]) == 4) if i % 2 == 1], ["wild"])]
        else:
            rt = ctx.tlc_must_hold("ReproTokenizer", "MC_ReproTokenizer_bnd_thorough.cfg", workers=W,
                                   want_tags={"CASE"})
            ct = load_cases(rt)
            plan = [([c for c in ct if len(c["ls"]) <= 3], ["canonical", "ascii", "wild", "wild", "wild", "wild"]),
                    ([c for c in ct if len(c["ls"]) == 4], ["canonical", "wild"]),
                    ([c for c in ct if len(c["ls"]) == 5], ["wild"])]
        n_replayed = 0
        by_len = {}
        index = {case_key(c): c for cases, _ in plan for c in cases}
        for cases, styles in plan:
            for c in cases:
                by_len[len(c["ls"])] = by_len.get(len(c["ls"]), 0) + 1
            # shared-state scenario: every 3rd case (quick); every case of <= 3 lines, every 3rd 4-line and
            # every 4th 5-line case (thorough)
            n_lines = len(cases[0]["ls"]) if cases else 0
            every = 3 if quick else (4 if n_lines >= 5 else 3 if n_lines == 4 else 1)
            big_every = 4 if quick else (8 if cases and len(cases[0]["ls"]) >= 5 else 4)
            n_replayed += replay_cases(ctx, cases, styles, index, every, stats, big_every=big_every, gen=gen,
                                       fail_every=5 if quick else 4, variant_every=6 if quick else 8)
            if len(ctx.violations) >= ctx.max_violation_files:
                break
        ctx.extra["cases_by_length"] = {str(k): v for k, v in sorted(by_len.items())}
        ctx.extra["concretizations_replayed"] = n_replayed
        for cases, _ in plan:
            pick = [c for c in cases if len(c["ls"]) >= 3 and "C" in c["ls"] and "H" in c["ls"]]
            if pick:
                c = pick[len(pick) // 2]
                conc = concretize_case(random.Random(1), c, "ascii")
                lines, expected = case_texts(c, conc)
                ctx.sample("case mode=%s classes=%s -> lines=%s kinds=[%s] parts=[%s]" % (
                    c["m"], ",".join(c["ls"]), json.dumps(lines), kinds_str(c["k"]), parts_str(c["p"])))

        # 4. code -> spec
        if len(ctx.violations) < ctx.max_violation_files:
            ndocs, batch = (800, 800) if quick else (7500, 2500)
            record_and_validate(ctx, gen, ndocs, 40, batch, stats)
            ctx.traces += ndocs
            ctx.evaluations += ndocs
            ctx.extra["traces_recorded"] = ndocs
        ctx.traces += n_replayed
        ctx.extra["shared_state"] = stats
    finally:
        bg.join()       # never leave the background TLC runs behind
    if "err" in bg_res:
        raise bg_res["err"]
    ctx.extra["spec_negative_controls"] = neg
    import time
    ctx.extra["python_cpu_s"] = round(time.process_time(), 1)     # load-independent cost of the binding legs


def replay(ctx, case):
    return safe(_replay(ctx, case))


def _replay(ctx, case):
    if case.get("kind") == "variant":
        alive = replay_history(case.get("history"))
        lines, expected = case_texts(case["case"], case["conc"])
        msg = None
        for vi in (case["vi"], case["vi"] + 1, case["vi"] + 2, case["vi"] + 3):   # also fills `alive`
            msg = msg or variant_check(lines, expected, vi, ctx.work, [], None)
        del alive
        return msg
    if case.get("kind") == "case":
        alive = replay_history(case.get("history"))
        msg, _, _ = run_case(None, case["case"], case["conc"])
        del alive
        return msg
    if case.get("kind") == "prev":
        # the last history event is the parse of the document that is re-checked
        alive = replay_history(case.get("history"))
        if not alive or alive[-1].get("file") is None:
            return "the earlier document could not be parsed"
        last = [ev for ev in case["history"] if ev["ev"] == "parse"][-1]
        pl, pe = case_texts(last["case"], last["conc"])
        lines, _ = case_texts(case["case"], case["conc"])
        observe(lines)
        return prev_check((alive[-1]["file"], pl, pe), lines)
    if case.get("kind") == "shared":
        alive = replay_history(case.get("history")[:-1])     # the last event is this case's own parse
        lines, expected = case_texts(case["case"], case["conc"])
        keep = observe(lines, keep=True)
        other = case_texts(case["other_case"], case["conc"]) if case.get("other_case") else None
        msg = shared_scenario(lines, expected, other, case["mseed"])
        del alive, keep
        return msg
    if case.get("kind") == "trace":
        lines = case["lines"]
        if case.get("pre_fail"):
            failing_parse(case["pre_fail"]["lines"], case["pre_fail"]["how"])
        obs = observe(lines, keep=True)
        if case.get("vi") is not None and obs["exc"] == "none":
            variant_extra(obs, lines, case["vi"], ctx.work)
        if case.get("mseed") is not None:
            sibling_edit(lines, case["mseed"])
        if case.get("next_lines") is not None:
            observe(case["next_lines"])
            add_later(obs)
        bad, _, _ = validate(ctx, [(lines, obs)], with_controls=False)
        if bad:
            return "recorded parse still rejected by TraceReproTokenizer: exc=%s dump=%r tokens=%r input=%r" % (
                obs["exc"], obs["dump"], obs["tokjoin"], lines)
        return None
    return "unknown case kind"
