"""C13 helper: the kinds of file object / line source a deb822 paragraph can be read from, and texts
whose line ends fall on block boundaries (notes/SIZE_STRESS.md part 4).  Input generation only: what
is read back is judged in props/c13.py against TLC's expectation, which does not depend on the form."""
import bz2
import gzip
import io
import lzma
import os
import tempfile

WORKDIR = [None]          # scratch directory of the running check (set by props/c13.py)


class ShortReads(io.RawIOBase):
    """a raw stream that hands out 1..7 bytes per read call"""

    def __init__(self, data, salt=0):
        super().__init__()
        self._data = data
        self._pos = 0
        self._salt = salt

    def readable(self):
        return True

    def readinto(self, b):
        if self._pos >= len(self._data):
            return 0
        n = min(len(b), 1 + (self._pos * 7 + self._salt) % 7, len(self._data) - self._pos)
        b[:n] = self._data[self._pos:self._pos + n]
        self._pos += n
        return n


def _real_file(data):
    fd, path = tempfile.mkstemp(prefix="c13-", suffix=".deb822", dir=WORKDIR[0])
    with os.fdopen(fd, "wb") as f:
        f.write(data)
    return path


# kind -> opener(data: bytes) -> (object to hand to the library, list of things to close, path to remove)
def _open(kind, data, salt=0):
    if kind == "io.StringIO":
        return io.StringIO(data.decode("utf-8")), [], None
    if kind == "io.BytesIO":
        return io.BytesIO(data), [], None
    if kind == "io.TextIOWrapper(io.BytesIO)":
        f = io.TextIOWrapper(io.BytesIO(data), encoding="utf-8", newline="\n")
        return f, [f], None
    if kind in ("open(path, 'rb')", "open(path, 'rb', buffering=0)", "open(path, 'r')", "gzip.open(path)"):
        if kind == "gzip.open(path)":
            path = _real_file(gzip.compress(data, 1))
            f = gzip.open(path, "rb")
        else:
            path = _real_file(data)
            f = (open(path, "rb") if kind == "open(path, 'rb')" else open(path, "rb", buffering=0)
                 if kind == "open(path, 'rb', buffering=0)" else open(path, "r", encoding="utf-8", newline="\n"))
        return f, [f], path
    if kind == "io.BufferedReader(short reads)":
        f = io.BufferedReader(ShortReads(data, salt), buffer_size=(16, 64, 8192)[salt % 3])
        return f, [f], None
    if kind == "gzip.GzipFile(fileobj=io.BytesIO)":
        f = gzip.GzipFile(fileobj=io.BytesIO(gzip.compress(data, 1)), mode="rb")
        return f, [f], None
    if kind == "bz2.BZ2File(io.BytesIO)":
        f = bz2.BZ2File(io.BytesIO(bz2.compress(data, 1)), "rb")
        return f, [f], None
    if kind == "lzma.LZMAFile(io.BytesIO)":
        f = lzma.LZMAFile(io.BytesIO(lzma.compress(data, preset=0)), "rb")
        return f, [f], None
    if kind == "tempfile.SpooledTemporaryFile":
        f = tempfile.SpooledTemporaryFile(max_size=(1 << 12, 1 << 20)[salt % 2], dir=WORKDIR[0])
        f.write(data)
        f.seek(0)
        return f, [f], None
    if kind == "generator of bytes lines":
        return (x for x in data.splitlines(True)), [], None
    if kind == "generator of str lines without newline":
        return (x for x in data.decode("utf-8").split("\n")[:-1]), [], None
    raise ValueError(kind)


FILE_KINDS = ("io.StringIO", "io.BytesIO", "io.TextIOWrapper(io.BytesIO)", "open(path, 'rb')",
              "open(path, 'rb', buffering=0)", "open(path, 'r')", "gzip.open(path)",
              "io.BufferedReader(short reads)", "gzip.GzipFile(fileobj=io.BytesIO)", "bz2.BZ2File(io.BytesIO)",
              "lzma.LZMAFile(io.BytesIO)", "tempfile.SpooledTemporaryFile", "generator of bytes lines",
              "generator of str lines without newline")


class Opened:
    """with Opened(kind, data) as f: ... -- closes / removes what it opened"""

    def __init__(self, kind, data, salt=0):
        self.kind, self.data, self.salt = kind, data, salt

    def __enter__(self):
        self.obj, self.closers, self.path = _open(self.kind, self.data, self.salt)
        return self.obj

    def __exit__(self, *exc):
        for f in self.closers:
            try:
                f.close()
            except Exception:            # noqa: BLE001 -- scratch objects of the harness
                pass
        if self.path:
            try:
                os.unlink(self.path)
            except OSError:
                pass
        return False


ALIGN_WHERE = ("the newline ending the relation field", "the newline before the relation field",
               "a separator inside the value", "the last newline of the input")
ALIGN_EXP = (9, 10, 11, 12, 12, 13, 13, 13, 14, 15, 16, 17)
ALIGN_DELTA = (-1, 0, -1, -2, 1, -1, 0)


def aligned_paragraph(field, value, m, trailer=""):
    """text of a paragraph (Package, a pad field, the relation field, a last field [, trailer]) in which the
    byte chosen by m -- the newline that ends the relation field / the pad field / the input, or the first
    byte of a separator in the middle of the value -- has offset 2**k + d, d in -2 .. 1 (d = -1: the last
    byte of a block, the next line starts exactly on the boundary).  The smallest k >= the drawn one that
    the text allows is used.  -> (text, description), or (None, None) if no k <= 17 fits"""
    where = m % len(ALIGN_WHERE)
    kexp = ALIGN_EXP[(m // 4) % len(ALIGN_EXP)]
    d = ALIGN_DELTA[(m // 48) % len(ALIGN_DELTA)]
    head = "Package: zz\nX-Pad: "
    line = "%s: %s\n" % (field, value)
    tail = "X-Last: y\n"
    if where == 0:
        fixed = len(head) + 1 + len(line) - 1                  # offset of the field's newline with an empty pad
    elif where == 1:
        fixed = len(head)                                      # offset of the pad field's newline
    elif where == 2:
        seps = [i for i, c in enumerate(value) if c in ",|[<"] or [len(value) // 2]
        fixed = len(head) + 1 + len(field) + 2 + seps[len(seps) // 2]
    else:
        fixed = len(head) + 1 + len(line) + len(tail) + len(trailer) - 1
    while kexp <= 17 and (1 << kexp) + d - fixed < 1:
        kexp += 1
    if kexp > 17:
        return None, None
    pad = (1 << kexp) + d - fixed
    text = head + "p" * pad + "\n" + line + tail + trailer
    return text, "%s at offset 2**%d%s" % (ALIGN_WHERE[where], kexp, "%+d" % d if d else "")
