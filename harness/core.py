"""Shared machinery for the python-debian TLA+ model-based checks.

Every property module (harness/props/cNN.py) exposes

    run(ctx)            -- run the whole check for ctx.tier, using the helpers below
    replay(ctx, case)   -- re-execute one recorded case, return None or a message

Verdict policy (DESIGN.md section 3): only ctx.violation() produces a VIOLATION line;
ctx.drift() records a diagnostic mismatch (never an alarm); MachineryError exits 2.
"""
import hashlib
import json
import os
import random
import re
import shutil
import subprocess
import sys
import tempfile
import time

VERIF = os.path.dirname(os.path.dirname(os.path.abspath(__file__)))
SPEC = os.path.join(VERIF, "spec")
TLA_CP = "/opt/veriftools/tla/tla2tools.jar:/opt/veriftools/tla/CommunityModules-deps.jar"
NCPU = os.cpu_count() or 4


class MachineryError(Exception):
    """The verification machinery itself failed (TLC crash, spec error, time-out)."""


# --------------------------------------------------------------------------- TLC

class TLCResult:
    def __init__(self):
        self.generated = 0
        self.distinct = 0
        self.depth = 0
        self.ok = False           # "No error has been found"
        self.violated = None      # name of violated invariant / property
        self.printed = {}         # tag -> list of payloads (json-decoded when possible)
        self.coverage = {}        # action name -> distinct count (when -coverage)
        self.wall = 0.0
        self.cmd = ""
        self.tail = ""
        self.raw_path = None


_PRINT_RE = re.compile(r'^<<"([A-Z_]+)", (.*)>>$')


def _unescape_tla_string(s):
    # TLC prints strings with \" and \\ escapes
    out = []
    i = 0
    n = len(s)
    while i < n:
        c = s[i]
        if c == "\\" and i + 1 < n:
            d = s[i + 1]
            if d == "n":
                out.append("\n")
            elif d == "t":
                out.append("\t")
            else:
                out.append(d)
            i += 2
        else:
            out.append(c)
            i += 1
    return "".join(out)


def parse_tla_value(txt):
    """Parse a printed TLA+ value made of ints, strings, tuples <<..>>, sets {..},
    records [a |-> ..], TRUE/FALSE into Python (tuples/sets -> lists, records -> dicts)."""
    pos = 0
    n = len(txt)

    def ws():
        nonlocal pos
        while pos < n and txt[pos] in " \n\t":
            pos += 1

    def val():
        nonlocal pos
        ws()
        if txt.startswith("<<", pos):
            pos += 2
            items = seq(">>")
            return items
        c = txt[pos]
        if c == "{":
            pos += 1
            return seq("}")
        if c == "[":
            pos += 1
            d = {}
            ws()
            while True:
                ws()
                m = re.compile(r"[A-Za-z_0-9]+").match(txt, pos)
                key = m.group(0)
                pos = m.end()
                ws()
                assert txt.startswith("|->", pos), txt[pos:pos + 20]
                pos += 3
                d[key] = val()
                ws()
                if txt[pos] == ",":
                    pos += 1
                    continue
                assert txt[pos] == "]"
                pos += 1
                return d
        if c == '"':
            j = pos + 1
            while txt[j] != '"':
                if txt[j] == "\\":
                    j += 1
                j += 1
            s = _unescape_tla_string(txt[pos + 1:j])
            pos = j + 1
            return s
        m = re.compile(r"-?\d+").match(txt, pos)
        if m:
            pos = m.end()
            return int(m.group(0))
        m = re.compile(r"[A-Za-z_][A-Za-z_0-9]*").match(txt, pos)
        if m:
            pos = m.end()
            w = m.group(0)
            if w == "TRUE":
                return True
            if w == "FALSE":
                return False
            return w
        raise ValueError("cannot parse TLA value at %r" % txt[pos:pos + 30])

    def seq(close):
        nonlocal pos
        items = []
        ws()
        if txt.startswith(close, pos):
            pos += len(close)
            return items
        while True:
            items.append(val())
            ws()
            if txt[pos] == ",":
                pos += 1
                continue
            assert txt.startswith(close, pos), txt[pos:pos + 20]
            pos += len(close)
            return items

    v = val()
    return v


def run_tlc(module, cfg, workdir, workers=None, env=None, timeout=600, coverage=False,
            simulate=None, depth=None, seed=None, keep_raw=False, deadlock=True,
            want_tags=None, java_opts=None):
    """Run TLC on spec/<module>.tla with spec/<cfg> (a path or text). Returns TLCResult.
    Raises MachineryError on parse errors, crashes or time-out."""
    res = TLCResult()
    meta = tempfile.mkdtemp(prefix="tlc-", dir=workdir)
    tmpd = os.path.join(meta, "jtmp")
    os.makedirs(tmpd)
    if "\n" in cfg or not cfg.endswith(".cfg"):
        cfg_path = os.path.join(meta, "MC.cfg")
        with open(cfg_path, "w") as f:
            f.write(cfg)
    else:
        cfg_path = cfg if os.path.isabs(cfg) else os.path.join(SPEC, cfg)
    w = workers or NCPU
    cmd = ["java", "-XX:+UseParallelGC", "-XX:ParallelGCThreads=2", "-Xmn256m", "-Xmx8g", "-Djava.io.tmpdir=" + tmpd]
    cmd += list(java_opts or [])
    cmd += ["-cp", TLA_CP, "tlc2.TLC", "-workers", str(w), "-metadir", os.path.join(meta, "states"),
            "-noGenerateSpecTE", "-config", cfg_path]
    if coverage:
        cmd += ["-coverage", "1"]
    if not deadlock:
        cmd += ["-deadlock"]
    if simulate:
        cmd += ["-simulate", simulate]
    if depth:
        cmd += ["-depth", str(depth)]
    if seed is not None:
        cmd += ["-seed", str(seed)]
    cmd += [module if module.endswith(".tla") else module + ".tla"]
    e = dict(os.environ)
    e.pop("JAVA_TOOL_OPTIONS", None)
    if env:
        e.update({k: str(v) for k, v in env.items()})
    res.cmd = " ".join(cmd)
    t0 = time.time()
    raw = os.path.join(meta, "out.txt")
    try:
        with open(raw, "w") as out:
            p = subprocess.run(cmd, cwd=SPEC, env=e, stdout=out, stderr=subprocess.STDOUT, timeout=timeout)
    except subprocess.TimeoutExpired:
        raise MachineryError("TLC timed out after %ss: %s" % (timeout, res.cmd))
    res.wall = time.time() - t0
    tail = []
    cov_re = re.compile(r"^<(\w+) line \d+, col \d+ to line \d+, col \d+ of module (\w+)>: (\d+):(\d+)")
    with open(raw, errors="replace") as f:
        for line in f:
            line = line.rstrip("\n")
            if line.startswith('<<"'):
                m = _PRINT_RE.match(line)
                if m:
                    tag, payload = m.group(1), m.group(2)
                    if want_tags is not None and tag not in want_tags:
                        continue
                    try:
                        v = parse_tla_value("<<" + payload + ">>")
                    except Exception:
                        v = [payload]
                    # a single string payload that looks like JSON is decoded
                    if len(v) == 1 and isinstance(v[0], str) and v[0][:1] in "[{":
                        try:
                            v = json.loads(v[0])
                        except ValueError:
                            v = v[0]
                    elif len(v) == 1:
                        v = v[0]
                    res.printed.setdefault(tag, []).append(v)
                    continue
            tail.append(line)
            if len(tail) > 60:
                tail.pop(0)
            m = re.match(r"^(\d+) states generated, (\d+) distinct states found", line)
            if m:
                res.generated = int(m.group(1))
                res.distinct = int(m.group(2))
            m = re.match(r"^The depth of the complete state graph search is (\d+)", line)
            if m:
                res.depth = int(m.group(1))
            if "No error has been found" in line:
                res.ok = True
            m = re.match(r"^Error: Invariant (\S+) is violated", line)
            if m:
                res.violated = m.group(1)
            m = re.match(r"^Error: Action property (\S+) is violated", line)
            if m:
                res.violated = m.group(1)
            if line.startswith("Error: Temporal properties were violated"):
                res.violated = res.violated or "temporal"
            if line.startswith("Error: Deadlock reached"):
                res.violated = res.violated or "Deadlock"
            m = cov_re.match(line)
            if m:
                res.coverage[m.group(1)] = res.coverage.get(m.group(1), 0) + int(m.group(3))
    res.tail = "\n".join(tail)
    if keep_raw:
        res.raw_path = raw
    else:
        shutil.rmtree(meta, ignore_errors=True)
    if not res.ok and res.violated is None:
        raise MachineryError("TLC failed (exit %s): %s\n%s" % (p.returncode, res.cmd, res.tail))
    return res


# --------------------------------------------------------------------------- context

class Ctx:
    def __init__(self, prop, tier="quick", seed=0, repo=None):
        self.prop = prop
        self.tier = tier
        self.seed = seed
        self.repo = repo or os.environ.get("VERIF_REPO", "/repo")
        self.rng = random.Random("%s-%s" % (prop, seed))
        base = os.environ.get("VERIF_SCRATCH") or os.path.join(VERIF, ".work")
        os.makedirs(base, exist_ok=True)
        self.work = tempfile.mkdtemp(prefix="%s-" % prop, dir=base)
        self.t0 = time.time()
        self.violations = []       # (path, msg)
        self.known_hits = {}       # finding id -> count
        self.drifts = []
        self.states = 0
        self.transitions = 0
        self.traces = 0
        self.evaluations = 0
        self.distinct = set()
        self.samples = []
        self.extra = {}
        self.assumptions = []
        self.tlc_runs = []
        self.max_violation_files = 5
        self._findings = None

    # ---- implementation under test
    def import_repo(self):
        lib = os.path.join(self.repo, "lib")
        if lib not in sys.path:
            sys.path.insert(0, lib)
        sys.dont_write_bytecode = True

    # ---- TLC
    def tlc(self, module, cfg, count=True, **kw):
        kw.setdefault("timeout", 900 if self.tier == "quick" else 7200)
        if self.tier == "quick":       # short runs: skip the optimising JIT (halves CPU time of 2-10 s runs)
            kw.setdefault("java_opts", ["-XX:TieredStopAtLevel=1"])
        r = run_tlc(module, cfg, self.work, **kw)
        self.tlc_runs.append({"module": module, "generated": r.generated, "distinct": r.distinct,
                              "depth": r.depth, "wall_s": round(r.wall, 2), "violated": r.violated})
        if count:
            self.states += r.distinct
            self.transitions += r.generated
        return r

    def tlc_must_hold(self, module, cfg, **kw):
        """Model-check a design configuration: a violated invariant here is a defect of the
        specification (it does not depend on /repo), i.e. machinery failure."""
        r = self.tlc(module, cfg, **kw)
        if r.violated:
            raise MachineryError("specification %s violates %s\n%s" % (module, r.violated, r.tail))
        return r

    # ---- bookkeeping
    def case_seen(self, key, nontrivial=True):
        self.evaluations += 1
        if nontrivial:
            self.distinct.add(key if isinstance(key, (str, int, tuple)) else json.dumps(key, sort_keys=True, default=str))

    def sample(self, s, limit=6):
        if len(self.samples) < limit:
            self.samples.append(s)

    def drift(self, what):
        if len(self.drifts) < 50:
            self.drifts.append(what)

    # ---- known findings
    def findings(self):
        if self._findings is None:
            p = os.path.join(VERIF, "known_findings.json")
            self._findings = json.load(open(p))["findings"] if os.path.exists(p) else []
        return [f for f in self._findings if f["property"] == self.prop]

    def known_open(self, fid):
        return any(f["id"] == fid and f["status"] == "open" for f in self.findings())

    def known_hit(self, fid):
        self.known_hits[fid] = self.known_hits.get(fid, 0) + 1

    # ---- violations
    def violation(self, case, msg):
        """Record a property violation with a replayable case."""
        case = dict(case)
        case["property"] = self.prop
        case["message"] = msg
        if len(self.violations) >= self.max_violation_files:
            self.violations.append((self.violations[0][0], msg))
            return
        d = os.path.join(os.environ.get("VERIF_REPLAY_DIR") or os.path.join(VERIF, "replays"), self.prop)
        os.makedirs(d, exist_ok=True)
        blob = json.dumps(case, sort_keys=True, default=_jsonable, indent=1)
        h = hashlib.sha1(blob.encode()).hexdigest()[:12]
        path = os.path.join(d, "%s.json" % h)
        with open(path, "w") as f:
            f.write(blob)
        self.violations.append((path, msg))

    # ---- finish
    def finish(self, level="model_checking"):
        wall = time.time() - self.t0
        cov = {
            "states": self.states,
            "transitions": self.transitions,
            "traces_validated_against_impl": self.traces,
            "evaluations": self.evaluations,
            "distinct_nontrivial": len(self.distinct),
            "samples": self.samples or ["(no sample recorded)"],
            "tlc_runs": self.tlc_runs,
            "spec_drift": self.drifts,
            "known_findings_hit": self.known_hits,
        }
        cov.update(self.extra)
        ev = {
            "property_id": self.prop,
            "tier": self.tier,
            "seed": self.seed,
            "level": level,
            "coverage": cov,
            "assumptions": self.assumptions,
            "wall_s": round(wall, 2),
            "violations": len(self.violations),
            "repo": self.repo,
        }
        evdir = os.environ.get("VERIF_EVIDENCE_DIR") or os.path.join(VERIF, "evidence")
        os.makedirs(evdir, exist_ok=True)
        tmp = os.path.join(evdir, ".%s.json.tmp" % self.prop)
        with open(tmp, "w") as f:
            json.dump(ev, f, indent=1, default=_jsonable)
            f.write("\n")
        os.replace(tmp, os.path.join(evdir, "%s.json" % self.prop))
        for fid, n in sorted(self.known_hits.items()):
            f = [x for x in self.findings() if x["id"] == fid][0]
            print("KNOWN-FINDING: property=%s %s (%d occurrences; id=%s)" % (self.prop, f["signature"], n, fid))
        seen = set()
        for path, msg in self.violations:
            if path in seen:
                continue
            seen.add(path)
            print("VIOLATION property=%s replay=%s" % (self.prop, path))
            print("  " + msg.replace("\n", "\n  ")[:2000])
        self.cleanup()
        return 1 if self.violations else 0

    def cleanup(self):
        shutil.rmtree(self.work, ignore_errors=True)


def raised_by_code_under_test(exc, repo=None):
    """True when the innermost frame of the exception's traceback lies in the repository under
    test: such an exception is an observation about the code, not a harness failure."""
    import traceback
    repo = os.path.realpath(repo or os.environ.get("VERIF_REPO", "/repo"))
    tb = traceback.extract_tb(exc.__traceback__)
    return bool(tb) and os.path.realpath(tb[-1].filename).startswith(repo + os.sep)


def _jsonable(o):
    if isinstance(o, bytes):
        return {"__bytes__": o.decode("latin-1")}
    if isinstance(o, (set, frozenset)):
        return sorted(o, key=repr)
    if isinstance(o, tuple):
        return list(o)
    return repr(o)


def unbytes(o):
    """Inverse of the bytes encoding used in replay files."""
    if isinstance(o, dict):
        if set(o) == {"__bytes__"}:
            return o["__bytes__"].encode("latin-1")
        return {k: unbytes(v) for k, v in o.items()}
    if isinstance(o, list):
        return [unbytes(v) for v in o]
    return o


# --------------------------------------------------------------------------- trace batches

def validate_traces(ctx, module, cfg, traces, extra_env=None, workers=1, controls=(), **kw):
    """Write `traces` (a list; each trace is a list of events, or any JSON value the trace
    module understands) to a file and let TLC validate them all in one invocation.
    The trace module prints <<"ACCEPTED", tid>> for every trace it can explain completely
    and may print <<"AT", tid, l>> progress markers. Returns (accepted_ids, progress dict)."""
    fd, path = tempfile.mkstemp(prefix="traces-", suffix=".json", dir=ctx.work)   # unique: validations may run in parallel
    os.close(fd)
    nreal = len(traces)
    traces = list(traces) + list(controls)   # corrupted copies: the trace module must reject them
    with open(path, "w") as f:
        f.write(json.dumps(traces))      # dumps() uses the C encoder; dump(f) the slow pure-Python one
    env = {"TRACE_FILE": path}
    if extra_env:
        env.update(extra_env)
    r = ctx.tlc(module, cfg, workers=workers, env=env, want_tags={"ACCEPTED", "AT", "REJECT"}, **kw)
    if r.violated:
        raise MachineryError("trace module %s reported %s\n%s" % (module, r.violated, r.tail))
    acc = set()
    for v in r.printed.get("ACCEPTED", []):
        acc.add(v if isinstance(v, int) else v[0])
    bad = [i for i in acc if i > nreal]
    all_real_accepted = all(i in acc for i in range(1, nreal + 1))
    # controls are corrupted copies of recorded traces: when the code under test is broken a
    # corruption can accidentally repair an already wrong trace, so an accepted control only
    # proves vacuity when every real trace of the batch was accepted
    if bad and all_real_accepted:
        raise MachineryError("trace module %s accepted %d corrupted control trace(s): binding is vacuous" % (module, len(bad)))
    ctx.extra["negative_controls_rejected"] = ctx.extra.get("negative_controls_rejected", 0) + len(controls)
    prog = {}
    for v in r.printed.get("AT", []):
        tid, l = v[0], v[1]
        if l > prog.get(tid, 0):
            prog[tid] = l
    return acc, prog, r
