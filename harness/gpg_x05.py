"""X05 (b) helpers: debian.deb822.GpgInfo -- tokenizer (status output -> tokens of spec/GpgStatus.tla),
concretizer (tokens -> text, sizes per notes/SIZE_STRESS.md), input forms (str / list / bytes through
a gpgv stand-in / the real gpgv), and the executor that runs a concrete script of calls against the
real class and logs the events validated by spec/TraceX05G.tla.  Expected values come from TLC."""
import copy
import io
import os
import subprocess

from removals_x05 import LENS, heavy_len, heavy_count, word

FIXED = {"GOODSIG": 1, "VALIDSIG": 2, "EXPSIG": 3, "EXPKEYSIG": 4, "REVKEYSIG": 5, "BADSIG": 6, "NEWSIG": 7,
         "KEY_CONSIDERED": 8, "PROGRESS": 9, "NEWSI": 10, "[GNUPG:]": 11}
FIXED_TEXT = {v: k for k, v in FIXED.items()}
EMPTY_KEY = -1000
IGNORED = (7, 8, 9)
HEADER = "[GNUPG:]"
ARG_CH = "0123456789ABCDEFabcdefghijklmnopqrstuvwxyz/+-._:<>@"
ODD_ARGS = ["é中ü", "<john@example.org>", "(comment)", "-", "0", "\t", "a\tb", "[x]", "%20", "[GNUPG:]x", "=", "ü"]
PLAIN_KW = ["SIG_ID", "ERRSIG", "NO_PUBKEY", "TRUST_UNDEFINED", "TRUST_ULTIMATE", "KEYEXPIRED", "NODATA", "ERROR",
            "PLAINTEXT", "UNEXPECTED", "IMPORT_OK", "X"]
ARGLESS_KW = ["BADARMOR", "GOODMDC", "TRUST_ULTIMATE", "DECRYPTION_OKAY", "GOT_IT", "KEYREVOKED", "RSA_OR_IDEA", "KEY_CONSIDERED", "PROGRESS"]
NOISE = ["gpgv: Signature made Thu May  1 06:32:46 2008 UTC", "gpgv:                using DSA key D14219877A786561",
         "", "gpgv: Good signature from \"John\"", "GOODSIG A B", "[GNUPG:]", " [GNUPG:] GOODSIG A B", "[gnupg:] VALIDSIG a",
         "x[GNUPG:] GOODSIG A B", "[GNUPG:]\tVALIDSIG a", "[GNUPG:]GOODSIG A B", "#", "[GNUPG: ] GOODSIG A B"]
FORMS = ("str", "strnl", "list", "listnl", "tuple", "bytes", "bytesnl", "byteslist", "byteslistnl", "bytesio")
CAT = ["/bin/sh", "-c", "cat"]


class GIntern:
    def __init__(self):
        self.ids = dict(FIXED)
        self.next = 20

    def __call__(self, text):
        i = self.ids.get(text)
        if i is None:
            i = self.ids[text] = self.next
            self.next += 1
        return i

    def key(self, text):
        """an observed dictionary key -> id (a known word, '' or a known word without its last character)"""
        if text in self.ids:
            return self.ids[text]
        if text == "":
            return EMPTY_KEY
        cands = [i for t, i in self.ids.items() if t[:-1] == text and len(t) == len(text) + 1]
        if len(cands) == 1:
            return -cands[0]
        return self(text)


def gtok(text, intern, nl=False):
    """one line of status output -> tokens of GpgStatus.tla (nl: the list item carries a trailing newline)"""
    out, i, n = [], 0, len(text)
    while i < n:
        if text[i] == " ":
            out.append({"c": "SP", "i": 0})
            i += 1
            continue
        j = i + 1
        while j < n and text[j] != " ":
            j += 1
        w = text[i:j]
        out.append({"c": "H" if (w == HEADER and not out) else "W", "i": intern(w)})
        i = j
    if nl:
        out.append({"c": "NL", "i": 12})
    return out


def gids(text, intern):
    return [t["i"] for t in gtok(text, intern)]


def proj_map(d, intern):
    """observed GpgInfo -> entries of a trace event; anything that is not str -> [str] gets an entry no
    specification mapping contains"""
    out = []
    for k, v in d.items():
        if not isinstance(k, str) or not isinstance(v, list) or any(not isinstance(x, str) for x in v):
            out.append({"key": 999999, "val": []})
            continue
        out.append({"key": intern.key(k), "val": [gids(x, intern) for x in v]})
    return out


# ------------------------------------------------------------------ concretization

def arg_word(rng, style="plain"):
    if style == "long":
        return word(rng, heavy_len(rng), ARG_CH)
    if style == "odd" and rng.random() < 0.5:
        return rng.choice(ODD_ARGS)
    return word(rng, rng.randint(1, 16), ARG_CH)


class GConc:
    """ids of a TLC case -> text (fixed words keep their text; every other id gets a fresh word)"""

    def __init__(self, rng, style="plain"):
        self.rng, self.style, self.text = rng, style, dict(FIXED_TEXT)
        self.text[0] = " "
        self.used = set(FIXED)

    def __call__(self, i):
        if i not in self.text:
            while True:
                w = arg_word(self.rng, self.style) if self.style != "canon" else "w%d" % i
                if w not in self.used and w[:-1] not in FIXED and w + "G" not in FIXED:
                    break
            self.used.add(w)
            self.text[i] = w
        return self.text[i]

    def line(self, toks):
        """-> (text without newline, has NL token)"""
        nl = bool(toks) and toks[-1]["c"] == "NL"
        body = toks[:-1] if nl else toks
        return "".join(self(t["i"]) for t in body), nl

    def key(self, k):
        if k == EMPTY_KEY:
            return ""
        return self(-k)[:-1] if k < 0 else self(k)

    def value(self, val):
        return ["".join(self(i) for i in item) for item in val]

    def mapping(self, entries):
        return {self.key(e["key"]): self.value(e["val"]) for e in entries}


# ------------------------------------------------------------------ driving the real class

def make_input(lines, nls, form):
    """lines: texts; nls: per line, does the list item end in a newline (TLC's NL token; only the list
    forms can express a mix) -> the `out` argument / the bytes for from_sequence"""
    if form == "str":
        return "\n".join(lines)
    if form == "strnl":
        return "".join(l + "\n" for l in lines)
    if form == "list":
        return list(lines)
    if form == "tuple":
        return tuple(lines)
    if form == "listnl":
        return [l + "\n" for l in lines]
    if form == "mixed":
        return [l + ("\n" if n else "") for l, n in zip(lines, nls)]
    if form == "bytes":
        return "\n".join(lines).encode("utf-8")
    if form == "bytesnl":
        return "".join(l + "\n" for l in lines).encode("utf-8")
    if form == "byteslist":
        return [l.encode("utf-8") for l in lines]
    if form == "byteslistnl":
        return [(l + "\n").encode("utf-8") for l in lines]
    if form == "bytesio":
        return io.BytesIO("".join(l + "\n" for l in lines).encode("utf-8"))
    raise ValueError(form)


def is_bytes_form(form):
    return form.startswith("bytes")


def call(lines, nls, form, err=None):
    """-> ("ok", GpgInfo) or (exception name, None)"""
    from debian.deb822 import GpgInfo
    try:
        inp = make_input(lines, nls, form)
        if is_bytes_form(form):
            return "ok", GpgInfo.from_sequence(inp, keyrings=["/dev/null"], executable=CAT)
        if err is None:
            return "ok", GpgInfo.from_output(inp)
        return "ok", GpgInfo.from_output(inp, err)
    except Exception as e:          # noqa: BLE001 -- observation
        return type(e).__name__, None


def seen_lines(lines, nls, form):
    """the lines from_output iterates over, as (text, trailing newline?) -- what the tokens describe"""
    if form in ("str", "bytes", "byteslist"):
        return [(l, False) for l in lines]
    if form in ("strnl", "bytesnl", "byteslistnl", "bytesio"):
        return [(l, False) for l in lines] + [("", False)]
    if form == "listnl":
        return [(l, True) for l in lines]
    if form == "mixed":
        return list(zip(lines, nls))
    return [(l, False) for l in lines]


def real_gpgv(repo, name):
    """(status lines printed by the real gpgv for a signed fixture, bytes of the fixture, keyring) or None"""
    tests = os.path.join(repo, "lib", "debian", "tests")
    keyring = os.path.join(tests, "test-keyring.gpg")
    if name == "changes":
        try:
            from debian.tests import test_deb822 as t
            data = (t.SIGNED_CHECKSUM_CHANGES_FILE % t.CHECKSUM_CHANGES_FILE).encode()
        except Exception:           # noqa: BLE001
            return None
    else:
        path = os.path.join(tests, name)
        if not os.path.exists(path):
            return None
        data = open(path, "rb").read()
    if not (os.path.exists("/usr/bin/gpgv") and os.path.exists(keyring)):
        return None
    p = subprocess.run(["/usr/bin/gpgv", "--status-fd", "1", "--keyring", keyring], input=data, capture_output=True)
    try:
        out = p.stdout.decode("utf-8")
    except UnicodeDecodeError:
        return None
    return out.split("\n"), data, keyring


def exec_script(script, repo="/repo"):
    """run a concrete script against the real class -> trace events (TraceX05G)"""
    from debian.deb822 import GpgInfo
    intern = GIntern()
    objs, events, inputs = {}, [], []
    for op in script:
        k = op["op"]
        if k == "call":
            if op["form"] == "gpgv":
                got = real_gpgv(repo, op["file"])
                if got is None:
                    continue
                lines, data, keyring = got
                inp = data if op.get("how") == "bytes" else (data.splitlines() if op.get("how") == "lines" else io.BytesIO(data))
                try:
                    st, g = "ok", GpgInfo.from_sequence(inp, keyrings=[keyring])
                except Exception as e:      # noqa: BLE001
                    st, g = type(e).__name__, None
                seen = [(l, False) for l in lines]
            else:
                lines, nls = op["lines"], op.get("nls") or [False] * len(op["lines"])
                if not is_bytes_form(op["form"]):
                    inp = make_input(lines, nls, op["form"])
                    before = copy.copy(inp)
                    try:
                        st, g = "ok", (GpgInfo.from_output(inp) if op.get("err") is None else GpgInfo.from_output(inp, op["err"]))
                    except Exception as e:  # noqa: BLE001
                        st, g = type(e).__name__, None
                    if inp != before:
                        st, g = "input-mutated", None
                    inputs.append(inp)
                else:
                    st, g = call(lines, nls, op["form"])
                seen = seen_lines(lines, nls, op["form"])
            toks = [gtok(l, intern, nl) for l, nl in seen]
            if st != "ok":
                ev = {"op": "call", "id": op["id"], "lines": toks, "map": [{"key": 999998, "val": []}], "valid": False,
                      "known": False, "exc": st}
            else:
                objs[op["id"]] = g
                ev = {"op": "call", "id": op["id"], "lines": toks, "map": proj_map(g, intern), "valid": False,
                      "known": bool(op.get("known"))}
                try:
                    ev["valid"] = bool(g.valid())
                except Exception as e:      # noqa: BLE001
                    ev["map"].append({"key": 999997, "val": []})
                    ev["exc"] = "valid() raised " + type(e).__name__
            events.append(ev)
        elif k == "recheck":
            g = objs.get(op["id"])
            if g is None:
                continue
            ev = {"op": "recheck", "id": op["id"], "map": proj_map(g, intern), "valid": False}
            try:
                ev["valid"] = bool(g.valid())
            except Exception:               # noqa: BLE001
                ev["map"].append({"key": 999997, "val": []})
            events.append(ev)
        elif k == "mutate":
            g = objs.get(op["id"])
            if g is None:
                continue
            how = op.get("how", "append")
            if how == "append" and g:
                next(iter(g.values())).append("leak")
            elif how == "setkey":
                g["GOODSIG"] = ["leak", "leak"]
            else:
                g.clear()
            events.append({"op": "mutate", "id": op["id"]})
        else:
            raise ValueError(k)
    return events


# ------------------------------------------------------------------ random scripts

def status_line(rng, style="plain"):
    x = rng.random()
    if x < 0.3:
        kw = rng.choice(("GOODSIG", "BADSIG", "EXPSIG", "EXPKEYSIG", "REVKEYSIG", "GOODSIG"))
        keyid = word(rng, 16, "0123456789ABCDEF")
        if rng.random() < 0.1:
            return "%s %s %s" % (HEADER, kw, keyid)
        n = heavy_count(rng, 257) if style == "long" and rng.random() < 0.3 else rng.randint(1, 4)
        uid = (" " * rng.choice((1, 1, 1, 2))).join(arg_word(rng, style) for _ in range(max(1, n)))
        if rng.random() < 0.1:
            uid = uid + rng.choice((" ", "  x"))
        return "%s %s %s %s" % (HEADER, kw, keyid, uid)
    if x < 0.45:
        n = rng.choice((1, 3, 10))
        return "%s VALIDSIG %s" % (HEADER, " ".join(arg_word(rng, style) for _ in range(n)))
    if x < 0.6:
        kw = rng.choice(("NEWSIG", "KEY_CONSIDERED", "PROGRESS"))
        if kw == "NEWSIG" and rng.random() < 0.5:
            return "%s NEWSIG" % HEADER
        return "%s %s %s" % (HEADER, kw, " ".join(arg_word(rng, style) for _ in range(rng.randint(1, 4))))
    kw = rng.choice(PLAIN_KW) if rng.random() < 0.8 else word(rng, heavy_len(rng) if style == "long" else rng.randint(1, 12),
                                                               "ABCDEFGHIJKLMNOPQRSTUVWXYZ_")
    if kw in FIXED or kw[:-1] in FIXED or kw + "G" in FIXED:
        kw = "KW_" + kw
    n = rng.randint(1, 5)
    if style == "long" and rng.random() < 0.3:
        n = max(1, heavy_count(rng, 1025))
    return "%s %s %s" % (HEADER, kw, " ".join(arg_word(rng, style) for _ in range(n)))


def random_lines(rng, style="plain", nmax=None):
    n = nmax if nmax is not None else (heavy_count(rng, 1025) if style == "long" else rng.randint(0, 9))
    lines, pool = [], []
    for _ in range(n):
        x = rng.random()
        if x < 0.25:
            lines.append(rng.choice(NOISE))
        elif x < 0.4 and pool:
            # a keyword again: identical line, or the same keyword with other arguments
            old = rng.choice(pool)
            if rng.random() < 0.4:
                lines.append(old)
            else:
                parts = old.split(" ")
                lines.append(" ".join(parts[:2] + [arg_word(rng, style) for _ in range(rng.randint(1, 3))]))
        else:
            l = status_line(rng, style)
            lines.append(l)
            pool.append(l)
    return lines


def random_script(rng, ncalls=4, style="plain"):
    script, ids = [], []
    for c in range(1, ncalls + 1):
        form = rng.choice(FORMS) if rng.random() < 0.45 else rng.choice(("str", "strnl", "list", "listnl", "mixed"))
        lines = random_lines(rng, style if c == 1 else "plain")
        if form in ("byteslist", "byteslistnl") and not lines:
            form = "bytes"
        if is_bytes_form(form):
            lines = [l for l in lines if "\t" not in l or True]
        op = {"op": "call", "id": c, "form": form, "lines": lines, "nls": [rng.random() < 0.5 for _ in lines]}
        if not is_bytes_form(form) and rng.random() < 0.3:
            op["err"] = rng.choice(("gpgv: stderr text\n[GNUPG:] GOODSIG E E\n", ["[GNUPG:] VALIDSIG e\n", "x\n"], ""))
        script.append(op)
        ids.append(c)
        for _ in range(rng.randint(0, 2)):
            x = rng.random()
            if x < 0.6:
                script.append({"op": "recheck", "id": rng.choice(ids)})
            else:
                script.append({"op": "mutate", "id": rng.choice(ids), "how": rng.choice(("append", "setkey", "clear"))})
    for c in ids:
        script.append({"op": "recheck", "id": c})
    return script


def argless_script(rng):
    kw = rng.choice(ARGLESS_KW + ["GOODSIG", "VALIDSIG", "BADSIG"])
    lines = random_lines(rng, "plain", rng.randint(0, 3))
    lines = [l for l in lines if l.split(" ")[1:2] != [kw]]
    lines.insert(rng.randint(0, len(lines)), "%s %s" % (HEADER, kw))
    form = rng.choice(("str", "strnl", "list", "listnl", "bytes", "byteslist"))
    return [{"op": "call", "id": 1, "form": form, "lines": lines, "nls": [False] * len(lines), "known": True},
            {"op": "recheck", "id": 1}]


def control_traces(traces, eligible):
    """corrupted copies that TraceX05G must reject (eligible: traces without undecided lines)"""
    out = []

    def find(pred):
        for n, t in enumerate(traces):
            if n not in eligible:
                continue
            for i, e in enumerate(t):
                if pred(t, i, e):
                    return copy.deepcopy(t), i
        return None, None

    ok_call = lambda t, i, e: e["op"] == "call" and not e["known"] and "exc" not in e     # noqa: E731
    t, i = find(lambda t, i, e: ok_call(t, i, e) and e["map"])
    if t:
        t[i]["map"].pop()
        out.append(t)
    t, i = find(lambda t, i, e: ok_call(t, i, e) and any(x["val"] for x in e["map"]))
    if t:
        x = [x for x in t[i]["map"] if x["val"]][0]
        x["val"] = x["val"][:-1]
        out.append(t)
    t, i = find(lambda t, i, e: ok_call(t, i, e))
    if t:
        t[i]["valid"] = not t[i]["valid"]
        out.append(t)
    t, i = find(lambda t, i, e: ok_call(t, i, e))
    if t:
        t[i]["map"].append({"key": 7, "val": []})                       # NEWSIG stored
        out.append(t)
    t, i = find(lambda t, i, e: e["op"] == "recheck" and e["map"] and not any(p["op"] == "mutate" and p["id"] == e["id"] for p in t[:i]))
    if t:
        t[i]["map"][0]["val"] = t[i]["map"][0]["val"] + [[1]]
        out.append(t)

    # first occurrence instead of the last one
    def dup(t, i, e):
        if not ok_call(t, i, e):
            return False
        heads = [tuple(x["i"] for x in l[:3]) for l in e["lines"] if len(l) >= 5 and l[0]["c"] == "H" and l[2]["i"] not in IGNORED]
        return len(set(heads)) < len(heads)
    t, i = find(dup)
    if t:
        e = t[i]
        first = {}
        for l in e["lines"]:
            if len(l) >= 5 and l[0]["c"] == "H" and l[2]["i"] not in IGNORED:
                first.setdefault(l[2]["i"], l)
        changed = False
        for x in e["map"]:
            l = first.get(x["key"])
            if l is not None and x["key"] not in (1, 3, 4, 5, 6):
                val = [[tk["i"]] for tk in l[4:] if tk["c"] == "W"]
                if val != x["val"]:
                    x["val"] = val
                    changed = True
        if changed:
            out.append(t)
    return out
