"""X07 helper: conversions, payload pools, class factories and the executor that drives real
RestrictedWrapper objects (used by harness/props/x07.py).  Nothing here decides a verdict: the
conversion functions are INPUTS of the subsystem under test (they are handed to RestrictedField),
the executor returns what the real object did."""
import io
import operator
import types

import core

BOUNDARY = [1, 2, 7, 8, 9, 15, 16, 17, 31, 32, 33, 63, 64, 65, 71, 72, 73, 79, 80, 81, 127, 128, 129, 255, 256, 257,
            1023, 1024, 1025, 4095, 4096, 4097, 8191, 8192, 8193]
# tokens without any white space (re \s), '|', '!', str.splitlines() boundaries
TOKENS = ["foo", "Bar", "x1", "GPL-2+", "*.c", "src/*", "a.b", "Zz9", "debian/*", "MIT", "l-1.0", "q?", "\\*"]
ODD_TOKENS = ["café", "café", "Å", "Å", "Ω", "Ω", "ﬁ", "fi", "Ａ", "A​",
              "가", "가", "ß", "ss", "İ", "ı", "ſ", "ś", "ς", "σ",
              "\U00010400", "\U00010428", "﻿z", "z﻿z", "z‍z", "z‌z", "z­z", "‎z",
              "\U0001f600", "\U0010ffff", "́z", "類", "a​b"]
# free text (values of plain fields): white-space look-alikes inside, continuation lines
TEXTS = ["1", "2", "foo (>= 1.0), bar", "x\n continued\n .\n more", "a: b", "#no comment", "éà 中",
         "café ÅΩ ﬁ", "café ÅΩ fi", "x﻿y‍z", "a b　c d",
         "\U0001f600 \U0010ffff", "t\n ́lone-mark\n ﻿bom-line", "tab\tsep\tonly", "﻿start", "1.0",
         "https://example.org/x/", "Some One <one@example.org>", ""]
NAME_POOL = ["X-Foo", "Origin", "Vcs-Git", "Homepage", "X-Files", "My-Special-Field", "Bugs", "Section", "Zz9",
             "X-Comment", "Package", "Version"]
# case-mapping hazards: DIFFERENT names (only ASCII case folding may be assumed; none of them folds onto another
# name of a scenario under str.lower())
HAZARD_NAMES = ["Fileſ", "Licenſe", "Straße", "Commenʈ", "Formaŧ"]


def tail_char(rng):
    """a character whose UTF-8 encoding ends in a chosen trailing byte 0x80..0xBF"""
    return chr(0x400 + rng.randrange(64))


def ascii_swap(rng, s):
    """a case variant that changes ASCII letters only"""
    how = rng.randrange(4)
    out = []
    for i, ch in enumerate(s):
        if "a" <= ch <= "z" or "A" <= ch <= "Z":
            if how == 0:
                ch = ch.lower()
            elif how == 1:
                ch = ch.upper()
            elif how == 2:
                ch = ch.upper() if i % 2 else ch.lower()
            else:
                ch = ch.swapcase()
        out.append(ch)
    return "".join(out)


def ascii_lower(s):
    return "".join(chr(ord(c) + 32) if "A" <= c <= "Z" else c for c in s)


def token(rng, stress=0):
    """stress 0: tame; 1: odd characters; 2: boundary length"""
    if stress == 0:
        return rng.choice(TOKENS)
    if stress == 1:
        t = rng.choice(ODD_TOKENS)
        if rng.random() < 0.5:
            t = t + tail_char(rng)
        if rng.random() < 0.3:
            t = rng.choice(TOKENS) + t
        return t
    n = rng.choice([x for x in BOUNDARY if x <= (8193 if rng.random() < 0.1 else 1025)])
    base = rng.choice(TOKENS)
    return (base * (n // len(base) + 1))[:n]


def text(rng, stress=0, single=False):
    if stress == 0:
        return rng.choice(["1", "2", "foo (>= 1.0), bar", "a: b", "1.0", "Some One <one@example.org>"])
    if stress == 1:
        t = rng.choice([x for x in TEXTS if not (single and "\n" in x)])
        if rng.random() < 0.4:
            t = t + "w" + tail_char(rng)
        return t
    n = rng.choice([x for x in BOUNDARY if x <= (8193 if rng.random() < 0.1 else 1025)])
    if single or rng.random() < 0.5:
        return "v" * n
    lines = rng.choice([2, 10, 11, 100, 101])
    return "first\n" + "\n".join(" line %d %s" % (i, "y" * (n % 90)) for i in range(lines))


# ------------------------------------------------------------------ conversions defined by the harness

class ConvFail(Exception):
    """raised by the harness' own conversion functions"""


class Tag(object):
    """a value object: the note is not stored (lossy conversion)"""
    __slots__ = ("text", "note")

    def __init__(self, text, note=""):
        self.text = text
        self.note = note

    def __eq__(self, other):
        return type(other) is Tag and (self.text, self.note) == (other.text, other.note)

    def __ne__(self, other):
        return not self == other

    def __hash__(self):
        return hash((self.text, self.note))

    def __repr__(self):
        return "Tag(%r, %r)" % (self.text, self.note)

    @staticmethod
    def from_str(s):
        if s is None:
            return None
        if s.startswith("!"):
            raise ConvFail("cannot parse %r" % s[:20])
        return Tag(s)

    def to_str(self):
        if self.note == "FAIL":
            raise ConvFail("cannot store")
        if self.text == "":
            return None
        return self.text


class BarList(object):
    """'|'-separated tuples; ASCII spaces around items are dropped (lossy)"""

    @staticmethod
    def from_str(s):
        return tuple(x for x in (p.strip(" ") for p in (s or "").split("|")) if x)

    @classmethod
    def to_str(cls, seq):
        items = list(seq)
        if not items:
            return None
        out = []
        for s in items:
            s = s.strip(" ")
            if not s or "|" in s:
                raise ConvFail("bad item")
            out.append(s)
        return " | ".join(out)


def one_line(s):
    if "\n" in s:
        raise ConvFail("must be a single line")
    return s


class Conv(object):
    """a conversion pair with generators of concrete payloads.
    kind: id | sl | list | obj | objn (abstract tables of spec/RestrictedWrapMC.tla)"""

    def __init__(self, cid, kind, from_str, to_str, fails, lib=False, sep=None):
        self.cid = cid
        self.kind = kind
        self.from_str = from_str
        self.to_str = to_str
        self.fails = tuple(fails)
        self.lib = lib
        self.sep = sep

    # -- application (the harness applies the INPUT functions to fill tables / derive raws)
    def apply_to(self, v):
        """-> ('raw', str) | ('none',) | ('fail',)"""
        if self.to_str is None:
            return ("raw", v)
        try:
            r = self.to_str(v)
        except self.fails:
            return ("fail",)
        return ("none",) if r is None else ("raw", r)

    def apply_from(self, raw):
        """raw: str or None -> ('val', value) | ('fail',)"""
        if self.from_str is None:
            return ("val", raw)
        try:
            return ("val", self.from_str(raw))
        except self.fails:
            return ("fail",)

    # -- payloads
    def values(self, rng, stress):
        """dict sym -> python value for the symbols the kind offers, and 'X' -> a raw no to_str produces"""
        k = self.kind
        if k in ("id", "sl"):
            single = k == "sl"
            a, b, x = text(rng, stress, single), text(rng, stress, single), text(rng, stress, single)
            seen = set()
            out = {}
            for sym, v in (("A", a), ("B", b), ("X", x)):
                while v in seen:
                    v = v + "'"
                seen.add(v)
                out[sym] = v
            if single:
                out["f"] = out["A"] + "\n" + out["B"]
            return out
        if k == "list":
            t1, t2, t3, t4, t5 = (token(rng, stress) for _ in range(5))
            t3 = t3 + "3"
            if self.cid == "LineBased":
                a = (t1 + " " + t2, t2) if stress else (t1, t2)
                a2 = (" " + a[0] + "　", a[1] + "\t")
                f = (t1, "   ") if rng.random() < 0.5 else (t1 + "\n" + t2,)
                X = "  p" + t4 + "\n   q" + t5 + "  "
            elif self.cid == "SpaceSep":
                a = (t1, t2)
                a2 = [t1, t2]
                f = (t1 + " " + t2,) if rng.random() < 0.5 else (t1, " ")
                X = "  p" + t4 + " \t q" + t5 + " "
            else:
                a = (t1 + " " + t2, t2) if stress == 1 else (t1, t2)
                a2 = (" " + a[0], a[1] + "  ") if rng.random() < 0.5 else list(a)
                f = (t1, "  ") if rng.random() < 0.5 else (t1 + "|" + t2,)
                X = "p" + t4 + "|q" + t5
            b = (t3,)
            if stress == 2 and rng.random() < 0.5:     # count stress: many items
                n = rng.choice([9, 10, 11, 16, 17, 31, 32, 33, 99, 100, 101, 255, 256, 257])
                b = tuple("%s%d" % (t3[:8], i) for i in range(n))
            return {"a": a, "a2": a2, "b": b, "e": () if rng.random() < 0.7 else [], "f": f, "X": X}
        if self.cid == "License":
            from debian.copyright import License
            s1, s2 = token(rng, stress), token(rng, stress) + "2"
            if stress == 0:
                body = "line one\n\nline three"
            elif stress == 1:
                body = "\n".join([rng.choice(TEXTS[:3] + TEXTS[6:12]).replace("\n", " "), "", " indented " + tail_char(rng),
                                  "x﻿y", "́mark"])
            else:
                n = rng.choice([10, 11, 100, 101, 255, 256, 257])
                body = "\n".join("text line %d %s" % (i, "z" * rng.choice([1, 63, 64, 65, 79, 80, 81])) for i in range(n))
            twin = body + "\n" if rng.random() < 0.5 else body.replace("\n\n", "\n \t\n", 1)
            if twin == body:
                twin = body + "\n"
            return {"a": License(s1, body), "a2": License(s1, twin), "b": License(s2), "X": s2 + "\n\tcontinued with a tab"}
        # Tag
        t1, t2, t3 = text(rng, stress, True), text(rng, stress, True) + "2", token(rng, stress)
        if t1 == "" or t1.startswith("!"):
            t1 = "t" + t1
        out = {"a": Tag(t1), "a2": Tag(t1, "a remark " + t3), "b": Tag(t2), "f": Tag(t3, "FAIL"), "X": "!" + t3}
        if k == "objn":
            out["e"] = Tag("", "x") if rng.random() < 0.5 else Tag("")
        return out


def same(v, w):
    """equal values of the same type (a tuple is not a list)"""
    return type(v) is type(w) and v == w


def own_convs():
    return {
        "id": Conv("id", "id", None, None, ()),
        "sl": Conv("one_line", "sl", None, one_line, (ConvFail,)),
        "list": Conv("BarList", "list", BarList.from_str, BarList.to_str, (ConvFail,)),
        "obj": Conv("Tag", "obj", Tag.from_str, Tag.to_str, (ConvFail,)),
        "objn": Conv("Tagn", "objn", Tag.from_str, Tag.to_str, (ConvFail,)),
    }


def lib_convs():
    """the conversion functions debian.copyright declares its fields with (private names: the caller
    turns an AttributeError into drift)"""
    from debian import copyright as C
    E = (C.MachineReadableFormatError,)
    return {
        "id": Conv("id", "id", None, None, ()),
        "single": Conv("single", "sl", None, C._single_line, E, lib=True),
        "LineBased": Conv("LineBased", "list", C._LineBased.from_str, C._LineBased.to_str, E, lib=True),
        "SpaceSep": Conv("SpaceSep", "list", C._SpaceSeparated.from_str, C._SpaceSeparated.to_str, E, lib=True),
        "License": Conv("License", "obj", C.License.from_str, C.License.to_str, E, lib=True),
    }


# the RestrictedField declarations of debian.copyright as documented (attribute, field, conversion, allow_none)
LIB_CLASSES = {
    "Header": [("format", "Format", "single", False), ("upstream_name", "Upstream-Name", "single", True),
               ("upstream_contact", "Upstream-Contact", "LineBased", True), ("source", "Source", "id", True),
               ("disclaimer", "Disclaimer", "id", True), ("comment", "Comment", "id", True),
               ("license", "License", "License", True), ("copyright", "Copyright", "id", True),
               ("files_excluded", "Files-Excluded", "LineBased", True),
               ("files_included", "Files-Included", "LineBased", True)],
    "FilesParagraph": [("files", "Files", "SpaceSep", False), ("copyright", "Copyright", "id", False),
                       ("license", "License", "License", False), ("comment", "Comment", "id", True)],
    "LicenseParagraph": [("license", "License", "License", False), ("comment", "Comment", "id", True),
                         ("_LicenseParagraph__files", "Files", "id", True)],
}


class FieldSpec(object):
    def __init__(self, attr, name, conv, an):
        self.attr = attr
        self.name = name
        self.conv = conv
        self.an = an


# ------------------------------------------------------------------ class factories

_counter = [0]


def restricted_field(rng, fs):
    """every way of writing the declaration (positional / keyword / defaults left out)"""
    from debian.deb822 import RestrictedField
    style = rng.randrange(4)
    fr, to = fs.conv.from_str, fs.conv.to_str
    if style == 0:
        return RestrictedField(fs.name, fr, to, fs.an)
    if style == 1:
        return RestrictedField(name=fs.name, from_str=fr, to_str=to, allow_none=fs.an)
    kw = {}
    if fr is not None or style == 3:
        kw["from_str"] = fr
    if to is not None or style == 3:
        kw["to_str"] = to
    if not fs.an or style == 3:
        kw["allow_none"] = fs.an
    return RestrictedField(fs.name, **kw)


def make_class(rng, bases, fields, label="K"):
    """define a RestrictedWrapper subclass with the given RestrictedField attributes through one of the
    public ways of creating a class; ordinary attributes and methods are mixed in"""
    _counter[0] += 1
    cname = "%s%d" % (label, _counter[0])
    attrs = {}
    decls = [(fs.attr, restricted_field(rng, fs)) for fs in fields]
    filler = [("helper_%d" % _counter[0], lambda self: 1), ("CONSTANT", "Files"), ("__doc__", "test wrapper")]
    items = decls + filler
    rng.shuffle(items)
    attrs.update(items)
    how = rng.randrange(3)
    if how == 0:
        return type(bases[0])(cname, tuple(bases), attrs)
    if how == 1:
        return types.new_class(cname, tuple(bases), {}, lambda ns: ns.update(attrs))
    ns = {"_bases": tuple(bases), "_attrs": attrs}
    src = "class %s(*_bases):\n" % cname + "".join("    %s = _attrs[%r]\n" % (k, k) for k in attrs if k.isidentifier()) + "    pass\n"
    exec(src, ns)
    return ns[cname]


def lib_class(name):
    from debian import copyright as C
    return getattr(C, name)


def attach(rng, cls, data, libname=None):
    """construct a wrapper of cls over the Deb822 `data` whatever its content: the constructors of the
    debian.copyright classes validate their input, so `data` is given valid content for the call and its
    content is restored afterwards through the paragraph itself (the owner keeps a reference)"""
    if libname is None:
        return cls(data) if rng.random() < 0.8 else cls(data=data)
    from debian import copyright as C
    saved = [(k, data[k]) for k in data]
    for k in list(data):
        del data[k]
    if libname == "Header":
        data["Format"] = C._CURRENT_FORMAT
        w = cls(data) if rng.random() < 0.7 else cls(data=data)
    elif libname == "FilesParagraph":
        v = rng.randrange(4)
        if v == 0:
            w = cls(data, _internal_validate=False)
        else:
            data["Files"] = "*"
            data["Copyright"] = "x"
            data["License"] = "y"
            w = cls(data) if v == 1 else (cls(data, True, True) if v == 2 else cls(data, strict=False))
    else:
        if rng.random() < 0.5:
            w = cls(data, _internal_validate=False)
        else:
            data["License"] = "y"
            w = cls(data)
    for k in list(data):
        del data[k]
    for k, v in saved:
        data[k] = v
    return w


# ------------------------------------------------------------------ executor

def classify(ex, fails):
    from debian import deb822
    if type(ex) is deb822.RestrictedFieldError:
        if not isinstance(ex, deb822.Error):
            return "EXC:RestrictedFieldError-not-deb822.Error"
        return "RestrictedFieldError"
    if fails and isinstance(ex, fails):
        return "ConvError"
    if type(ex) is KeyError:
        return "KeyError"
    if type(ex) is TypeError:
        return "TypeError"
    return "EXC:" + type(ex).__name__


def dump_via(w, rng, mode=None):
    """one of the documented forms of dump(); returns (mode, text)"""
    mode = rng.randrange(8) if mode is None else mode
    if mode == 0:
        return mode, w.dump()
    if mode == 1:
        return mode, w.dump(None)
    if mode == 2:
        f = io.StringIO()
        r = w.dump(f, text_mode=True)
        return mode, f.getvalue() if r is None else "dump(fd) returned %r" % (r,)
    if mode == 3:
        f = io.BytesIO()
        r = w.dump(f)
        return mode, f.getvalue().decode("utf-8") if r is None else "dump(fd) returned %r" % (r,)
    if mode == 4:
        f = io.BytesIO()
        w.dump(f, "utf-16")
        return mode, f.getvalue().decode("utf-16")
    if mode == 5:
        f = io.BytesIO()
        w.dump(fd=f, encoding="utf-8", text_mode=False)
        return mode, f.getvalue().decode("utf-8")
    if mode == 6:
        f = io.StringIO()
        w.dump(f, None, True)
        return mode, f.getvalue()
    return mode, w.dump(fd=None, encoding=None, text_mode=False)


def perform(obj, op, key=None, raw=None, attr=None, val=None, fails=(), rng=None):
    """one public call on a wrapper (or, for dset / ddel, on the paragraph itself).
    -> (tag, payload): ok | val | attr | keys | len | bool | dump | err"""
    pick = rng.randrange if rng is not None else (lambda n: 0)
    try:
        if op == "getitem":
            v = pick(3)
            r = obj[key] if v == 0 else (obj.__getitem__(key) if v == 1 else operator.getitem(obj, key))
            return ("val", r)
        if op in ("setitem", "dset"):
            v = pick(3)
            if v == 0:
                obj[key] = raw
            elif v == 1:
                obj.__setitem__(key, raw)
            else:
                operator.setitem(obj, key, raw)
            return ("ok", "")
        if op in ("delitem", "ddel"):
            v = pick(3)
            if v == 0:
                del obj[key]
            elif v == 1:
                obj.__delitem__(key)
            else:
                operator.delitem(obj, key)
            return ("ok", "")
        if op == "aget":
            v = pick(3)
            if v == 0:
                return ("attr", getattr(obj, attr))
            if v == 1:
                return ("attr", getattr(type(obj), attr).fget(obj))
            return ("attr", getattr(type(obj), attr).__get__(obj, type(obj)))
        if op == "aset":
            v = pick(3)
            if v == 0:
                setattr(obj, attr, val)
            elif v == 1:
                getattr(type(obj), attr).fset(obj, val)
            else:
                getattr(type(obj), attr).__set__(obj, val)
            return ("ok", "")
        if op == "iter":
            v = pick(4)
            ks = list(obj) if v == 0 else ([k for k in obj] if v == 1 else (list(iter(obj)) if v == 2 else list(obj.__iter__())))
            return ("keys", ks)
        if op == "len":
            v = pick(3)
            n = len(obj) if v < 2 else obj.__len__()
            if v == 1 and bool(obj) != (n > 0):
                return ("len", -1)
            return ("len", n)
        if op == "has":
            v = pick(2)
            return ("bool", (key in obj) if v == 0 else operator.contains(obj, key))
        if op == "dump":
            return ("dump", dump_via(obj, rng if rng is not None else _Zero()))
        raise AssertionError(op)
    except AssertionError:
        raise
    except Exception as ex:      # noqa: BLE001 -- an exception of the code under test is an observation
        if not (core.raised_by_code_under_test(ex) or isinstance(ex, (ConvFail, KeyError, TypeError, AttributeError))):
            raise
        return ("err", classify(ex, fails))


class _Zero(object):
    def randrange(self, n):
        return 0

    def random(self):
        return 0.0
