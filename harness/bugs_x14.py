"""X14 part (a) helpers: ChangeBlock.bugs_closed / lp_bugs_closed against spec/BugsClosed.tla.

* symbols <-> characters: `concretize` turns a text over the symbols of the specification into change lines
  (seeded; odd characters, every ASCII case, optional size stretch), `abstract` maps real change lines back to
  symbols (the abstraction function of the trace leg);
* `Driver`: every public way of getting a block that holds given change lines, and of asking it;
* `gen_lines`: realistic and hostile change texts for the recorded histories.
Nothing here decides a verdict: expected numbers come from TLC (CASE lines / trace validation)."""
import random

import gen_x14 as cc

ASCII_WS = " \t\n\r\f\v"
LETTERS = "closebugp"
# "x": any other character -- not white space, not a decimal digit, not one of the letters the grammar names (in
# any case, also under Unicode case folding), not ':' '#' ','
_X_POOL = list("adfhijkmnqrtvwyzADFHIJKMNQRTVWYZ.;()[]{}<>-_/*\"'!?=+@&%$^~|\\") + [
    "\u00e9", "e\u0301", "\u00df", "\u0130", "\u0131", "\u212a", "\u212b", "\u2126", "\ufb01", "\uff21", "\u4e2d", "\U0001f600",
    "\U0010ffff", "\ufeff", "\u200b", "\u200d", "\u00ad", "\u200e", "\uff1a", "\uff03", "\uff0c", "\u0441", "\u0435", "\u043e",
    "\u0421", "\u03c3", "\u03c2", "\u0301", "\x00", "\x7f"] + [chr(0x400 + i) for i in range(0x40)]
ODD_WS = ["\u00a0", "\u2003", "\u3000", "\u2028", "\u2029", "\x85", "\x1c", "\x1d", "\x1e", "\x1f", "\u2009", "\u1680"]
ODD_DIGIT = ["\u0661", "\uff11", "\u09ed", "\u0967", "\U0001d7ce"]
ODD_S = ["\u017f"]


def _is_x(ch):
    if ch.isspace() or ch.isdecimal() or ch.isdigit() or ch in ":#,":
        return False
    return not any(c in LETTERS for c in (ch.lower() + ch.casefold() + ch.upper().lower()))


X_POOL = [c for c in _X_POOL if all(_is_x(k) for k in c)]
assert len(X_POOL) > 100 and all(c.isspace() and c not in ASCII_WS for c in ODD_WS)
assert all(c.isdecimal() and not c.isascii() for c in ODD_DIGIT)

BIG_NUMBERS = ["9", "10", "99", "100", "32768", "65536", "2147483647", "2147483648", "4294967295", "4294967296",
               "9223372036854775807", "9223372036854775808", "1000000000000000000", "340282366920938463463374607431768211456"]


class Conc(object):
    """one seeded concretization of symbol texts.  stretch: 0 none, 1 long digit runs / junk, 2 extreme"""

    def __init__(self, seed, odd_ws_ok=True, stretch=0, multi_ws=True):
        self.rng = random.Random("x14a-%s" % (seed,))
        self.stretch = stretch
        self.multi_ws = multi_ws
        r = self.rng
        self.seven = r.choice("123456789")
        self.zero = "0"
        if stretch:
            self.seven = r.choice(BIG_NUMBERS)
            self.zero = "0" * r.choice([1, 2, 3, 17, 33])
        self.junk = 1 if not stretch else cc.pick_len(r, 1, 8193 if stretch > 1 else 1025)

    def char(self, sym):
        r = self.rng
        if sym in LETTERS:
            return sym.upper() if r.random() < 0.4 else sym
        if sym in ":#,":
            return sym
        if sym == "w":
            if self.multi_ws and r.random() < 0.25:
                return r.choice("\t\t\r\f\v\n")
            return " " if r.random() < 0.8 else "\t"
        if sym == "x":
            if self.junk > 1 and r.random() < 0.5:
                return "".join(r.choice(X_POOL) for _ in range(self.junk))
            return r.choice(X_POOL)
        if sym == "0":
            return self.zero
        if sym in "123456789":
            return self.seven if sym == "7" else sym
        if sym == "W":
            return r.choice(ODD_WS)
        if sym == "D":
            return r.choice(ODD_DIGIT)
        if sym == "S":
            return r.choice(ODD_S)
        raise AssertionError(sym)

    def lines(self, text):
        """symbol text -> list of change lines ('n' = boundary between two lines)"""
        out, cur = [], []
        for sym in text:
            if sym == "n":
                out.append("".join(cur))
                cur = []
            else:
                cur.append(self.char(sym))
        out.append("".join(cur))
        return out

    def number(self, digits):
        """expected value of a number TLC reports as a digit-symbol string"""
        return int("".join(self.zero if d == "0" else self.seven if d == "7" else d for d in digits))


def abstract(lines):
    """real change lines -> symbols of BugsClosed (the joined text; digits stay themselves)"""
    out = []
    for i, line in enumerate(lines):
        if i:
            out.append("n")
        for ch in line:
            lo = ch.lower()
            if ch.isascii():
                if ch in "0123456789":
                    out.append(ch)
                elif ch in ASCII_WS:
                    out.append("w")
                elif lo in LETTERS or ch in ":#,":
                    out.append(lo)
                elif ch.isspace():            # \x1c .. \x1f: white space for str.isspace / \s only
                    out.append("W")
                else:
                    out.append("x")
            elif ch.isspace():
                out.append("W")
            elif ch.isdecimal() or ch.isdigit():
                out.append("D")
            elif ch == "\u017f":
                out.append("S")
            else:
                out.append("x")
    return out


def digits_of(n):
    return list(str(n)) if isinstance(n, int) and not isinstance(n, bool) and n >= 0 else ["?", repr(n)[:40]]


# ------------------------------------------------------------------ entry points

HOW_BUILD = ("ctor_kw", "ctor_pos", "new_block", "add_change", "block_add_change", "extend", "parse", "reuse")
HOW_ASK = ("attr", "lp_first", "getattr", "fget", "twice")


class Driver(object):
    """blocks holding given change lines, through every public way; earlier blocks stay alive"""

    def __init__(self):
        self.alive = []        # (block, lines) of earlier cases: re-asked later
        self.shared = None     # one long-lived block whose lines are replaced (a result must follow the CURRENT lines)

    def build(self, lines, how, rng):
        from debian import changelog as C
        lines = list(lines)
        blank = any(not l.strip() for l in lines)
        if how in ("add_change", "block_add_change") and blank:
            how = "ctor_kw"                    # add_change re-orders around blank lines (part (b)); keep the text as given
        if how == "parse" and not all(parseable_change(l) for l in lines):
            how = "ctor_pos"
        if how == "ctor_kw":
            return C.ChangeBlock(changes=lines)
        if how == "ctor_pos":
            return C.ChangeBlock("pkg", "1.0", "unstable", "low", None, lines)
        if how == "new_block":
            cl = C.Changelog()
            cl.new_block(package="p", version="1", changes=lines)
            return cl[0]
        if how == "add_change":
            cl = C.Changelog()
            cl.new_block(package="p", version="1")
            for l in lines:
                cl.add_change(l)
            return next(iter(cl))
        if how == "block_add_change":
            b = C.ChangeBlock()
            for l in lines:
                b.add_change(l)
            return b
        if how == "extend":
            b = C.ChangeBlock(changes=[rng.choice(["  * closes: #999999", "  * lp: #888888", "x"])])
            del b.changes()[:]
            b.changes().extend(lines)
            return b
        if how == "parse":
            text = "pkg (1.0-1) unstable; urgency=low\n" + "".join(l + "\n" for l in lines) + \
                   " -- A B <a@b.c>  Mon, 01 Jan 2001 10:00:00 +0000\n\nold (0.1) unstable; urgency=low\n\n  * closes: #777777, lp: #66\n\n" \
                   " -- A B <a@b.c>  Mon, 01 Jan 2001 10:00:00 +0000\n"
            form = rng.choice(["str", "bytes", "stringio", "list_nl", "list", "iter"])
            cl = C.Changelog(cc.make_source(text, form), strict=True)
            b = cl[rng.choice(["1.0-1", 0, -2])]
            if list(b.changes()) != lines:
                raise AssertionError("harness: the parser did not keep the change lines as written")
            return b
        if how == "reuse":
            if self.shared is None:
                self.shared = C.ChangeBlock(changes=["  * closes: #424242", "  * LP: #4343"])
            b = self.shared
            b.changes()[:] = lines
            return b
        raise AssertionError(how)

    def ask(self, b, how):
        """-> (closes, lp) as returned (lists of int expected)"""
        from debian import changelog as C
        if how == "getattr":
            return getattr(b, "bugs_closed"), getattr(b, "lp_bugs_closed")
        if how == "fget":
            return C.ChangeBlock.bugs_closed.fget(b), C.ChangeBlock.lp_bugs_closed.fget(b)
        if how == "twice":
            c1, l1 = b.bugs_closed, b.lp_bugs_closed
            for r in (c1, l1):
                if isinstance(r, list):          # mutate what was handed out: the next answer must not care
                    r.append(31337)
                    r.reverse()
            return b.bugs_closed, b.lp_bugs_closed
        if how == "lp_first":
            lp = b.lp_bugs_closed
            return b.bugs_closed, lp
        return b.bugs_closed, b.lp_bugs_closed


def parseable_change(line):
    """a line the strict parser keeps as a change line of a well-formed block (two blanks + text, DESIGN D1)"""
    return (line.startswith("  ") and line.strip() != "" and not any(c in cc.D1 for c in line))


# ------------------------------------------------------------------ texts for the recorded histories

KEYWORDS = ["Closes:", "closes:", "CLOSES:", "cLoSeS:", "Closes :", "Close:", "closes", "Closes;", "(Closes:", "LP:", "lp:", "Lp:", "LP :",
            "LP", "lp;", "Fixes:", "closes: closes:", "uncloses:", "XLP:", "bug", "Bug#", "#"]
SEPS = [", ", ",", ",  ", " , ", ",\t", "; ", " ", ", and ", ",,", ", bug", ", Bug#", ", bug #", ", # ", ", #", " #", ",#", ", closes: ", ", LP: "]
PREFIX = ["", "#", " #", "# ", "bug", "bug#", "Bug #", "bug # ", "BUG#", " bug", "  ", "\t#", "#  ", "bug  ", "##", "b#", "bu#", " #", "# ",
          " ", "ſ", "＃"]


def gen_number(rng, stress):
    r = rng.random()
    if stress and r < 0.4:
        return ("0" * rng.choice([0, 0, 1, 5])) + rng.choice(BIG_NUMBERS)
    if r < 0.1:
        return "0" * rng.choice([1, 2, 3]) + str(rng.randrange(1000))
    if r < 0.15:
        return rng.choice(ODD_DIGIT) + str(rng.randrange(100))
    if r < 0.2:
        return str(rng.randrange(100)) + rng.choice(ODD_DIGIT + ["a", "."])
    return str(rng.randrange(1, 10 ** rng.choice([1, 3, 6, 7])))


def gen_announcement(rng, stress, count=None):
    kw = rng.choice(KEYWORDS[:4] + KEYWORDS[9:12]) if rng.random() < 0.7 else rng.choice(KEYWORDS)
    lp = kw.lower().startswith("lp")
    n = count if count is not None else rng.choice([1, 1, 1, 2, 3, 4])
    s = kw + rng.choice([" ", " ", "", "  ", "\t", "\n", " "])
    for i in range(n):
        if i:
            s += rng.choice(SEPS[:3]) if rng.random() < 0.7 else rng.choice(SEPS)
            if rng.random() < 0.1:
                s += "\n    "
        pre = "#" if rng.random() < (0.85 if lp else 0.5) else rng.choice(PREFIX)
        s += pre + gen_number(rng, stress)
    return s


def gen_lines(rng, stress=0):
    """-> change lines.  stress 0: like real changelogs; 1: hostile; 2: sizes"""
    words = ["fix", "the", "frobnicator", "crash", "on", "startup", "(", ")", "thanks", "to", "upstream", "naïve", "中文", "see", "bug",
             "report", "c", "cl", "clo", "l", "lp", "closes", "close", "es:", ":", "#", "12", "#12", "é", "ſ", " ", "１"]
    n_items = rng.choice([1, 2, 3, 5]) if stress < 2 else rng.choice([9, 10, 17, 33])
    big_list = stress == 2
    text = ""
    for _ in range(n_items):
        text += "\n  * " if rng.random() < 0.6 or not text else " "
        for _ in range(rng.choice([0, 1, 3, 6])):
            text += rng.choice(words) + rng.choice([" ", " ", "", "\n    "])
        r = rng.random()
        if r < 0.75:
            cnt = None
            if big_list and rng.random() < 0.3:
                cnt = rng.choice([31, 32, 33, 99, 100, 101, 255, 256, 257, 1000])
                big_list = cnt < 200
            a = gen_announcement(rng, stress, cnt)
            text += rng.choice(["", "(", " ", "x"]) + a + rng.choice(["", ")", ".", ",", " and more", "0", "x"])
        if stress == 2 and rng.random() < 0.15:
            text += " " + cc.gen_text(rng, cc.pick_len(rng, 64, 4097))
        if stress == 1 and rng.random() < 0.3:
            text += rng.choice(X_POOL + ODD_WS + ODD_S)
        if rng.random() < 0.1:
            text += "\n"                      # an empty change line
    lines = text.split("\n")
    if lines and lines[0] == "":
        lines = lines[1:]
    fixed = []
    for l in lines:
        if l.strip() and rng.random() < 0.9 and not l.startswith("  "):
            l = "  " + l.lstrip(" ")
        fixed.append(l)
    return fixed or [""]
