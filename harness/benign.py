#!/venv/bin/python
"""False-alarm test: runs checks against BENIGN changes kept under /verif/seeded/benign/<PROP>-benign<L>/
(patch.diff, behaviour.py, NOTES.md, meta.json) - realistic changes written by fresh sub-agents that were told to
KEEP the property (refactorings, behaviour the statement leaves open, out-of-domain handling, performance).
For each: copy /repo outside /repo and /verif, apply the patch, run the repository's tests, run behaviour.py with and
without the change (both must exit 0), then run the quick check of the seed's own property AND of every property whose
anchor files the patch touches against the patched copy (VERIF_REPO).  Every check must stay quiet (exit 0).
usage: benign.py [id ...] [--all-checks] [--record]      ingest: benign.py --ingest <worktree> <PROP> P Q R"""
import json
import os
import re
import shutil
import subprocess
import sys
import tempfile
import time

VERIF = os.path.dirname(os.path.dirname(os.path.abspath(__file__)))
BDIR = os.path.join(VERIF, "seeded", "benign")


def anchors():
    out = {}
    for line in open(os.path.join(VERIF, "properties.jsonl")):
        p = json.loads(line)
        out[p["id"]] = set(p["anchors"]["files"])
    return out


def ingest(wt, prop, letters):
    for L in letters:
        src = os.path.join(wt, "seed_" + L)
        dst = os.path.join(BDIR, "%s-benign%s" % (prop, L))
        os.makedirs(dst, exist_ok=True)
        for f in ("patch.diff", "behaviour.py", "NOTES.md"):
            shutil.copy(os.path.join(src, f), os.path.join(dst, f))
        meta = {"property": prop, "expect": "quiet",
                "origin": "fresh sub-agent given only the property text and a scratch worktree, asked for a realistic change that KEEPS the "
                          "property (internal refactoring / behaviour the statement leaves open / out-of-domain handling / performance / "
                          "other subsystem); no access to /verif",
                "notes_excerpt": open(os.path.join(dst, "NOTES.md")).read()[:600], "ran": {}}
        json.dump(meta, open(os.path.join(dst, "meta.json"), "w"), indent=1)
        print("ingested", dst)


def main():
    if "--help" in sys.argv or "-h" in sys.argv:
        print(__doc__)
        return 0
    if "--ingest" in sys.argv:
        a = sys.argv[sys.argv.index("--ingest") + 1:]
        return ingest(a[0], a[1].upper(), a[2:])
    ids = [a for a in sys.argv[1:] if not a.startswith("--")]
    anc = anchors()
    base = tempfile.mkdtemp(prefix="pd-benign-", dir="/tmp")
    rows = []
    try:
        for name in sorted(os.listdir(BDIR)) if os.path.isdir(BDIR) else []:
            d = os.path.join(BDIR, name)
            if not os.path.exists(os.path.join(d, "meta.json")):
                continue
            if ids and name not in ids and not any(name.startswith(i) for i in ids):
                continue
            meta = json.load(open(os.path.join(d, "meta.json")))
            root = os.path.join(base, name)
            shutil.copytree("/repo", root, ignore=shutil.ignore_patterns(".git", "__pycache__", ".pytest_cache"))
            p = subprocess.run(["patch", "-p1", "-s", "-i", os.path.join(d, "patch.diff")], cwd=root, capture_output=True, text=True)
            if p.returncode:
                rows.append((name, "PATCH-DOES-NOT-APPLY " + p.stdout[-200:]))
                print(*rows[-1], flush=True)
                continue
            touched = set(re.findall(r"^\+\+\+ b/(\S+)", open(os.path.join(d, "patch.diff")).read(), re.M))
            t = subprocess.run(["/venv/bin/python", "-m", "pytest", "-q", "-p", "no:cacheprovider", "lib"], cwd=root, capture_output=True, text=True)
            tests = (t.stdout.strip().splitlines() or ["?"])[-1]
            beh = os.path.join(d, "behaviour.py")
            bm = subprocess.run(["/venv/bin/python", beh, os.path.join(root, "lib")], capture_output=True, text=True, cwd=base)
            bc = subprocess.run(["/venv/bin/python", beh, "/repo/lib"], capture_output=True, text=True, cwd=base)
            props = [meta["property"]] + sorted(k for k, v in anc.items() if k != meta["property"] and (v & touched or "--all-checks" in sys.argv))
            env = dict(os.environ, VERIF_REPO=root, VERIF_EVIDENCE_DIR=os.path.join(base, "ev"), VERIF_REPLAY_DIR=os.path.join(base, "replays"))
            res = {}
            for pr in props:
                t0 = time.time()
                c = subprocess.run([os.path.join(VERIF, "check"), pr, "--tier", "quick"], env=env, capture_output=True, text=True)
                detail = [l for l in c.stdout.splitlines() if l.startswith("  ")][:1]
                res[pr] = "quiet" if c.returncode == 0 else ("ALARM: " + (detail[0].strip()[:300] if detail else "")) if c.returncode == 1 else "ERROR rc=%d %s" % (c.returncode, c.stderr[-300:])
            bad = {k: v for k, v in res.items() if v != "quiet"}
            status = "QUIET" if not bad else "FALSE-ALARM?"
            rows.append((name, "%s | tests: %s | behaviour.py with change rc=%d, without rc=%d | checks run: %s%s"
                         % (status, tests, bm.returncode, bc.returncode, " ".join(props), "".join(" | %s %s" % kv for kv in bad.items()))))
            print(*rows[-1], flush=True)
            if "--record" in sys.argv:
                meta["ran"] = {"tests_with_change": tests, "behaviour_py": "exit %d with the change, %d without" % (bm.returncode, bc.returncode), "quick_checks": res}
                json.dump(meta, open(os.path.join(d, "meta.json"), "w"), indent=1)
            shutil.rmtree(root, ignore_errors=True)
    finally:
        shutil.rmtree(base, ignore_errors=True)
    bad = [r for r in rows if not r[1].startswith("QUIET")]
    print("%d benign changes, %d with an alarm" % (len(rows), len(bad)))
    return 1 if bad else 0


if __name__ == "__main__":
    sys.exit(main())
