"""C16 -- input forms of a copyright document (notes/API_SURFACE.md; notes/SIZE_STRESS.md part 4).

Copyright(sequence) hands `sequence` to Deb822.iter_paragraphs: a str / bytes, a list of lines (str or
bytes, with or without the trailing newline), any iterator of lines, or a text / binary file object.
What a document says does not depend on the form it arrives in, so nothing here decides a verdict: the
expectation of a case is TLC's for the abstract document, the FORM (and the alignment of a line end
with a power-of-two offset) is a dimension of the concretization, recorded in the route string

    fobj:<kind>:<T>:<d>:<w>:<flags>

kind  one of KINDS below;
T     0, or a power of two 2^9..2^17: the text is padded (one early header field, single long line or
      folded) so that the newline ending the w-th line after the header sits at offset T-1+d, d in
      {-1, 0, 1} -- i.e. the line ends one before / exactly at / one after a block boundary; offsets
      count bytes of the UTF-8 text for binary kinds and characters for text kinds; w = -1 is the very
      last newline of the document.  The lines after the header are the Files / Copyright / License /
      tag lines, the continuation lines of multi-line Files fields and the blank separator lines, so w
      walks through "inside a value", "between two fields", "at a paragraph separator" and "at the end";
flags 's' = Copyright(..., strict=False), 'e' = encoding='utf-8' passed explicitly, 'f' = folded pad, 'b' = count
      bytes also for a text kind (the buffer under a text file object works on bytes).
"""
import bz2
import gzip
import io
import lzma
import os
import tempfile

TEXT_KINDS = ["stringio", "lines", "lines-nonl", "gen-str", "whole-str", "file-text", "shortread-text", "gzip-text",
              "spooled-text", "tuple-nonl"]
BIN_KINDS = ["bytesio", "bytes-lines", "gen-bytes", "whole-bytes", "file-bin", "file-unbuf", "shortread", "gzip", "bz2",
             "lzma", "spooled-bin", "bytes-nonl"]
KINDS = TEXT_KINDS + BIN_KINDS
# forms behind which a block-wise reader would sit (they have read())
READ_KINDS = ["stringio", "file-text", "shortread-text", "gzip-text", "spooled-text",
              "bytesio", "file-bin", "file-unbuf", "shortread", "gzip", "bz2", "lzma", "spooled-bin"]
TARGETS = [2 ** k for k in range(9, 18)]
PAD_FIELD = "Comment: s"


class ShortRaw(io.RawIOBase):
    """a raw stream that returns SHORT reads: 1..7 bytes per call"""

    def __init__(self, data):
        super().__init__()
        self._data = data
        self._pos = 0
        self._k = 0

    def readable(self):
        return True

    def readinto(self, b):
        self._k = self._k % 7 + 1
        chunk = self._data[self._pos:self._pos + min(self._k, len(b))]
        b[:len(chunk)] = chunk
        self._pos += len(chunk)
        return len(chunk)


def parse_route(route):
    f = route.split(":")
    return {"kind": f[1], "T": int(f[2]) if len(f) > 2 and f[2] else 0, "d": int(f[3]) if len(f) > 3 and f[3] else 0,
            "w": int(f[4]) if len(f) > 4 and f[4] else 0, "flags": f[5] if len(f) > 5 else ""}


def make_route(kind, T=0, d=0, w=0, flags=""):
    return "fobj:%s:%d:%d:%d:%s" % (kind, T, d, w, flags)


def pad_lines(need, folded):
    """exactly `need` characters of header text: one Comment field (ASCII, so bytes = characters)"""
    base = len(PAD_FIELD) + 1
    if need < base:
        return None
    r = need - base
    if not folded or r < 3:
        return PAD_FIELD + "x" * r + "\n"
    out = [PAD_FIELD + "\n"]
    while r > 0:
        take = 72 if r - 72 >= 3 else r
        out.append(" " + "y" * (take - 2) + "\n")
        r -= take
    return "".join(out)


def steer(header, body, spec):
    """the document text with the chosen line end moved to the chosen offset; returns (text, T actually used)"""
    T, d, w, folded = spec["T"], spec["d"], spec["w"], "f" in spec["flags"]
    if not T:
        return header + body, 0
    binary = spec["kind"] in BIN_KINDS or "b" in spec["flags"]
    measure = (lambda s: len(s.encode("utf-8"))) if binary else len
    ends = [i for i, ch in enumerate(body) if ch == "\n"]
    if not ends:
        return header + body, 0
    at = ends[-1] if w < 0 else ends[w % len(ends)]
    pos = measure(header) + measure(body[:at])          # offset of that newline without a pad
    while True:
        pad = pad_lines(T - 1 + d - pos, folded)
        if pad is not None:
            return header + pad + body, T
        T *= 2


def open_form(kind, text, scratch=None):
    """-> (the object handed to Copyright(...), list of things to close afterwards)"""
    data = text.encode("utf-8")
    lines = text.split("\n")
    if lines and lines[-1] == "":
        lines.pop()
    closers = []

    def tmp(payload, opener=None):
        fd, path = tempfile.mkstemp(prefix="c16-", dir=scratch)
        os.close(fd)
        if opener is None:
            with open(path, "wb") as f:
                f.write(payload)
        else:
            with opener(path, "wb") as f:
                f.write(payload)
        closers.append(path)
        return path

    if kind == "stringio":
        return io.StringIO(text), closers
    if kind == "bytesio":
        return io.BytesIO(data), closers
    if kind == "lines":
        return [ln + "\n" for ln in lines], closers
    if kind == "lines-nonl":
        return list(lines), closers
    if kind == "tuple-nonl":
        return tuple(lines), closers
    if kind == "bytes-lines":
        return [(ln + "\n").encode("utf-8") for ln in lines], closers
    if kind == "bytes-nonl":
        return [ln.encode("utf-8") for ln in lines], closers
    if kind == "gen-str":
        return (ln + "\n" for ln in lines), closers
    if kind == "gen-bytes":
        return ((ln + "\n").encode("utf-8") for ln in lines), closers
    if kind == "whole-str":
        return text, closers
    if kind == "whole-bytes":
        return data, closers
    if kind == "file-text":
        f = open(tmp(data), "rt", encoding="utf-8")
    elif kind == "file-bin":
        f = open(tmp(data), "rb")
    elif kind == "file-unbuf":
        f = open(tmp(data), "rb", buffering=0)
    elif kind == "shortread":
        f = io.BufferedReader(ShortRaw(data), buffer_size=16)
    elif kind == "shortread-text":
        f = io.TextIOWrapper(io.BufferedReader(ShortRaw(data), buffer_size=16), encoding="utf-8")
    elif kind == "gzip":
        f = gzip.GzipFile(tmp(data, gzip.open), "rb")
    elif kind == "gzip-text":
        f = gzip.open(tmp(data, gzip.open), "rt", encoding="utf-8")
    elif kind == "bz2":
        f = bz2.BZ2File(tmp(data, bz2.open), "rb")
    elif kind == "lzma":
        f = lzma.LZMAFile(tmp(data, lzma.open), "rb")
    elif kind == "spooled-bin":
        f = tempfile.SpooledTemporaryFile(max_size=4096, mode="w+b", dir=scratch)
        f.write(data)
        f.seek(0)
    elif kind == "spooled-text":
        f = tempfile.SpooledTemporaryFile(max_size=4096, mode="w+t", encoding="utf-8", newline="\n", dir=scratch)
        f.write(text)
        f.seek(0)
    else:
        raise ValueError("unknown input form %r" % kind)
    closers.insert(0, f)
    return f, closers


def close_all(closers):
    for x in closers:
        try:
            if isinstance(x, str):
                os.unlink(x)
            else:
                x.close()
        except Exception:
            pass


class Schedule:
    """deterministic rotation through kinds x alignments, so that every quick run feeds documents whose
    line ends sit at / next to 4096, 8192, 65536, ... through every kind of file object"""

    def __init__(self, rng, quick):
        self.rng = rng
        self.n = 0
        self.kinds = list(KINDS)
        rng.shuffle(self.kinds)
        self.readk = list(READ_KINDS)
        rng.shuffle(self.readk)
        tg = [4096, 8192, 65536, 131072, 512, 1024, 2048, 16384, 32768]
        self.aligned = [(T, d) for T in tg for d in (0, -1, 1)]
        self.cap = 131072 if not quick else 65536
        self.na = 0
        self.stats = {"kinds": {}, "aligned": {}}

    def plain(self):
        """a form without alignment"""
        self.n += 1
        kind = self.kinds[self.n % len(self.kinds)]
        flags = ("s" if self.n % 5 == 0 else "") + ("e" if self.n % 7 == 0 else "")
        return self._book(make_route(kind, 0, 0, 0, flags))

    def aligned_route(self, nlines_hint=12):
        """the next (target, delta) of the rotation through a file object that has read() (two in three) or any form"""
        T, d = self.aligned[self.na % len(self.aligned)]
        self.na += 1
        if T > self.cap:
            T = 8192
        pool = self.readk if self.na % 3 else self.kinds
        kind = pool[(self.na // 2) % len(pool)]
        w = -1 if self.na % 6 == 0 else self.rng.randrange(max(1, nlines_hint))
        flags = ("f" if self.na % 2 else "") + ("b" if self.na % 4 == 1 else "")
        return self._book(make_route(kind, T, d, w, flags))

    def _book(self, route):
        s = parse_route(route)
        self.stats["kinds"][s["kind"]] = self.stats["kinds"].get(s["kind"], 0) + 1
        if s["T"]:
            key = "%d%+d" % (s["T"], s["d"])
            self.stats["aligned"][key] = self.stats["aligned"].get(key, 0) + 1
        return route
