"""C07 helpers: concretisation of abstract package content and an independent .deb packer
(own ar writer, tarfile + gzip/bz2/lzma; dpkg-deb as a second packer in the thorough tier).

Nothing in here decides a verdict: it turns abstract symbols of spec/DebFile.tla (member names,
file names f1.., blob ids) into real bytes and real bytes back into symbols."""
import bz2
import collections
import gzip
import hashlib
import io
import json
import lzma
import os
import shutil
import subprocess
import sys
import tarfile

import core

CTRL_BASE, DATA_BASE, INFO = "control.tar", "data.tar", "debian-binary"
EXTS = ["", "gz", "bz2", "xz", "lzma"]
MAINT_SCRIPTS = ["preinst", "postinst", "prerm", "postrm", "config"]
CTRL_NAMES = ["control", "md5sums"] + MAINT_SCRIPTS
SPELL = {"plain": "", "dot": "./", "slash": "/"}
UTF8_FS = (sys.getfilesystemencoding() or "").lower().replace("-", "") == "utf8"


# ------------------------------------------------------------------ compression / tar / ar

def compress(ext, raw, level=1):
    """level 1: fast settings (the default lzma preset costs ~4 ms per call); level 2: the tools' defaults"""
    if ext == "":
        return raw
    if ext == "gz":
        return gzip.compress(raw, 6 if level == 1 else 9, mtime=0)
    if ext == "bz2":
        return bz2.compress(raw, 1 if level == 1 else 9)
    if ext == "xz":
        return lzma.compress(raw, format=lzma.FORMAT_XZ, preset=0 if level == 1 else 6)
    if ext == "lzma":
        return lzma.compress(raw, format=lzma.FORMAT_ALONE, preset=0 if level == 1 else 6)
    raise core.MachineryError("no compressor for extension %r" % ext)


def build_tar(files, fmt="gnu", exec_names=()):
    """files: [(name, bytes)] -> tar bytes; members are './name' preceded by './' and the directory
    members './dir/' the way dpkg-deb writes them (DESIGN D5)"""
    buf = io.BytesIO()
    tf = tarfile.GNU_FORMAT if fmt == "gnu" else tarfile.PAX_FORMAT
    with tarfile.open(fileobj=buf, mode="w", format=tf, encoding="utf-8") as t:
        def add_dir(path):
            ti = tarfile.TarInfo(path)
            ti.type = tarfile.DIRTYPE
            ti.mode = 0o755
            t.addfile(ti)
        add_dir("./")
        seen = set()
        for name, data in files:
            parts = name.split("/")[:-1]
            for i in range(len(parts)):
                d = "/".join(parts[:i + 1])
                if d not in seen:
                    seen.add(d)
                    add_dir("./" + d)
            ti = tarfile.TarInfo("./" + name)
            ti.size = len(data)
            ti.mode = 0o755 if name in exec_names else 0o644
            t.addfile(ti, io.BytesIO(data))
    return buf.getvalue()


def ar_chunk(name, data, style="dpkg"):
    """one ar member: 60-byte header + data + pad"""
    nm = name if (style == "dpkg" or len(name) > 15) else name + "/"
    nb = nm.encode("ascii")
    if len(nb) > 16:
        raise core.MachineryError("ar writer: member name too long: %r" % name)
    h = b"%-16s%-12d%-6d%-6d%-8s%-10d`\n" % (nb, 0, 0, 0, b"100644", len(data))
    if len(h) != 60:
        raise core.MachineryError("ar writer: header of %d bytes for %r" % (len(h), name))
    return h + data + (b"\n" if len(data) % 2 else b"")


def build_ar(members, style="dpkg"):
    return b"!<arch>\n" + b"".join(ar_chunk(n, d, style) for n, d in members)


def part_of(name):
    """(kind, ext) of a member name the packer knows how to fill: ('control'|'data', ext) for
    base[.ext] with ext one of the five compressions, else None (foreign)"""
    for kind, base in (("control", CTRL_BASE), ("data", DATA_BASE)):
        if name == base:
            return kind, ""
        if name.startswith(base + ".") and name[len(base) + 1:] in EXTS[1:]:
            return kind, name[len(base) + 1:]
    return None



# ------------------------------------------------------------------ payload shapes (spec/DebPayload.tla)
# TLC enumerates control values and file names at character-CLASS level and says which of them the
# statement covers ("exact": the parse is the packed text) -- only those are used in packages whose
# answers are verdicts; everything else is run in the diagnostic payload leg against the code-level
# prediction TLC printed.  A shape is a string of class letters:
#   x non-space   b SPACE/TAB   v VT FF   s FS GS RS NEL LS PS   u US NBSP U+1680 U+2003 ...   n LF   r CR
CLS = {"b": [" ", " ", " ", "\t"],
       "v": ["\x0b", "\x0c"],
       "s": ["\x1c", "\x1d", "\x1e", "\x85", "\u2028", "\u2029"],
       "u": ["\x1f", "\xa0", "\xa0", "\u1680", "\u2003", "\u2007", "\u202f", "\u205f", "\u3000"],
       "n": ["\n"], "r": ["\r"]}
CLS_ASCII = {"b": CLS["b"], "v": CLS["v"], "s": ["\x1c", "\x1d", "\x1e"], "u": ["\x1f"], "n": ["\n"], "r": ["\r"]}
_ASCII_WORD = "abcdefghijklmnopqrstuvwxyzABCDEFGHIJKLMNOPQRSTUVWXYZ0123456789"
# characters of class x for control values (notes/SIZE_STRESS.md part 2): not NFC/NFKC stable (and their
# precomposed twins), case-mapping hazards, BOM / joiners / bidi marks / soft hyphen, non-BMP, a lone combining
# mark, U+200B (not white space)
X_VALUE = list(_ASCII_WORD) * 2 + list("!\"#$%&'()*+,-./:;<=>?@[\\]^_`{|}~") + [
    "e\u0301", "\xe9", "A\u030a", "\xc5", "\u212b", "\u2126", "\u03a9", "\uf9d0", "\ufb01", "\uff21", "\u1112\u1161\u11ab",
    "\xdf", "\u0130", "\u0131", "\u017f", "\u03c2", "\U00010400", "\ufeff", "\u200d", "\u200c", "\xad", "\u200e", "\u200f",
    "\U0001f600", "\U0010ffff", "\u0301", "\u200b", "\u4e2d", "\u044f", "\xfc"]
X_VALUE_DIAG = [c for c in X_VALUE if c not in (":", "#", "-")]
X_NAME = list(_ASCII_WORD) * 2 + list("-_.+#'(),:;=@~%!") + [
    "e\u0301", "\xe9", "\xfc", "\xdf", "\u4e2d", "\u044f", "\u212b", "\u0130", "\ufb01", "\u200b", "\xad", "\U0001f600", "\ufeff"]
X_NAME_ASCII = [c for c in X_NAME if ord(c[0]) < 128 and len(c) == 1]
TRAIL = [chr(c) for c in range(0x400, 0x440)]       # UTF-8 D0 80 .. D0 BF: every trailing byte at a line / token end
for _pool in (X_VALUE, X_NAME, TRAIL):
    for _c in _pool:
        if any(ch.isspace() for ch in _c) or ("/" in _c and _pool is X_NAME):
            raise core.MachineryError("class x pool contains white space / a slash: %r" % _c)
for _k, _v in CLS.items():
    for _c in _v:
        if not _c.isspace() or (len(("a" + _c + "b").splitlines()) > 1) != (_k in "vsnr"):
            raise core.MachineryError("class %s of the payload model is concretised wrongly by %r" % (_k, _c))
RUN_LONG = [255, 256, 257, 1023, 1024, 1025, 4095, 4096, 4097, 8191, 8192, 8193]
EXTRA_KEYS = ["Comment", "X-Comment", "XB-Note-2", "Origin", "Bugs", "X-Remark", "XS-Testsuite", "Original-Maintainer",
              "X-Summary", "XC-Hint"]

STATS = collections.Counter()       # per process: what the concretisations drew (evidence only)
_SH = {}


def shape_tables(vals, names):
    """VAL / NAME lines of MC_DebPayload*.cfg -> the tables the generators draw from (JSON-able)"""
    def j(seq):
        return "".join(seq)
    ve = sorted(j(l["v"]) for l in vals if l["dom"] == "exact")
    ne = sorted(j(l["nm"]) for l in names if l["dom"] == "exact")
    tab = {"val_exact": ve, "name_exact": ne,
           # file names the md5sums format cannot carry (leading white space): for files that are not listed
           "name_lead": sorted(j(l["nm"]) for l in names if l["dom"] == "unspec"),
           "val_diag": [dict(l, v=j(l["v"])) for l in vals if l["dom"] != "exact"],
           "name_diag": [dict(l, nm=j(l["nm"])) for l in names if l["dom"] != "exact"]}
    if not ve or not ne or not any("s" in v or "v" in v for v in ve) or not any(n[-1] in "bvsu" for n in ne):
        raise core.MachineryError("payload model printed no usable shapes (%d values, %d names)" % (len(ve), len(ne)))
    return tab


def set_shapes(tab):
    _SH.clear()
    _SH.update(tab)
    ve, ne = tab["val_exact"], tab["name_exact"]
    _SH["val_look"] = [v for v in ve if "s" in v or "v" in v]            # a look-alike line boundary inside
    _SH["val_look_multi"] = [v for v in _SH["val_look"] if "n" in v]
    _SH["val_multi"] = [v for v in ve if "n" in v]
    _SH["name_trail"] = [n for n in ne if n[-1] in "bvsu"]               # ends in white space
    _SH["name_look"] = [n for n in ne if "s" in n or "v" in n]
    _SH["name_x"] = [n for n in ne if n[0] == "x"]
    _SH["name_lead_ok"] = [n for n in tab["name_lead"] if any(c == "x" for c in n)]


def char_class(ch):
    """abstraction of a character to its class of spec/DebPayload.tla"""
    if ch == "\n":
        return "n"
    if ch == "\r":
        return "r"
    if ch in " \t":
        return "b"
    if not ch.isspace():
        return "x"
    bound = len(("a" + ch + "b").splitlines()) > 1
    return ("v" if ch in "\x0b\x0c" else "s") if bound else "u"


def name_listable(name):
    """NameDom of DebPayload.tla: a name is "exact" iff it is non-empty, has no LF / CR and its first character
    is of class x; any other name (leading white space) is never put into an md5sums list whose answer is a verdict"""
    return bool(name) and char_class(name[0]) == "x" and "\n" not in name and "\r" not in name


def load_shapes(work):
    """replay workers are forked before TLC has printed the shapes: they read them from the run's scratch directory"""
    path = os.path.join(work, "payload_shapes.json")
    if _SH.get("_path") != path:
        with open(path) as f:
            set_shapes(json.load(f))
        _SH["_path"] = path


def save_shapes(work, tab):
    with open(os.path.join(work, "payload_shapes.json"), "w") as f:
        json.dump(tab, f)
    set_shapes(tab)
    _SH["_path"] = os.path.join(work, "payload_shapes.json")


def _shapes(key):
    if key not in _SH:
        raise core.MachineryError("payload shapes of spec/DebPayload.tla are not loaded (%s)" % key)
    return _SH[key]


def take_stats():
    out = dict(STATS)
    STATS.clear()
    return out


def _run(rng, pool, n):
    return "".join(rng.choice(pool) for _ in range(n))


def conc_pieces(rng, shape, xpool, cls=CLS, lens=(1, 1, 2, 3, 5, 8), long_run=False, big=(16, 31, 64, 120)):
    """one string per class symbol; the class of every piece is the symbol's class by construction"""
    out = []
    xs = [i for i, c in enumerate(shape) if c == "x"]
    at_long = rng.choice(xs) if (long_run and xs) else None
    for i, c in enumerate(shape):
        if c == "x":
            n = rng.choice(RUN_LONG) if i == at_long else rng.choice(lens) if rng.random() < 0.93 else rng.choice(big)
            p = _run(rng, xpool, n)
            if rng.random() < 0.25:
                p = p[:-1] + rng.choice(TRAIL) if xpool is not X_NAME_ASCII else p
            out.append(p or "x")
        elif c == "b":
            out.append(_run(rng, cls["b"], 1 if rng.random() < 0.8 else rng.choice([2, 3])))
        elif c in cls:
            out.append(rng.choice(cls[c]))
        else:
            raise core.MachineryError("unknown payload class %r in shape %r" % (c, shape))
    return out


def gen_shape_value(rng, long_run=False):
    """a control field value drawn from the shapes TLC calls exact; half of them carry a look-alike line boundary"""
    r = rng.random()
    key = "val_look" if r < 0.45 else "val_look_multi" if r < 0.55 else "val_multi" if r < 0.7 else "val_exact"
    pool = _shapes(key) or _shapes("val_exact")
    shape = rng.choice(pool)
    STATS["value:" + ("look-alike" if ("s" in shape or "v" in shape) else "plain")] += 1
    if long_run:
        STATS["value:long-run"] += 1
    return "".join(conc_pieces(rng, shape, X_VALUE, long_run=long_run))


def gen_shape_name(rng, dirpart, listed, ascii_only):
    """a file name drawn from the NAME shapes: exact ones for files the md5sums list may name; a top-level
    name with leading white space (md5sums cannot carry it) only for a file that is not listed"""
    r = rng.random()
    if not dirpart and not listed and r < 0.35 and _shapes("name_lead_ok"):
        shape = rng.choice(_shapes("name_lead_ok"))
        STATS["name:leading-ws-unlisted"] += 1
    else:
        key = "name_trail" if r < 0.55 else "name_look" if r < 0.75 else "name_exact"
        pool = _shapes(key)
        if dirpart:
            pool = [n for n in pool if n[0] == "x"] or _shapes("name_x")
        shape = rng.choice(pool)
    shape = shape[:6]       # a prefix of a name shape without LF / CR that does not start with white space is one too
    if shape[-1] in "bvsu":
        STATS["name:trailing-ws"] += 1
    if "s" in shape or "v" in shape:
        STATS["name:look-alike"] += 1
    pieces = conc_pieces(rng, shape, X_NAME_ASCII if ascii_only else X_NAME, CLS_ASCII if ascii_only else CLS,
                         lens=(1, 2, 3, 6, 9), big=(16, 31))
    leaf = "".join(pieces)
    if leaf in (".", ".."):
        leaf = "x" + leaf
    return (dirpart + "/" if dirpart else "") + leaf


# ------------------------------------------------------------------ block-boundary alignment (notes/SIZE_STRESS.md part 4)
ALIGN_TARGETS = [512, 1024, 2048, 4096, 4096, 8192, 8192, 8192, 16384, 32768, 65536, 65536, 131072]


def _line_ends(data):
    ends, at = [], data.find(b"\n")
    while at >= 0:
        ends.append(at + 1)
        at = data.find(b"\n", at + 1)
    return ends


def _pick_alignment(rng, ends, max_pad, min_pad=0, max_target=1 << 17):
    """-> (pad, target, delta, which line) such that after shifting every line end by pad one of them is
    target + delta (the LF is the last byte of a block, or one before / after it)"""
    opts = []
    for t in sorted(x for x in set(ALIGN_TARGETS) if x <= max_target):
        for d in (-1, 0, 0, 1):
            below = [e for e in ends if e + min_pad <= t + d]
            if below and t + d - below[-1] <= max_pad:
                opts.append((t + d - below[-1], t, d, len(below) - 1))
    if not opts:
        return None
    feasible = {o[1] for o in opts}
    t = rng.choice([x for x in ALIGN_TARGETS if x in feasible])
    return rng.choice([o for o in opts if o[1] == t])


def align_fields(rng, fields, small=False):
    """pad the control file so that a line end (between two fields, inside a multi-line value or the end of the
    file) falls on a power of two; -> (fields, description of the alignment or None)"""
    data = render_control(fields)
    ends = _line_ends(data)
    multi = [i for i, (k, v) in enumerate(fields) if "\n" in v and i < len(fields)]
    if multi and rng.random() < 0.4:
        # inside a value: lengthen the first line of a multi-line value; the line ends after it move
        i = rng.choice(multi)
        first_end = len(render_control(fields[:i])) + len(("%s: %s" % (fields[i][0], fields[i][1].split("\n")[0])).encode()) + 1
        later = [e for e in ends if e >= first_end]
        pick = _pick_alignment(rng, later, 9000 if small else 70000, max_target=8192 if small else 1 << 17)
        if pick is None:
            return fields, None
        pad, t, d, _ = pick
        k, v = fields[i]
        head, rest = v.split("\n", 1)
        fields = fields[:i] + [(k, head + "p" * pad + "\n" + rest)] + fields[i + 1:]
        where = "inside-value"
    else:
        over = len(b"X-Pad: \n")
        at = rng.randint(1, max(1, len(fields) - 1))
        start = len(render_control(fields[:at]))
        later = [e for e in ends if e > start] or ends[-1:]
        if rng.random() < 0.3:
            later = later[-1:]          # the very end of the file
        pick = _pick_alignment(rng, later, 9000 if small else 70000, min_pad=over + 1, max_target=8192 if small else 1 << 17)
        if pick is None:
            return fields, None
        pad, t, d, _ = pick
        fields = fields[:at] + [("X-Pad", "p" * (pad - over))] + fields[at:]
        where = "end-of-file" if len(later) == 1 else "between-fields"
    got = _line_ends(render_control(fields))
    if t + d not in got:
        raise core.MachineryError("control file alignment failed: %d not a line end" % (t + d))
    STATS["aligned:control:" + where] += 1
    return fields, {"file": "control", "where": where, "line_end": t + d}


def align_md5(rng, md5, names, small=False):
    """lengthen the name of the first listed file so that a line end of the md5sums file falls on a power of
    two; -> (md5, names, description or None).  The padded name keeps its first and its last character."""
    if not md5:
        return md5, names, None
    ends = _line_ends(render_md5(md5))
    pick = _pick_alignment(rng, ends, 9000 if small else 3000, max_target=8192 if small else 1 << 17)
    if pick is None:
        return md5, names, None
    pad, t, d, _ = pick
    old = md5[0][0]
    new = old[:1] + "p" * pad + old[1:]
    taken = set(names.values())
    if pad == 0:
        new = old
    elif new in taken or any(x.startswith(new + "/") or new.startswith(x + "/") for x in taken):
        return md5, names, None
    md5 = [(new if n == old else n, h) for n, h in md5]
    names = {m: (new if n == old else n) for m, n in names.items()}
    if t + d not in _line_ends(render_md5(md5)):
        raise core.MachineryError("md5sums alignment failed: %d not a line end" % (t + d))
    STATS["aligned:md5sums"] += 1
    return md5, names, {"file": "md5sums", "line_end": t + d, "lines": len(md5)}


# ------------------------------------------------------------------ concrete content

DIRS = ["", "", "usr/bin", "usr/share/doc/pkg", "etc", "usr/lib/x86_64-linux-gnu", "opt/my dir",
        "usr/share/ünï cödé", "var/lib/a b/c d", "usr/share/中文"]
LEAF_CHARS = "abcdefghijklmnopqrstuvwxyzABCXYZ0123456789" + " -_.+#'()," + "éüß中я"
FIELD_POOL = [("Section", "utils"), ("Priority", "optional"), ("Depends", "libc6 (>= 2.34), foo | bar (<< 2:1.0~rc1-3)"),
              ("Homepage", "https://example.org/~user/x?y=1&z=2"), ("Installed-Size", "42"),
              ("X-Custom-Field", "a: b # not a comment"), ("Recommends", "python3:any"),
              ("XB-Note", "café 中文 ü"), ("Multi-Arch", "foreign"),
              ("Built-Using", "gcc-12 (= 12.2.0-14)"), ("Tag", "role::program,\n interface::commandline")]


def gen_leaf(rng, ascii_only=False):
    chars = LEAF_CHARS[:52] + " -_.+#'()," if ascii_only else LEAF_CHARS
    n = rng.choice([1, 3, 6, 9, 14, 30] if rng.random() < 0.97 else [120])
    if n > 100:     # > 100 bytes: GNU long-name / pax header; ASCII so that dpkg-deb can materialise it (NAME_MAX)
        chars = LEAF_CHARS[:52]
    s = "".join(rng.choice(chars) for _ in range(n))
    s = s.strip(" ")
    if not s or s in (".", "..") or s[0] in "/":
        s = "x" + s
    return s


# sizes and lengths the stress concretisations aim at (notes/SIZE_STRESS.md): tar name field 100,
# ustar prefix 155, 255/256, GNU long names beyond; blobs around the decompressors' raw read
# buffers (8 KiB xz/lzma, 128 KiB gz, one 900 kB bz2 block)
NAME_LENGTHS = [95, 97, 98, 99, 100, 101, 102, 153, 154, 155, 156, 157, 253, 254, 255, 256, 257, 300, 1025]
BLOB_SIZES = {1: [8191, 8192, 8193, 12000, 16384, 20000, 40000, 65535, 65537],
              2: [131071, 131073, 200000, 1048576 + 17]}


def gen_long_name(rng, total):
    """an ASCII path of exactly `total` characters made of components of at most 60 characters"""
    parts = []
    left = total
    while left > 0:
        n = min(left, rng.choice([8, 23, 60]))
        if left - n == 1:           # no room for '/x' afterwards: make this component one longer/shorter
            n = n + 1 if n < 60 else n - 1
        parts.append("".join(rng.choice(LEAF_CHARS[:42] + "-_.+ ") for _ in range(n)).replace("..", "ab"))
        left -= n + 1
    p = "/".join(parts)
    # domain: no leading / trailing blank, does not start with './' or '/'
    return "L" + p[1:-1] + "z" if len(p) > 1 else "L"


def gen_names(rng, model_names, canonical=False, long_names=False, listed=None):
    """real path for every model file name (incl. 'absent'); no real name is a maintainer-script /
    control name, equals or is a directory of another one, or starts with '/' or './'.
    long_names: about half of the names get a length around the tar limits (100 / 155 / 255, beyond).
    About 40 % of the names are concretisations of the NAME shapes of spec/DebPayload.tla (white space of every
    kind and look-alike line boundaries inside and at the END of a name; at the start of the leaf below a
    directory; at the start of a top-level name only for files outside `listed`, the model names the md5sums
    list may mention -- None: all)"""
    ascii_only = not UTF8_FS
    out = {}
    used = set(CTRL_NAMES)       # file paths taken
    dirs_used = set()            # every directory on the way to a taken path

    def dirs_of(p):
        parts = p.split("/")[:-1]
        return ["/".join(parts[:j + 1]) for j in range(len(parts))]

    def fresh(p):
        return not (p in used or p in dirs_used or p.startswith("./") or p.startswith("/")
                    or any(d in used for d in dirs_of(p)))

    def take(m, p):
        out[m] = p
        used.add(p)
        dirs_used.update(dirs_of(p))

    canon = ["usr/bin/hello", "usr/share/doc/hello/copyright", "etc/hello.conf"]
    for i, m in enumerate(sorted(n for n in model_names if n not in CTRL_NAMES and n != "absent")):
        if canonical:
            take(m, canon[i] if i < len(canon) else "usr/share/hello/file%d" % i)
            continue
        for _ in range(200):
            if long_names and rng.random() < 0.5:
                p = gen_long_name(rng, rng.choice(NAME_LENGTHS) - 2)     # the tar member is './' + p
                if fresh(p):
                    break
                continue
            d = rng.choice(DIRS)
            if ascii_only and any(ord(c) > 127 for c in d):
                continue
            if rng.random() < 0.4:
                p = gen_shape_name(rng, d, listed is None or m in listed, ascii_only)
            else:
                leaf = gen_leaf(rng, ascii_only) + rng.choice(["", "", ".so.1", ".txt", ".gz", " (copy)"])
                p = (d + "/" if d else "") + leaf
            if fresh(p):
                break
        else:
            raise core.MachineryError("could not generate a fresh file name")
        take(m, p)
    for m in model_names:
        if m in CTRL_NAMES:
            out[m] = m
    if "absent" in model_names:
        p = "no/such file.txt"
        while not canonical or not fresh(p):
            p = rng.choice(["no such dir/", "usr/bin/", "", "etc/"]) + gen_leaf(rng, ascii_only)
            twins = sorted(v for k, v in out.items() if k not in CTRL_NAMES)
            if twins and rng.random() < 0.35:
                # a packed name plus / minus white space at its end is another file: not packed
                t = rng.choice(twins)
                p = t + rng.choice(CLS_ASCII["b"] + CLS_ASCII["u"] if ascii_only else CLS["b"] + CLS["u"] + CLS["v"])
                if t[-1].isspace() and rng.random() < 0.5:
                    p = t.rstrip()
                STATS["name:absent-twin"] += 1
            if p and fresh(p):
                break
        out["absent"] = p
    return out


def gen_big_blob(rng, stress):
    """incompressible (random) or compressible content of a size around a read-buffer boundary"""
    n = rng.choice(BLOB_SIZES[stress])
    if rng.random() < 0.8:
        return rng.randbytes(n)
    unit = ("%d line of text\n" % rng.randrange(10 ** 9)).encode()
    text = bytearray((unit * (n // len(unit) + 1))[:n])
    for t in (4096, 8192, 65536, 131072):       # a line end exactly at a block end (text-mode readers)
        if t <= n:
            text[t - 1] = 10
    return bytes(text)


def gen_fillers(rng, stress, taken):
    """padding files of a stressed package: many (30 / 100+) members with short and long names; they are
    never queried (the abstract content does not mention them), they make the parts long"""
    count = rng.choice([30, 33] if stress == 1 else [99, 100, 101, 130, 257])
    out = []
    for i in range(count):
        r = rng.random()
        if r < 0.25:
            name = "pad/%03d/" % i + gen_long_name(rng, rng.choice(NAME_LENGTHS[:17]) - 10)
        else:
            name = "pad/%03d-%s" % (i, gen_leaf(rng, True))
        if name in taken:
            continue
        taken.add(name)
        body = rng.randbytes(rng.choice([0, 1, 511, 512, 513, 700, 3000])) if r < 0.9 else rng.randbytes(9000)
        out.append((name, body))
    return out


def gen_blob(rng, kind=None):
    kind = kind or rng.choice(["text", "bin", "nul", "empty", "big", "nl"])
    if kind == "empty":
        return b""
    if kind == "text":
        return ("line %d é\n" % rng.randrange(10 ** 6)).encode("utf-8") * rng.randint(1, 4)
    if kind == "nul":
        return b"\0" * rng.randint(1, 5) + bytes(rng.randrange(256) for _ in range(rng.randint(0, 8))) + b"\0"
    if kind == "big":
        return bytes(rng.randrange(256) for _ in range(64)) * rng.randint(9, 40)
    if kind == "nl":
        return rng.choice([b"\n", b"\r\n", b" \n\n", b"x\r", b"\n\nx", b" ", b"\t"])
    return bytes(rng.randrange(256) for _ in range(rng.randint(1, 40)))


def gen_script(rng):
    r = rng.random()
    if r < 0.12:
        return b""
    if r < 0.3:
        return b"#!/bin/sh\nset -e\nexit 0\n"
    body = "#!/bin/sh\n# %d ü\necho '%s'\n" % (rng.randrange(10 ** 6), gen_leaf(rng, True))
    b = body.encode("utf-8")
    if r > 0.85:
        b += bytes(rng.randrange(256) for _ in range(rng.randint(1, 12)))
    if r > 0.7:
        b = b.rstrip(b"\n")
    return b


def gen_fields(rng, canonical=False):
    base = [("Package", "hello" if canonical else "pkg" + "".join(rng.choice("abcdefgh0123456789+.-") for _ in range(rng.randint(1, 8))) + "z"),
            ("Version", "1.0-1" if canonical else rng.choice(["1.0-1", "2:3.4~rc1+dfsg-2.1", "0.0.1", "20260926"])),
            ("Architecture", "all"),
            ("Maintainer", "A Maintainer <a@example.org>" if canonical else "Zoë Müller <zoe@example.org>"),
            ]
    if not canonical:
        extra = rng.sample(FIELD_POOL, rng.randint(0, 5))
        base += extra
        if rng.random() < 0.5:
            rng.shuffle(base)
    desc = "short text" if canonical else "short %d text: with colon" % rng.randrange(1000)
    if not canonical and rng.random() < 0.7:
        desc += "\n long line one\n .\n after the blank é\n  indented more"
    if not canonical and rng.random() < 0.15:
        desc = gen_shape_value(rng)
    base.append(("Description", desc))
    if not canonical and rng.random() < 0.6:
        # values drawn from the shapes spec/DebPayload.tla calls exact: look-alike line boundaries (VT FF FS GS RS
        # NEL LS PS) followed by a blank, Unicode white space, multi-line values -- at any position, also last
        have = {k.lower() for k, _ in base}
        for key in rng.sample(EXTRA_KEYS, rng.choice([1, 1, 2, 3])):
            if key.lower() not in have:
                base.insert(rng.randint(0, len(base)), (key, gen_shape_value(rng, long_run=rng.random() < 0.04)))
    return base


def render_control(fields):
    return "".join("%s: %s\n" % (k, v) for k, v in fields).encode("utf-8")


def render_md5(md5):
    """md5: [(real name, hex)] -> the md5sums file as dpkg writes it"""
    return b"".join(h.encode("ascii") + b"  " + n.encode("utf-8") + b"\n" for n, h in md5)


class Conc:
    """one concretisation of an abstract package content pkg = {c: {name: blob id}, d: {...}, m: {name: sum id}}"""

    def __init__(self, rng, pkg, qnames, canonical=False, names=None, stress=0, align=True):
        """stress 1 / 2 (size dimension, notes/SIZE_STRESS.md): data blobs and some scripts of 8 KiB..64 KiB /
        128 KiB..1 MiB (mostly incompressible, so that the compressed parts exceed the decompressors' read
        buffers), 30 / 100+ padding members, file names around the tar limits"""
        d = pkg["d"] or {}
        m = pkg["m"] or {}
        self.stress = stress
        # names: share the real file names with another package (same names, different contents)
        self.names = names if names is not None else gen_names(rng, set(qnames) | set(d) | set(m), canonical,
                                                                long_names=bool(stress), listed=set(m))
        self.fields = gen_fields(rng, canonical)
        self.aligned = []
        # block-boundary alignment (notes/SIZE_STRESS.md part 4): every stressed and some ordinary concretisations
        do_align = not canonical and align and (stress or rng.random() < 0.06)
        if do_align:
            self.fields, info = align_fields(rng, self.fields, small=not stress)
            self.aligned += [info] if info else []
        self.blob = {}
        taken = set()
        for n, b in sorted(pkg["c"].items()):
            if n in MAINT_SCRIPTS:
                for _ in range(50):
                    s = b"#!/bin/sh\nexit 0\n# %s\n" % n.encode() if canonical else gen_script(rng)
                    if stress and rng.random() < 0.4:
                        s = b"#!/bin/sh\n" + gen_big_blob(rng, 1)
                    if s not in taken:
                        break
                taken.add(s)
                self.blob[b] = s
        kinds = ["text", "nul", "empty", "bin", "big", "nl"]
        for b in sorted(set(d.values())):
            for k in range(50):
                s = (b"hello %d\n" % b) if canonical else gen_blob(rng, None if k else kinds[(b + rng.randrange(2)) % len(kinds)])
                if stress and rng.random() < 0.85:
                    s = gen_big_blob(rng, stress)
                if s not in taken:
                    break
            taken.add(s)
            self.blob[b] = s
        # sum id -> hex digest: the md5 of the blob it was derived from when there is one (id = blob + 100)
        self.sum = {}
        for s in sorted(set(m.values())):
            src = self.blob.get(s - 100)
            self.sum[s] = hashlib.md5(src if src is not None else b"sum-%d" % s).hexdigest()
        self.md5 = [(self.names[n], self.sum[s]) for n, s in sorted(m.items())]
        if not canonical:
            rng.shuffle(self.md5)
        if do_align and names is None:
            self.md5, self.names, info = align_md5(rng, self.md5, self.names, small=not stress)
            self.aligned += [info] if info else []
        self.blob[pkg["c"]["control"]] = render_control(self.fields)
        if "md5sums" in pkg["c"]:
            self.blob[pkg["c"]["md5sums"]] = render_md5(self.md5)
        self.cfiles = [(n, self.blob[b]) for n, b in pkg["c"].items()]
        self.dfiles = [(self.names[n], self.blob[b]) for n, b in d.items()]
        if stress:
            self.dfiles += gen_fillers(rng, stress, set(self.names.values()))
        if not canonical:
            rng.shuffle(self.cfiles)
            rng.shuffle(self.dfiles)
        self.tarfmt = "gnu" if canonical or rng.random() < 0.8 else "pax"
        self.level = 2 if rng.random() < 0.1 else 1
        self._tars = {}

    @classmethod
    def concrete(cls, names, fields, cfiles, dfiles, md5, tarfmt="gnu"):
        """a package given concretely (trace recording): the abstract content is derived from it"""
        c = cls.__new__(cls)
        c.names, c.fields, c.cfiles, c.dfiles, c.md5, c.tarfmt = names, fields, cfiles, dfiles, md5, tarfmt
        c.blob = {}
        c.sum = {}
        c.stress = 0
        c.aligned = []
        c._tars = {}
        return c

    def tar(self, kind):
        if kind not in self._tars:
            if kind == "control":
                self._tars[kind] = build_tar(self.cfiles, self.tarfmt, exec_names=MAINT_SCRIPTS)
            else:
                self._tars[kind] = build_tar(self.dfiles, self.tarfmt)
        return self._tars[kind]

    def payload(self, kind, ext):
        key = (kind, ext)
        if key not in self._tars:
            self._tars[key] = compress(ext, self.tar(kind), getattr(self, "level", 1))
        return self._tars[key]

    def chunk(self, name, style):
        """the complete ar member (header + payload + pad) for a member name, cached"""
        key = ("ar", name, style)
        if key not in self._tars:
            self._tars[key] = ar_chunk(name, member_payload(name, self), style)
        return self._tars[key]

    def to_json(self):
        return {"names": self.names, "fields": [list(f) for f in self.fields],
                "blob": {str(k): v for k, v in self.blob.items()},
                "md5": [list(x) for x in self.md5], "cfiles": [list(x) for x in self.cfiles],
                "dfiles": [list(x) for x in self.dfiles], "tarfmt": self.tarfmt,
                "sum": {str(k): v for k, v in self.sum.items()}, "level": getattr(self, "level", 1),
                "stress": getattr(self, "stress", 0), "aligned": getattr(self, "aligned", []),
                "ar_align": getattr(self, "ar_align", None)}

    @classmethod
    def from_json(cls, j):
        c = cls.__new__(cls)
        c.names = dict(j["names"])
        c.fields = [tuple(f) for f in j["fields"]]
        c.blob = {int(k): v for k, v in j["blob"].items()}
        c.md5 = [tuple(x) for x in j["md5"]]
        c.cfiles = [tuple(x) for x in j["cfiles"]]
        c.dfiles = [tuple(x) for x in j["dfiles"]]
        c.tarfmt = j["tarfmt"]
        c.sum = {int(k): v for k, v in j.get("sum", {}).items()}
        c.level = j.get("level", 1)
        c.stress = j.get("stress", 0)
        c.aligned = j.get("aligned", [])
        c.ar_align = j.get("ar_align")
        c._tars = {}
        return c


_ZST = {}


def foreign_payload(name, conc):
    """bytes for a member the reader must ignore (or reject the package for); deliberately
    plausible: the .bak / .Z / .zst members carry real tarballs"""
    if name == INFO:
        return b"2.0\n"
    if name == "_gpgorigin":
        return b"-----BEGIN PGP SIGNATURE-----\n\niQEzBAABCAAdFiEE\n-----END PGP SIGNATURE-----\n"
    if name.startswith(DATA_BASE):
        return conc.payload("data", "gz")
    if name.endswith(".zst"):
        # a real zstd-compressed tarball where the zstd tool exists (one fixed payload per run)
        if "z" not in _ZST:
            raw = build_tar([("control", b"Package: zst\nVersion: 1\n")])
            z = shutil.which("zstd")
            out = None
            if z:
                p = subprocess.run([z, "-q", "-c"], input=raw, capture_output=True)
                if p.returncode == 0:
                    out = p.stdout
            _ZST["z"] = out or raw
        return _ZST["z"]
    if name.startswith(CTRL_BASE):
        return conc.payload("control", "")
    return b"foreign member " + name.encode("ascii", "replace") + b"\n"


def member_payload(name, conc):
    po = part_of(name)
    if po:
        return conc.payload(po[0], po[1])
    return foreign_payload(name, conc)


def build_deb(mem, conc, style="dpkg"):
    """conc.ar_align = [foreign member name, target]: that member is filled so that the DATA of the member
    after it starts exactly at the target offset (a power of two) of the package file"""
    al = getattr(conc, "ar_align", None)
    if not al or al[0] not in mem[:-1]:
        return b"!<arch>\n" + b"".join([conc.chunk(n, style) for n in mem])
    out = [b"!<arch>\n"]
    at = 8
    for n in mem:
        if n == al[0]:
            size = al[1] - 120 - at
            if size < 0 or size % 2:
                raise core.MachineryError("ar alignment impossible: member %r at %d, target %d" % (n, at, al[1]))
            ch = ar_chunk(n, (b"pad " * (size // 4 + 1))[:size], style)
        else:
            ch = conc.chunk(n, style)
        out.append(ch)
        at += len(ch)
    return b"".join(out)


def plan_ar_align(rng, mem, conc, style="dpkg", pad_name="foo"):
    """put a foreign member in front of one of the parts and choose the power of two its data shall start at"""
    parts = [i for i, n in enumerate(mem) if part_of(n)]
    if pad_name in mem or not parts:
        return mem
    i = rng.choice(parts)
    at = 8 + sum(len(conc.chunk(n, style)) for n in mem[:i])
    targets = [t for t in sorted(set(ALIGN_TARGETS)) if t >= at + 120 and t - at <= 140000]
    if not targets:
        return mem
    conc.ar_align = [pad_name, rng.choice(targets[:4])]
    STATS["aligned:ar-member-start"] += 1
    return mem[:i] + [pad_name] + mem[i:]


# ------------------------------------------------------------------ dpkg-deb as an independent packer

def dpkg_build(workdir, conc, zopt, uniform=True):
    """materialise the concrete content as a directory tree and let dpkg-deb pack it.
    Returns (path of the .deb, None) or (None, reason for skipping)"""
    exe = shutil.which("dpkg-deb")
    if not exe:
        return None, "dpkg-deb not present"
    root = os.path.join(workdir, "tree")
    shutil.rmtree(root, ignore_errors=True)
    try:
        os.makedirs(os.path.join(root, "DEBIAN"))
        for n, b in conc.cfiles:
            p = os.path.join(root, "DEBIAN", n)
            with open(p, "wb") as f:
                f.write(b)
            os.chmod(p, 0o755 if n in MAINT_SCRIPTS else 0o644)
        for n, b in conc.dfiles:
            p = os.path.join(root, n)
            os.makedirs(os.path.dirname(p), exist_ok=True)
            with open(p, "wb") as f:
                f.write(b)
        out = os.path.join(workdir, "dpkg-out.deb")
        cmd = [exe, "--root-owner-group", "-Z" + zopt]
        if not uniform:
            cmd.append("--no-uniform-compression")
        cmd += ["-b", root, out]
        p = subprocess.run(cmd, capture_output=True, text=True, errors="replace")
        if p.returncode != 0 or not os.path.exists(out):
            return None, "dpkg-deb failed: " + (p.stderr or p.stdout).strip()[-200:]
        return out, None
    except OSError as e:
        return None, "cannot materialise the tree: %s" % e
    finally:
        shutil.rmtree(root, ignore_errors=True)


def ar_names(path):
    """member names of an archive according to binutils ar (independent of the code under test)"""
    exe = shutil.which("ar")
    if not exe:
        return None
    p = subprocess.run([exe, "t", path], capture_output=True, text=True)
    if p.returncode != 0:
        return None
    return [l.rstrip("/") for l in p.stdout.splitlines() if l]
