"""C07 helpers: concretisation of abstract package content and an independent .deb packer
(own ar writer, tarfile + gzip/bz2/lzma; dpkg-deb as a second packer in the thorough tier).

Nothing in here decides a verdict: it turns abstract symbols of spec/DebFile.tla (member names,
file names f1.., blob ids) into real bytes and real bytes back into symbols."""
import bz2
import gzip
import hashlib
import io
import lzma
import os
import shutil
import subprocess
import sys
import tarfile

import core

CTRL_BASE, DATA_BASE, INFO = "control.tar", "data.tar", "debian-binary"
EXTS = ["", "gz", "bz2", "xz", "lzma"]
MAINT_SCRIPTS = ["preinst", "postinst", "prerm", "postrm", "config"]
CTRL_NAMES = ["control", "md5sums"] + MAINT_SCRIPTS
SPELL = {"plain": "", "dot": "./", "slash": "/"}
UTF8_FS = (sys.getfilesystemencoding() or "").lower().replace("-", "") == "utf8"


# ------------------------------------------------------------------ compression / tar / ar

def compress(ext, raw, level=1):
    """level 1: fast settings (the default lzma preset costs ~4 ms per call); level 2: the tools' defaults"""
    if ext == "":
        return raw
    if ext == "gz":
        return gzip.compress(raw, 6 if level == 1 else 9, mtime=0)
    if ext == "bz2":
        return bz2.compress(raw, 1 if level == 1 else 9)
    if ext == "xz":
        return lzma.compress(raw, format=lzma.FORMAT_XZ, preset=0 if level == 1 else 6)
    if ext == "lzma":
        return lzma.compress(raw, format=lzma.FORMAT_ALONE, preset=0 if level == 1 else 6)
    raise core.MachineryError("no compressor for extension %r" % ext)


def build_tar(files, fmt="gnu", exec_names=()):
    """files: [(name, bytes)] -> tar bytes; members are './name' preceded by './' and the directory
    members './dir/' the way dpkg-deb writes them (DESIGN D5)"""
    buf = io.BytesIO()
    tf = tarfile.GNU_FORMAT if fmt == "gnu" else tarfile.PAX_FORMAT
    with tarfile.open(fileobj=buf, mode="w", format=tf, encoding="utf-8") as t:
        def add_dir(path):
            ti = tarfile.TarInfo(path)
            ti.type = tarfile.DIRTYPE
            ti.mode = 0o755
            t.addfile(ti)
        add_dir("./")
        seen = set()
        for name, data in files:
            parts = name.split("/")[:-1]
            for i in range(len(parts)):
                d = "/".join(parts[:i + 1])
                if d not in seen:
                    seen.add(d)
                    add_dir("./" + d)
            ti = tarfile.TarInfo("./" + name)
            ti.size = len(data)
            ti.mode = 0o755 if name in exec_names else 0o644
            t.addfile(ti, io.BytesIO(data))
    return buf.getvalue()


def ar_chunk(name, data, style="dpkg"):
    """one ar member: 60-byte header + data + pad"""
    nm = name if (style == "dpkg" or len(name) > 15) else name + "/"
    nb = nm.encode("ascii")
    if len(nb) > 16:
        raise core.MachineryError("ar writer: member name too long: %r" % name)
    h = b"%-16s%-12d%-6d%-6d%-8s%-10d`\n" % (nb, 0, 0, 0, b"100644", len(data))
    if len(h) != 60:
        raise core.MachineryError("ar writer: header of %d bytes for %r" % (len(h), name))
    return h + data + (b"\n" if len(data) % 2 else b"")


def build_ar(members, style="dpkg"):
    return b"!<arch>\n" + b"".join(ar_chunk(n, d, style) for n, d in members)


def part_of(name):
    """(kind, ext) of a member name the packer knows how to fill: ('control'|'data', ext) for
    base[.ext] with ext one of the five compressions, else None (foreign)"""
    for kind, base in (("control", CTRL_BASE), ("data", DATA_BASE)):
        if name == base:
            return kind, ""
        if name.startswith(base + ".") and name[len(base) + 1:] in EXTS[1:]:
            return kind, name[len(base) + 1:]
    return None


# ------------------------------------------------------------------ concrete content

DIRS = ["", "", "usr/bin", "usr/share/doc/pkg", "etc", "usr/lib/x86_64-linux-gnu", "opt/my dir",
        "usr/share/ünï cödé", "var/lib/a b/c d", "usr/share/中文"]
LEAF_CHARS = "abcdefghijklmnopqrstuvwxyzABCXYZ0123456789" + " -_.+#'()," + "éüß中я"
FIELD_POOL = [("Section", "utils"), ("Priority", "optional"), ("Depends", "libc6 (>= 2.34), foo | bar (<< 2:1.0~rc1-3)"),
              ("Homepage", "https://example.org/~user/x?y=1&z=2"), ("Installed-Size", "42"),
              ("X-Custom-Field", "a: b # not a comment"), ("Recommends", "python3:any"),
              ("XB-Note", "café 中文 ü"), ("Multi-Arch", "foreign"),
              ("Built-Using", "gcc-12 (= 12.2.0-14)"), ("Tag", "role::program,\n interface::commandline")]


def gen_leaf(rng, ascii_only=False):
    chars = LEAF_CHARS[:52] + " -_.+#'()," if ascii_only else LEAF_CHARS
    n = rng.choice([1, 3, 6, 9, 14, 30] if rng.random() < 0.97 else [120])
    if n > 100:     # > 100 bytes: GNU long-name / pax header; ASCII so that dpkg-deb can materialise it (NAME_MAX)
        chars = LEAF_CHARS[:52]
    s = "".join(rng.choice(chars) for _ in range(n))
    s = s.strip(" ")
    if not s or s in (".", "..") or s[0] in "/":
        s = "x" + s
    return s


# sizes and lengths the stress concretisations aim at (notes/SIZE_STRESS.md): tar name field 100,
# ustar prefix 155, 255/256, GNU long names beyond; blobs around the decompressors' raw read
# buffers (8 KiB xz/lzma, 128 KiB gz, one 900 kB bz2 block)
NAME_LENGTHS = [95, 97, 98, 99, 100, 101, 102, 153, 154, 155, 156, 157, 253, 254, 255, 256, 257, 300, 1025]
BLOB_SIZES = {1: [8191, 8192, 8193, 12000, 16384, 20000, 40000, 65535, 65537],
              2: [131071, 131073, 200000, 1048576 + 17]}


def gen_long_name(rng, total):
    """an ASCII path of exactly `total` characters made of components of at most 60 characters"""
    parts = []
    left = total
    while left > 0:
        n = min(left, rng.choice([8, 23, 60]))
        if left - n == 1:           # no room for '/x' afterwards: make this component one longer/shorter
            n = n + 1 if n < 60 else n - 1
        parts.append("".join(rng.choice(LEAF_CHARS[:42] + "-_.+ ") for _ in range(n)).replace("..", "ab"))
        left -= n + 1
    p = "/".join(parts)
    # domain: no leading / trailing blank, does not start with './' or '/'
    return "L" + p[1:-1] + "z" if len(p) > 1 else "L"


def gen_names(rng, model_names, canonical=False, long_names=False):
    """real path for every model file name (incl. 'absent'); no real name is a maintainer-script /
    control name, equals or is a directory of another one, or starts with '/' or './'.
    long_names: about half of the names get a length around the tar limits (100 / 155 / 255, beyond)"""
    ascii_only = not UTF8_FS
    out = {}
    used = set(CTRL_NAMES)       # file paths taken
    dirs_used = set()            # every directory on the way to a taken path

    def dirs_of(p):
        parts = p.split("/")[:-1]
        return ["/".join(parts[:j + 1]) for j in range(len(parts))]

    def fresh(p):
        return not (p in used or p in dirs_used or p.startswith("./") or p.startswith("/")
                    or any(d in used for d in dirs_of(p)))

    def take(m, p):
        out[m] = p
        used.add(p)
        dirs_used.update(dirs_of(p))

    canon = ["usr/bin/hello", "usr/share/doc/hello/copyright", "etc/hello.conf"]
    for i, m in enumerate(sorted(n for n in model_names if n not in CTRL_NAMES and n != "absent")):
        if canonical:
            take(m, canon[i] if i < len(canon) else "usr/share/hello/file%d" % i)
            continue
        for _ in range(200):
            if long_names and rng.random() < 0.5:
                p = gen_long_name(rng, rng.choice(NAME_LENGTHS) - 2)     # the tar member is './' + p
                if fresh(p):
                    break
                continue
            d = rng.choice(DIRS)
            if ascii_only and any(ord(c) > 127 for c in d):
                continue
            leaf = gen_leaf(rng, ascii_only) + rng.choice(["", "", ".so.1", ".txt", ".gz", " (copy)"])
            p = (d + "/" if d else "") + leaf
            if fresh(p):
                break
        else:
            raise core.MachineryError("could not generate a fresh file name")
        take(m, p)
    for m in model_names:
        if m in CTRL_NAMES:
            out[m] = m
    if "absent" in model_names:
        p = "no/such file.txt"
        while not canonical or not fresh(p):
            p = rng.choice(["no such dir/", "usr/bin/", "", "etc/"]) + gen_leaf(rng, ascii_only)
            if fresh(p):
                break
        out["absent"] = p
    return out


def gen_big_blob(rng, stress):
    """incompressible (random) or compressible content of a size around a read-buffer boundary"""
    n = rng.choice(BLOB_SIZES[stress])
    if rng.random() < 0.8:
        return rng.randbytes(n)
    unit = ("%d line of text\n" % rng.randrange(10 ** 9)).encode()
    return (unit * (n // len(unit) + 1))[:n]


def gen_fillers(rng, stress, taken):
    """padding files of a stressed package: many (30 / 100+) members with short and long names; they are
    never queried (the abstract content does not mention them), they make the parts long"""
    count = rng.choice([30, 33] if stress == 1 else [99, 100, 101, 130, 257])
    out = []
    for i in range(count):
        r = rng.random()
        if r < 0.25:
            name = "pad/%03d/" % i + gen_long_name(rng, rng.choice(NAME_LENGTHS[:17]) - 10)
        else:
            name = "pad/%03d-%s" % (i, gen_leaf(rng, True))
        if name in taken:
            continue
        taken.add(name)
        body = rng.randbytes(rng.choice([0, 1, 511, 512, 513, 700, 3000])) if r < 0.9 else rng.randbytes(9000)
        out.append((name, body))
    return out


def gen_blob(rng, kind=None):
    kind = kind or rng.choice(["text", "bin", "nul", "empty", "big", "nl"])
    if kind == "empty":
        return b""
    if kind == "text":
        return ("line %d é\n" % rng.randrange(10 ** 6)).encode("utf-8") * rng.randint(1, 4)
    if kind == "nul":
        return b"\0" * rng.randint(1, 5) + bytes(rng.randrange(256) for _ in range(rng.randint(0, 8))) + b"\0"
    if kind == "big":
        return bytes(rng.randrange(256) for _ in range(64)) * rng.randint(9, 40)
    if kind == "nl":
        return rng.choice([b"\n", b"\r\n", b" \n\n", b"x\r", b"\n\nx", b" ", b"\t"])
    return bytes(rng.randrange(256) for _ in range(rng.randint(1, 40)))


def gen_script(rng):
    r = rng.random()
    if r < 0.12:
        return b""
    if r < 0.3:
        return b"#!/bin/sh\nset -e\nexit 0\n"
    body = "#!/bin/sh\n# %d ü\necho '%s'\n" % (rng.randrange(10 ** 6), gen_leaf(rng, True))
    b = body.encode("utf-8")
    if r > 0.85:
        b += bytes(rng.randrange(256) for _ in range(rng.randint(1, 12)))
    if r > 0.7:
        b = b.rstrip(b"\n")
    return b


def gen_fields(rng, canonical=False):
    base = [("Package", "hello" if canonical else "pkg" + "".join(rng.choice("abcdefgh0123456789+.-") for _ in range(rng.randint(1, 8))) + "z"),
            ("Version", "1.0-1" if canonical else rng.choice(["1.0-1", "2:3.4~rc1+dfsg-2.1", "0.0.1", "20260926"])),
            ("Architecture", "all"),
            ("Maintainer", "A Maintainer <a@example.org>" if canonical else "Zoë Müller <zoe@example.org>"),
            ]
    if not canonical:
        extra = rng.sample(FIELD_POOL, rng.randint(0, 5))
        base += extra
        if rng.random() < 0.5:
            rng.shuffle(base)
    desc = "short text" if canonical else "short %d text: with colon" % rng.randrange(1000)
    if not canonical and rng.random() < 0.7:
        desc += "\n long line one\n .\n after the blank é\n  indented more"
    base.append(("Description", desc))
    return base


def render_control(fields):
    return "".join("%s: %s\n" % (k, v) for k, v in fields).encode("utf-8")


def render_md5(md5):
    """md5: [(real name, hex)] -> the md5sums file as dpkg writes it"""
    return b"".join(h.encode("ascii") + b"  " + n.encode("utf-8") + b"\n" for n, h in md5)


class Conc:
    """one concretisation of an abstract package content pkg = {c: {name: blob id}, d: {...}, m: {name: sum id}}"""

    def __init__(self, rng, pkg, qnames, canonical=False, names=None, stress=0):
        """stress 1 / 2 (size dimension, notes/SIZE_STRESS.md): data blobs and some scripts of 8 KiB..64 KiB /
        128 KiB..1 MiB (mostly incompressible, so that the compressed parts exceed the decompressors' read
        buffers), 30 / 100+ padding members, file names around the tar limits"""
        d = pkg["d"] or {}
        m = pkg["m"] or {}
        self.stress = stress
        # names: share the real file names with another package (same names, different contents)
        self.names = names if names is not None else gen_names(rng, set(qnames) | set(d) | set(m), canonical,
                                                                long_names=bool(stress))
        self.fields = gen_fields(rng, canonical)
        self.blob = {}
        taken = set()
        for n, b in sorted(pkg["c"].items()):
            if n in MAINT_SCRIPTS:
                for _ in range(50):
                    s = b"#!/bin/sh\nexit 0\n# %s\n" % n.encode() if canonical else gen_script(rng)
                    if stress and rng.random() < 0.4:
                        s = b"#!/bin/sh\n" + gen_big_blob(rng, 1)
                    if s not in taken:
                        break
                taken.add(s)
                self.blob[b] = s
        kinds = ["text", "nul", "empty", "bin", "big", "nl"]
        for b in sorted(set(d.values())):
            for k in range(50):
                s = (b"hello %d\n" % b) if canonical else gen_blob(rng, None if k else kinds[(b + rng.randrange(2)) % len(kinds)])
                if stress and rng.random() < 0.85:
                    s = gen_big_blob(rng, stress)
                if s not in taken:
                    break
            taken.add(s)
            self.blob[b] = s
        # sum id -> hex digest: the md5 of the blob it was derived from when there is one (id = blob + 100)
        self.sum = {}
        for s in sorted(set(m.values())):
            src = self.blob.get(s - 100)
            self.sum[s] = hashlib.md5(src if src is not None else b"sum-%d" % s).hexdigest()
        self.md5 = [(self.names[n], self.sum[s]) for n, s in sorted(m.items())]
        if not canonical:
            rng.shuffle(self.md5)
        self.blob[pkg["c"]["control"]] = render_control(self.fields)
        if "md5sums" in pkg["c"]:
            self.blob[pkg["c"]["md5sums"]] = render_md5(self.md5)
        self.cfiles = [(n, self.blob[b]) for n, b in pkg["c"].items()]
        self.dfiles = [(self.names[n], self.blob[b]) for n, b in d.items()]
        if stress:
            self.dfiles += gen_fillers(rng, stress, set(self.names.values()))
        if not canonical:
            rng.shuffle(self.cfiles)
            rng.shuffle(self.dfiles)
        self.tarfmt = "gnu" if canonical or rng.random() < 0.8 else "pax"
        self.level = 2 if rng.random() < 0.1 else 1
        self._tars = {}

    @classmethod
    def concrete(cls, names, fields, cfiles, dfiles, md5, tarfmt="gnu"):
        """a package given concretely (trace recording): the abstract content is derived from it"""
        c = cls.__new__(cls)
        c.names, c.fields, c.cfiles, c.dfiles, c.md5, c.tarfmt = names, fields, cfiles, dfiles, md5, tarfmt
        c.blob = {}
        c.sum = {}
        c.stress = 0
        c._tars = {}
        return c

    def tar(self, kind):
        if kind not in self._tars:
            if kind == "control":
                self._tars[kind] = build_tar(self.cfiles, self.tarfmt, exec_names=MAINT_SCRIPTS)
            else:
                self._tars[kind] = build_tar(self.dfiles, self.tarfmt)
        return self._tars[kind]

    def payload(self, kind, ext):
        key = (kind, ext)
        if key not in self._tars:
            self._tars[key] = compress(ext, self.tar(kind), getattr(self, "level", 1))
        return self._tars[key]

    def chunk(self, name, style):
        """the complete ar member (header + payload + pad) for a member name, cached"""
        key = ("ar", name, style)
        if key not in self._tars:
            self._tars[key] = ar_chunk(name, member_payload(name, self), style)
        return self._tars[key]

    def to_json(self):
        return {"names": self.names, "fields": [list(f) for f in self.fields],
                "blob": {str(k): v for k, v in self.blob.items()},
                "md5": [list(x) for x in self.md5], "cfiles": [list(x) for x in self.cfiles],
                "dfiles": [list(x) for x in self.dfiles], "tarfmt": self.tarfmt,
                "sum": {str(k): v for k, v in self.sum.items()}, "level": getattr(self, "level", 1),
                "stress": getattr(self, "stress", 0)}

    @classmethod
    def from_json(cls, j):
        c = cls.__new__(cls)
        c.names = dict(j["names"])
        c.fields = [tuple(f) for f in j["fields"]]
        c.blob = {int(k): v for k, v in j["blob"].items()}
        c.md5 = [tuple(x) for x in j["md5"]]
        c.cfiles = [tuple(x) for x in j["cfiles"]]
        c.dfiles = [tuple(x) for x in j["dfiles"]]
        c.tarfmt = j["tarfmt"]
        c.sum = {int(k): v for k, v in j.get("sum", {}).items()}
        c.level = j.get("level", 1)
        c.stress = j.get("stress", 0)
        c._tars = {}
        return c


_ZST = {}


def foreign_payload(name, conc):
    """bytes for a member the reader must ignore (or reject the package for); deliberately
    plausible: the .bak / .Z / .zst members carry real tarballs"""
    if name == INFO:
        return b"2.0\n"
    if name == "_gpgorigin":
        return b"-----BEGIN PGP SIGNATURE-----\n\niQEzBAABCAAdFiEE\n-----END PGP SIGNATURE-----\n"
    if name.startswith(DATA_BASE):
        return conc.payload("data", "gz")
    if name.endswith(".zst"):
        # a real zstd-compressed tarball where the zstd tool exists (one fixed payload per run)
        if "z" not in _ZST:
            raw = build_tar([("control", b"Package: zst\nVersion: 1\n")])
            z = shutil.which("zstd")
            out = None
            if z:
                p = subprocess.run([z, "-q", "-c"], input=raw, capture_output=True)
                if p.returncode == 0:
                    out = p.stdout
            _ZST["z"] = out or raw
        return _ZST["z"]
    if name.startswith(CTRL_BASE):
        return conc.payload("control", "")
    return b"foreign member " + name.encode("ascii", "replace") + b"\n"


def member_payload(name, conc):
    po = part_of(name)
    if po:
        return conc.payload(po[0], po[1])
    return foreign_payload(name, conc)


def build_deb(mem, conc, style="dpkg"):
    return b"!<arch>\n" + b"".join([conc.chunk(n, style) for n in mem])


# ------------------------------------------------------------------ dpkg-deb as an independent packer

def dpkg_build(workdir, conc, zopt, uniform=True):
    """materialise the concrete content as a directory tree and let dpkg-deb pack it.
    Returns (path of the .deb, None) or (None, reason for skipping)"""
    exe = shutil.which("dpkg-deb")
    if not exe:
        return None, "dpkg-deb not present"
    root = os.path.join(workdir, "tree")
    shutil.rmtree(root, ignore_errors=True)
    try:
        os.makedirs(os.path.join(root, "DEBIAN"))
        for n, b in conc.cfiles:
            p = os.path.join(root, "DEBIAN", n)
            with open(p, "wb") as f:
                f.write(b)
            os.chmod(p, 0o755 if n in MAINT_SCRIPTS else 0o644)
        for n, b in conc.dfiles:
            p = os.path.join(root, n)
            os.makedirs(os.path.dirname(p), exist_ok=True)
            with open(p, "wb") as f:
                f.write(b)
        out = os.path.join(workdir, "dpkg-out.deb")
        cmd = [exe, "--root-owner-group", "-Z" + zopt]
        if not uniform:
            cmd.append("--no-uniform-compression")
        cmd += ["-b", root, out]
        p = subprocess.run(cmd, capture_output=True, text=True, errors="replace")
        if p.returncode != 0 or not os.path.exists(out):
            return None, "dpkg-deb failed: " + (p.stderr or p.stdout).strip()[-200:]
        return out, None
    except OSError as e:
        return None, "cannot materialise the tree: %s" % e
    finally:
        shutil.rmtree(root, ignore_errors=True)


def ar_names(path):
    """member names of an archive according to binutils ar (independent of the code under test)"""
    exe = shutil.which("ar")
    if not exe:
        return None
    p = subprocess.run([exe, "t", path], capture_output=True, text=True)
    if p.returncode != 0:
        return None
    return [l.rstrip("/") for l in p.stdout.splitlines() if l]
