#!/bin/sh
# Offline setup: nothing to build (pure Python harness + TLA+ specs); verify tools and parse every spec.
set -e
cd "$(dirname "$0")"
command -v java >/dev/null
test -f /opt/veriftools/tla/tla2tools.jar
/venv/bin/python -c "import sys; sys.path.insert(0, '/repo/lib'); import debian.deb822"
mkdir -p .work/sany evidence replays
cd spec
ls *.tla | xargs -P 8 -I{} sh -c 'java -cp /opt/veriftools/tla/tla2tools.jar:/opt/veriftools/tla/CommunityModules-deps.jar tla2sany.SANY {} > ../.work/sany/{}.out 2>&1 || { echo "SANY failed for {}"; cat ../.work/sany/{}.out; touch ../.work/sany/FAILED; }'
cd ..
if [ -e .work/sany/FAILED ]; then rm -rf .work/sany; exit 1; fi
rm -rf .work/sany
echo "setup ok"
