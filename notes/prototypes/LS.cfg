CONSTANTS Names = {"A","B","C"}
 N = 4
SPECIFICATION Spec
INVARIANT Refines
INVARIANT BackOK
INVARIANT SizeOK
INVARIANT EndsOK
INVARIANT TableOK
PROPERTY ErrAtomic
