---- MODULE LT ----
EXTENDS Naturals, Sequences, FiniteSets, TLC, Json
CONSTANTS Keys
VARIABLES order
InSeq(s, k) == \E i \in 1..Len(s): s[i] = k
Rm(s, k) == SelectSeq(s, LAMBDA x: x # k)
Init == order = <<>>
Edge(op, args, res) == PrintT(<<"EDGE", ToJson([from |-> order, op |-> op, args |-> args, res |-> res, to |-> order'])>>)
Add(k) == /\ order' = IF InSeq(order, k) THEN order ELSE Append(order, k)
          /\ Edge("add", <<k>>, "ok")
Del(k) == IF InSeq(order, k) THEN order' = Rm(order, k) /\ Edge("del", <<k>>, "ok")
                            ELSE order' = order /\ Edge("del", <<k>>, "KeyError")
Next == \E k \in Keys: Add(k) \/ Del(k)
NoDup == \A i, j \in 1..Len(order): i # j => order[i] # order[j]
====
