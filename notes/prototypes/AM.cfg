CONSTANTS MaxData = 3
 ClampReadline = FALSE
INIT Init
NEXT Next
INVARIANT Refines
