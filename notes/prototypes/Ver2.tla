---- MODULE Ver2 ----
EXTENDS Naturals, Integers, Sequences, FiniteSets, TLC
CONSTANT MaxLen
\* abstract characters: digits 0,1,2 ; letter "a" ; "+" ; "." ; "~"
Chars == {"0","1","2","a","+",".","~"}
IsDigit(c) == c \in {"0","1","2"}
DVal(c) == CASE c = "0" -> 0 [] c = "1" -> 1 [] c = "2" -> 2 [] OTHER -> 0
\* dpkg order(): '~' -1, digit 0, letter its code, other code+256, end 0
Ord(c) == CASE c = "~" -> -1 [] IsDigit(c) -> 0 [] c = "a" -> 97 [] c = "+" -> 43+256 [] c = "." -> 46+256 [] OTHER -> 0
RECURSIVE NumVal(_,_), DigitsLen(_), Verrev(_,_), NonDigitPhase(_,_)
Sgn(x) == IF x < 0 THEN -1 ELSE IF x > 0 THEN 1 ELSE 0
DigitsLen(s) == IF s = <<>> \/ ~IsDigit(Head(s)) THEN 0 ELSE 1 + DigitsLen(Tail(s))
NumVal(s, acc) == IF s = <<>> \/ ~IsDigit(Head(s)) THEN acc ELSE NumVal(Tail(s), acc*10 + DVal(Head(s)))
Drop(s, n) == SubSeq(s, n+1, Len(s))
\* reference: dpkg verrevcmp
Verrev(a, b) ==
  IF a = <<>> /\ b = <<>> THEN 0
  ELSE LET nd == NonDigitPhase(a, b) IN
       IF nd[1] # 0 THEN nd[1]
       ELSE LET a2 == nd[2] b2 == nd[3]
                la == DigitsLen(a2) lb == DigitsLen(b2)
                va == NumVal(a2, 0) vb == NumVal(b2, 0) IN
            IF va # vb THEN Sgn(va - vb) ELSE Verrev(Drop(a2, la), Drop(b2, lb))
NonDigitPhase(a, b) ==
  IF (a # <<>> /\ ~IsDigit(Head(a))) \/ (b # <<>> /\ ~IsDigit(Head(b)))
  THEN LET ac == IF a = <<>> THEN 0 ELSE Ord(Head(a))
           bc == IF b = <<>> THEN 0 ELSE Ord(Head(b)) IN
       IF ac # bc THEN <<Sgn(ac - bc), a, b>>
       ELSE NonDigitPhase(IF a = <<>> THEN a ELSE Tail(a), IF b = <<>> THEN b ELSE Tail(b))
  ELSE <<0, a, b>>
\* implementation model: split into runs, pad "0", order digit+1
RECURSIVE Runs(_), CmpStr(_,_), CmpPart(_,_)
RunLen(s, dig) == LET RECURSIVE F(_) F(t) == IF t = <<>> \/ IsDigit(Head(t)) # dig THEN 0 ELSE 1 + F(Tail(t)) IN F(s)
Runs(s) == IF s = <<>> THEN <<>> ELSE LET n == RunLen(s, IsDigit(Head(s))) IN <<SubSeq(s,1,n)>> \o Runs(Drop(s,n))
IOrd(c) == CASE c = "~" -> -1 [] IsDigit(c) -> DVal(c)+1 [] c = "a" -> 97 [] c = "+" -> 43+256 [] c = "." -> 46+256 [] OTHER -> 0
CmpStr(x, y) == IF x = <<>> /\ y = <<>> THEN 0 ELSE
   LET a == IF x = <<>> THEN 0 ELSE IOrd(Head(x)) b == IF y = <<>> THEN 0 ELSE IOrd(Head(y)) IN
   IF a # b THEN Sgn(a-b) ELSE CmpStr(IF x = <<>> THEN x ELSE Tail(x), IF y = <<>> THEN y ELSE Tail(y))
AllDig(s) == s # <<>> /\ IsDigit(s[1])
CmpPart(la, lb) == IF la = <<>> /\ lb = <<>> THEN 0 ELSE
   LET a == IF la = <<>> THEN <<"0">> ELSE Head(la) b == IF lb = <<>> THEN <<"0">> ELSE Head(lb)
       ra == IF la = <<>> THEN la ELSE Tail(la) rb == IF lb = <<>> THEN lb ELSE Tail(lb) IN
   IF AllDig(a) /\ AllDig(b) THEN
      (IF NumVal(a,0) # NumVal(b,0) THEN Sgn(NumVal(a,0)-NumVal(b,0)) ELSE CmpPart(ra, rb))
   ELSE LET r == CmpStr(a,b) IN IF r # 0 THEN r ELSE CmpPart(ra, rb)
Impl(a,b) == CmpPart(Runs(a), Runs(b))
VARIABLES a, b
Strs == UNION {[1..n -> Chars] : n \in 0..MaxLen}
Init == a \in Strs /\ b = <<"?">>
Next == b = <<"?">> /\ b' \in Strs /\ UNCHANGED a
Agree == b = <<"?">> \/ Impl(a,b) = Verrev(a,b)
Anti == b = <<"?">> \/ Verrev(a,b) = -Verrev(b,a)
====
