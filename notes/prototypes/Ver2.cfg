CONSTANT MaxLen = 3
INIT Init
NEXT Next
INVARIANT Agree
INVARIANT Anti
CHECK_DEADLOCK FALSE
