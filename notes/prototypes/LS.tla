---- MODULE LS ----
EXTENDS Naturals, Sequences, FiniteSets, TLC
CONSTANTS Names, N            \* N = node pool size
Spell == {"U","L"}
Nodes == 1..N
VARIABLES abs,                 \* abstract: Seq of [n, s] (name, spelling)
          val, nxt, prv, head, tail, size, table, \* impl
          err
implVars == <<val, nxt, prv, head, tail, size, table>>
vars == <<abs, implVars, err>>
NoNode == 0
Init == /\ abs = <<>>
        /\ val = [x \in Nodes |-> <<>>] /\ nxt = [x \in Nodes |-> NoNode] /\ prv = [x \in Nodes |-> NoNode]
        /\ head = NoNode /\ tail = NoNode /\ size = 0
        /\ table = [n \in Names |-> NoNode]
        /\ err = "none"
Alive == {table[n] : n \in Names} \ {NoNode}
Fresh == CHOOSE x \in Nodes : x \notin Alive
RECURSIVE Fwd(_,_)
Fwd(x, fuel) == IF x = NoNode \/ fuel = 0 THEN <<>> ELSE <<val[x]>> \o Fwd(nxt[x], fuel-1)
RECURSIVE Bwd(_,_)
Bwd(x, fuel) == IF x = NoNode \/ fuel = 0 THEN <<>> ELSE Bwd(prv[x], fuel-1) \o <<val[x]>>
AbsHas(n) == \E i \in 1..Len(abs) : abs[i].n = n
AbsRm(n) == SelectSeq(abs, LAMBDA e : e.n # n)
AbsGet(n) == LET i == CHOOSE i \in 1..Len(abs) : abs[i].n = n IN abs[i]
\* ---- linked list primitives, as functions on (nxt, prv, head, tail, size) records
LL == [nxt |-> nxt, prv |-> prv, head |-> head, tail |-> tail, size |-> size]
Link(l, p, q) == LET l1 == IF q # NoNode THEN [l EXCEPT !.prv[q] = p] ELSE l
                 IN IF p # NoNode THEN [l1 EXCEPT !.nxt[p] = q] ELSE l1
RemoveNode(l, x) ==
   LET l1 == IF x = l.head THEN [l EXCEPT !.head = l.nxt[x], !.tail = IF l.nxt[x] = NoNode THEN NoNode ELSE l.tail]
             ELSE IF x = l.tail THEN [l EXCEPT !.tail = l.prv[x]] ELSE l
       l2 == [l1 EXCEPT !.size = l1.size - 1]
       l3 == Link(l2, l2.prv[x], l2.nxt[x])
   IN [l3 EXCEPT !.prv[x] = NoNode, !.nxt[x] = NoNode]
AppendNode(l, x) == IF l.head = NoNode THEN [l EXCEPT !.head = x, !.tail = x, !.size = l.size + 1]
                    ELSE LET l1 == Link(Link(l, l.tail, x), x, l.nxt[l.tail]) IN [l1 EXCEPT !.tail = x, !.size = l.size + 1]
InsertBefore(l, x, e) == LET l1 == Link(Link(l, l.prv[e], x), x, e)
                         IN [l1 EXCEPT !.head = IF e = l.head THEN x ELSE l.head, !.size = l.size + 1]
InsertAfter(l, x, e) == LET l1 == Link(Link(l, e, x), x, l.nxt[e])
                        IN [l1 EXCEPT !.tail = IF e = l.tail THEN x ELSE l.tail, !.size = l.size + 1]
InsertAtHead(l, x) == IF l.head = NoNode THEN AppendNode(l, x) ELSE InsertBefore(l, x, l.head)
SetLL(l) == nxt' = l.nxt /\ prv' = l.prv /\ head' = l.head /\ tail' = l.tail /\ size' = l.size
Fail(e) == err' = e /\ UNCHANGED <<abs, implVars>>
\* ---- API
Add(n, s) == /\ err' = "none"
             /\ IF table[n] # NoNode THEN UNCHANGED <<abs, implVars>>
                ELSE LET x == Fresh IN
                     /\ val' = [val EXCEPT ![x] = [n |-> n, s |-> s]]
                     /\ SetLL(AppendNode(LL, x))
                     /\ table' = [table EXCEPT ![n] = x]
                     /\ abs' = Append(abs, [n |-> n, s |-> s])
Del(n) == IF table[n] = NoNode THEN Fail("KeyError")
          ELSE /\ err' = "none" /\ SetLL(RemoveNode(LL, table[n])) /\ table' = [table EXCEPT ![n] = NoNode]
               /\ UNCHANGED val /\ abs' = AbsRm(n)
\* _reorder: remove node, reinsert a NEW node carrying node.value (the code allocates a new node)
Reorder(n, ins(_,_), absNew) ==
   LET x == table[n] l1 == RemoveNode(LL, x) y == CHOOSE y \in Nodes : y \notin (Alive \ {x})
   IN /\ err' = "none" /\ val' = [val EXCEPT ![y] = val[x]]
      /\ SetLL(ins(l1, y)) /\ table' = [table EXCEPT ![n] = y] /\ abs' = absNew
First(n) == IF table[n] = NoNode THEN Fail("KeyError")
            ELSE Reorder(n, LAMBDA l, y : InsertAtHead(l, y), <<AbsGet(n)>> \o AbsRm(n))
Last(n) == IF table[n] = NoNode THEN Fail("KeyError")
            ELSE Reorder(n, LAMBDA l, y : AppendNode(l, y), AbsRm(n) \o <<AbsGet(n)>>)
AbsIdx(s, n) == CHOOSE i \in 1..Len(s) : s[i].n = n
Before(n, r) == IF n = r THEN Fail("ValueError")
                ELSE IF table[r] = NoNode \/ table[n] = NoNode THEN Fail("KeyError")
                ELSE LET rest == AbsRm(n) i == AbsIdx(rest, r) IN
                     Reorder(n, LAMBDA l, y : InsertBefore(l, y, table[r]), SubSeq(rest,1,i-1) \o <<AbsGet(n)>> \o SubSeq(rest,i,Len(rest)))
After(n, r) == IF n = r THEN Fail("ValueError")
                ELSE IF table[r] = NoNode \/ table[n] = NoNode THEN Fail("KeyError")
                ELSE LET rest == AbsRm(n) i == AbsIdx(rest, r) IN
                     Reorder(n, LAMBDA l, y : InsertAfter(l, y, table[r]), SubSeq(rest,1,i) \o <<AbsGet(n)>> \o SubSeq(rest,i+1,Len(rest)))
Next == \E n \in Names : \/ \E s \in Spell : Add(n, s)
                         \/ Del(n) \/ First(n) \/ Last(n)
                         \/ \E r \in Names : Before(n, r) \/ After(n, r)
\* ---- invariants
Refines == Fwd(head, N+1) = abs
BackOK == Bwd(tail, N+1) = abs
SizeOK == size = Len(abs) /\ Cardinality(Alive) = size
EndsOK == (head = NoNode <=> tail = NoNode) /\ (head # NoNode => prv[head] = NoNode /\ nxt[tail] = NoNode)
TableOK == \A n \in Names : table[n] # NoNode => val[table[n]].n = n
ErrAtomic == [][err' # "none" => UNCHANGED <<abs, implVars>>]_vars
Spec == Init /\ [][Next]_vars
====
