CONSTANTS Keys = {"A","B"}
INIT Init
NEXT Next
INVARIANT NoDup
