---- MODULE AM ----
EXTENDS Naturals, Integers, Sequences, FiniteSets, TLC
CONSTANTS MaxData, ClampReadline
\* cells: "n" newline byte, "x" other byte ; headers abstracted to <<"h","n">> (ends in newline like "`\n")
Data == UNION {[1..k -> {"n","x"}] : k \in 0..MaxData}
Hdr == <<"h","n">>
Pad(d) == IF Len(d) % 2 = 1 THEN <<"n">> ELSE <<>>
Glob == <<"g">>
VARIABLES d1, d2,          \* member data (chosen initially)
          cur, fpos,        \* impl: absolute cursors per member, shared file position
          pos,              \* abstract: per-member position
          ret, aret         \* last results
M == {1,2}
DataOf(m) == IF m = 1 THEN d1 ELSE d2
Arch == Glob \o Hdr \o d1 \o Pad(d1) \o Hdr \o d2 \o Pad(d2)
Off(m) == IF m = 1 THEN Len(Glob) + Len(Hdr) ELSE Len(Glob) + Len(Hdr) + Len(d1) + Len(Pad(d1)) + Len(Hdr)
End(m) == Off(m) + Len(DataOf(m))
\* file primitives on the whole archive: positions are 0-based byte offsets
FRead(p, n) == SubSeq(Arch, p+1, IF p+n > Len(Arch) THEN Len(Arch) ELSE p+n)
RECURSIVE LineLen(_,_,_)
LineLen(s, p, lim) == \* bytes of readline from 0-based p in s, at most lim (lim<0: unlimited)
   IF p >= Len(s) \/ lim = 0 THEN 0
   ELSE IF s[p+1] = "n" THEN 1 ELSE 1 + LineLen(s, p+1, IF lim < 0 THEN lim ELSE lim-1)
FReadLine(p, lim) == SubSeq(Arch, p+1, p + LineLen(Arch, p, lim))
\* abstract BytesIO
ARead(d, p, n) == IF p >= Len(d) THEN <<>> ELSE SubSeq(d, p+1, IF n < 0 \/ p+n > Len(d) THEN Len(d) ELSE p+n)
AReadLine(d, p, lim) == IF p >= Len(d) THEN <<>> ELSE SubSeq(d, p+1, p + LineLen(d, p, lim))
Init == /\ d1 \in Data /\ d2 \in Data
        /\ cur = [m \in M |-> 0] /\ fpos = 0 /\ pos = [m \in M |-> 0] /\ ret = <<>> /\ aret = <<>>
        \* cur is initialised lazily below to Off(m) (depends on d1): use 0 = "at offset" marker
Cur(m) == IF cur[m] = 0 THEN Off(m) ELSE cur[m]
SetCur(m, c) == cur' = [cur EXCEPT ![m] = c]
\* read(size): size = -1 means "all" (read() / read(-1)), size >= 1 otherwise
Read(m, size) ==
  LET c == Cur(m) IN
  /\ IF size > 0 /\ size <= End(m) - c
       THEN ret' = FRead(c, size) /\ SetCur(m, c + Len(FRead(c, size)))
       ELSE IF c >= End(m) \/ c < Off(m) THEN ret' = <<>> /\ SetCur(m, c)
       ELSE ret' = FRead(c, End(m) - c) /\ SetCur(m, End(m))
  /\ aret' = ARead(DataOf(m), pos[m], size) /\ pos' = [pos EXCEPT ![m] = pos[m] + Len(aret')]
  /\ UNCHANGED <<d1, d2, fpos>>
ReadLine(m, lim) ==
  LET c == Cur(m) IN
  /\ IF ClampReadline
       THEN IF c >= End(m) \/ c < Off(m) THEN ret' = <<>> /\ SetCur(m, c)
            ELSE LET rem == End(m) - c  l == IF lim < 0 \/ lim > rem THEN rem ELSE lim  b == FReadLine(c, l)
                 IN ret' = b /\ SetCur(m, c + Len(b))
       ELSE LET b == FReadLine(c, lim) nc == c + Len(b)
            IN SetCur(m, nc) /\ ret' = IF nc > End(m) THEN <<>> ELSE b
  /\ aret' = AReadLine(DataOf(m), pos[m], lim) /\ pos' = [pos EXCEPT ![m] = pos[m] + Len(aret')]
  /\ UNCHANGED <<d1, d2, fpos>>
Seek0(m, off) == /\ SetCur(m, Off(m) + off) /\ pos' = [pos EXCEPT ![m] = off] /\ ret' = <<>> /\ aret' = <<>> /\ UNCHANGED <<d1,d2,fpos>>
Next == \E m \in M : \/ \E s \in {-1, 1, 2} : Read(m, s)
                     \/ \E l \in {-1, 0, 1, 2} : ReadLine(m, l)
                     \/ \E o \in 0..(MaxData+1) : Seek0(m, o)
Refines == ret = aret /\ \A m \in M : Cur(m) - Off(m) = pos[m]
====
