---- MODULE TR ----
EXTENDS Naturals, Sequences, FiniteSets, TLC, Json, IOUtils, TLCExt
Traces == JsonDeserialize(IOEnv.TRACE_FILE)
VARIABLES tid, l, order
InSeq(s, k) == \E i \in 1..Len(s): s[i] = k
Rm(s, k) == SelectSeq(s, LAMBDA x: x # k)
Tr == Traces[tid]
Init == tid \in 1..Len(Traces) /\ l = 1 /\ order = <<>>
Ev == Tr[l]
Add(k) == order' = IF InSeq(order, k) THEN order ELSE Append(order, k)
Del(k) == IF InSeq(order, k) THEN order' = Rm(order, k) /\ Ev.res = "ok" ELSE order' = order /\ Ev.res = "KeyError"
Step == /\ l <= Len(Tr)
        /\ \/ Ev.op = "add" /\ Add(Ev.args[1])
           \/ Ev.op = "del" /\ Del(Ev.args[1])
        /\ order' = Ev.order
        /\ l' = l + 1 /\ UNCHANGED tid
        /\ (l' = Len(Tr) + 1 => PrintT(<<"ACCEPTED", tid>>))
Next == Step
====
