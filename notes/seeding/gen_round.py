#!/usr/bin/env python3
"""Generates the prompts for a further round of seeding sub-agents (one per property):
   gen_round.py <round-number> <letter1> <letter2> <out-dir>
Each prompt holds ONLY the text of the property, the path of a scratch worktree and the list of
mechanisms already used for that property (first lines of the NOTES of the kept seeds) - nothing
about /verif's checks.  Worktrees: git -C /repo worktree add --detach <out-dir>/r<N>cNN HEAD."""
import json, os, sys, glob, re
V = os.path.dirname(os.path.dirname(os.path.dirname(os.path.abspath(__file__))))
rnd, L1, L2, out = sys.argv[1:5]
tmpl = open(os.path.join(V, "notes/seeding/PROMPT3.tmpl")).read()
for line in open(os.path.join(V, "properties.jsonl")):
    p = json.loads(line)
    pid = p["id"]
    used = []
    for d in sorted(glob.glob(os.path.join(V, "seeded", pid + "-seed*"))):
        try:
            m = json.load(open(os.path.join(d, "meta.json")))
        except Exception:
            continue
        ex = re.sub(r"\s+", " ", m.get("notes_excerpt", "")).strip()
        ex = re.sub(r"^#* ?Seed \w+ *[-(:]*", "", ex)
        if ex:
            used.append(ex[:330])
    wt = os.path.join(out, "r%sc%s" % (rnd, pid[1:]))
    q = p.get("quantifier", {})
    prop = "Property %s: %s\n\nStatement: %s\n\nQuantified over: %s\n\nAnchored in: %s\n" % (
        pid, p["title"], p["statement"], q.get("text", ""), ", ".join(p["anchors"]["files"]))
    s = tmpl.replace("{WT}", wt).replace("{PROP}", prop).replace("{USED}", " || ".join(used)).replace("{L1}", L1).replace("{L2}", L2)
    open(os.path.join(out, "r%sc%s.prompt" % (rnd, pid[1:])), "w").write(s)
    print(pid, len(used), "used mechanisms,", len(s), "chars")
