\* C17 codec layer, closed (quick): every list of <= 4 lines over the 8 class symbols
CONSTANTS
  Mode = "codec"
  Alphabet = {"E", "W", "W2", "D", "I", "I2", "ID", "P"}
  MaxLen = 4
  MaxParas = 0
  HdrKinds = {}
  BigPats = {}
  CopyMax = 1
  CopyAlpha = {}
  BigTextMax = 0
  BigTextAlpha = {}
  Emit = TRUE
  NoDotEscape = FALSE
  DecoderStrips = FALSE
  DotAnyIndent = FALSE
  StaleDump = FALSE
  LicMemoBySynopsis = FALSE
  ParseMemoAliased = FALSE
  CommaSeparates = FALSE
  RejectDrops = FALSE
  MayAcceptedSplits = FALSE
  ArgAliased = FALSE
  RejAt = {}
  RejThen = 0
  RejEditAt = {}
SPECIFICATION Spec
INVARIANT CodecProps
CHECK_DEADLOCK FALSE
