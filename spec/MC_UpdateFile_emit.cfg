\* C19 emission (thorough tier): every terminal behaviour for <= 4 versions, printed as CASE lines
\* (the harness sets FlavourPhase from the seed: one flavour set per input, rotating over the inputs)
SPECIFICATION Spec
CONSTANTS
  MaxN = 3
  Sizes = {0, 1, 3}
  FlavourSets = {{"SHA1"}, {"SHA256"}, {"SHA1", "SHA256"}}
  Mode = "code"
  Runs = 1
  FlavourPhase = 9
  FaultKinds = {"none", "patchCorrupt", "patchTruncated", "badLastPatch", "wrongResultHash", "indexMissing", "indexGarbage", "indexEmpty", "writeFails", "renameFails"}
  Entries = {"update_file", "download_file", "replace_file"}
  RememberIndex = FALSE
  Emit = TRUE
  EmitEvery = 1
  EmitPhase = 0
INVARIANTS TypeOK Converges NeverCorrupt NoTempLeft AlwaysOldOrNew FaultRaises IndexFaultConverges
           HashFaultWritesNothing GarbledNeverApplied ByPatchesWhenListed
CHECK_DEADLOCK FALSE
