\* C12 -- thorough tier: every subset x 7 shapes, single fields x all record lists with sizes 1..18, pairs, 4-field classes x independent shapes; closed
CONSTANTS
  Tables <- DocTables
  Modes <- ModesThorough
  IterateAllFields = FALSE
  SplitEverySpace = FALSE
  Emit = TRUE
  EmitOff = 0
SPECIFICATION Spec
INVARIANT TypeOK
INVARIANT DumpTotal
INVARIANT DumpExplains
INVARIANT RecordsRoundTrip
INVARIANT SubFieldNames
INVARIANT WidthRule
INVARIANT RightAligned
INVARIANT SingleBlanks
PROPERTY LoadIsIdentity
CHECK_DEADLOCK FALSE
