\* C12 -- thorough tier: 4-field classes: every subset x 8 uniform shapes and (Dsc, Release) x independent shapes; histories; identical records; several live objects; single fields x all record lists with sizes 1..18; pairs (closed); props/c12.py sets EmitOff
CONSTANTS
  Tables <- DocTables
  Modes <- ModesThorough
  IterateAllFields = FALSE
  SplitEverySpace = FALSE
  CacheWidths = FALSE
  SharedEqualRecords = FALSE
  ClassLevelOption = FALSE
  StoreBeforeValidate = FALSE
  ReorderStoresPlainKeys = FALSE
  RefusedUnlinksFirst = FALSE
  Emit = TRUE
  EmitOff = 0
SPECIFICATION Spec
INVARIANT TypeOK
INVARIANT DumpTotal
INVARIANT KeysFold
INVARIANT KeysListed
INVARIANT WidthTable
INVARIANT DumpExplains
INVARIANT RecordsRoundTrip
INVARIANT SubFieldNames
INVARIANT WidthRule
INVARIANT RightAligned
INVARIANT SingleBlanks
PROPERTY LoadIsIdentity
PROPERTY EditIsLocal
PROPERTY OtherIsOther
PROPERTY RefusedIsAtomic
CHECK_DEADLOCK FALSE
