CONSTANTS
  Sigma = {97, 42, 92}
  NSigma = {97, 98}
  MaxParas = 3
  MaxPats = 2
  MaxPatLen = 2
  MaxSyms = 4
  MaxNameLen = 2
  Discipline = "full"
  DotAll = TRUE
  FindFirst = FALSE
  AffixFrom = 0
  Emit = "find"
  BlockLen = 0
SPECIFICATION ESpec
INVARIANT EmitCase
CHECK_DEADLOCK FALSE
