CONSTANTS
  GMaxLines = 3
  GPalette = {1, 2, 3, 4, 5, 6, 7, 8, 9, 10, 11, 12, 13, 14}
  GMaxLen = 0
  GShort = 4
  ArglessQuirk = FALSE
  FirstWins = FALSE
  ValidAny = FALSE
  GEmit = TRUE
SPECIFICATION Spec
INVARIANT GTypeOK
INVARIANT ImplRefines
INVARIANT LastWins
INVARIANT StmtFoldIsRefMap
INVARIANT ValidIffSig
INVARIANT NonStatusIgnored
INVARIANT EmitPal
INVARIANT EmitCase
CHECK_DEADLOCK FALSE
