----------------------------- MODULE TagQueryMC -----------------------------
(***************************************************************************)
(* X12 -- closed model-checking configurations of TagQuery.tla: three      *)
(* packages, three tags in two facets, one foreign name a caller adds.     *)
(***************************************************************************)
EXTENDS TagQuery

CONSTANTS Scope         \* "emit" (the LTS the quick tier replays) | "quick" | "thorough"

L(p, t) == [pkgs |-> p, tags |-> t]
MCFT == [t \in {"u::a", "u::b", "v::a"} |-> IF t = "v::a" THEN "v" ELSE "u"]

B1 == <<L(<<"p1">>, <<"u::a", "u::b">>), L(<<"p2">>, <<"u::a", "v::a">>)>>
B2 == <<L(<<"p1", "p2">>, <<"u::a">>), L(<<>>, <<>>), L(<<"p3">>, <<>>)>>
B3 == <<L(<<"p1">>, <<"u::a", "u::a">>), L(<<"p3", "p2", "p3">>, <<"v::a", "u::b", "u::a">>)>>
B4 == <<>>
MCBases == IF Scope \in {"quick", "emit"} THEN {B1, B2} ELSE {B1, B2, B3, B4}

MCArgSeqs == IF Scope = "emit" THEN {<<"p1">>, <<"p2", "u::a">>, <<"p1", "p3", "v::a", "u::b", "u">>}
             ELSE IF Scope = "quick" THEN {<<>>, <<"p1">>, <<"p2", "u::a">>, <<"p1", "p3", "v::a", "u::b", "u">>}
             ELSE {<<>>, <<"p1">>, <<"p2", "u::a">>, <<"p1", "p3", "v::a", "u::b", "u">>, <<"p1", "p2">>, <<"u::a", "v::a", "v">>}
P(k, s, n) == [k |-> k, s |-> s, n |-> n]
MCPreds == IF Scope = "emit" THEN {P("has", <<"u::a">>, 0), P("atleast", <<>>, 2)}
           ELSE IF Scope = "quick" THEN {P("has", <<"u::a">>, 0), P("sup", <<"u::a", "v::a">>, 0), P("atleast", <<>>, 2)}
           ELSE {P("has", <<"u::a">>, 0), P("hasnt", <<"u::b">>, 0), P("sup", <<"u::a", "v::a">>, 0), P("atleast", <<>>, 2),
                 P("pkgin", <<"p1", "u::a">>, 0), P("has", <<"p2">>, 0)}
=============================================================================
