------------------------------ MODULE TagQuery ------------------------------
(***************************************************************************)
(* X12 (extra) -- histories over several LIVE debtags.DB objects: which    *)
(* object a call may change.                                               *)
(*                                                                         *)
(* STATEMENT (object part).  Every derivation (reverse, copy, reverse_copy,*)
(* choose_packages, filter_packages, filter_packages_tags, filter_tags,    *)
(* their _copy forms, facet_collection, and the text of dump() /           *)
(* dump_reverse() read again) returns a NEW collection whose two maps are  *)
(* the relation-algebra value Derive(receiver) of TagRel.tla and leaves    *)
(* the receiver and every other live collection as they were.  The forms   *)
(* documented as "sharing tagsets with this one" (SharingOps) may hand the *)
(* receiver's own set objects on: when a caller mutates a set it obtained  *)
(* from a collection (tags_of_package / packages_of_tag / an item of       *)
(* the iter_ methods), that collection changes in exactly that set, every  *)
(* collection connected to it by sharing derivations becomes UNSPECIFIED,  *)
(* and every other collection -- in particular the receiver and the result *)
(* of copy, reverse_copy, every *_copy form, facet_collection -- is        *)
(* untouched.  read() binds new maps: the object leaves its sharing class. *)
(*                                                                         *)
(* Two layers (as spec/OrderedMap.tla / LinkedSet.tla for C09):            *)
(*   reference      objs[s] the value of slot s, trk[s] how much of it the *)
(*                  statement determines ("free" "full" "fwd" "none"),     *)
(*                  shr the sharing classes (pairs of slots);              *)
(*   implementation hv[s] the two dictionaries of slot s as the code       *)
(*                  builds them, al = which set objects ARE the same       *)
(*                  Python object (pairs of locations <<slot, side, key>>),*)
(*                  every derivation transcribed from debtags.py.          *)
(* Invariants: Refines (a tracked slot holds the reference value),         *)
(* ClassSound (set objects are shared inside a sharing class only), the    *)
(* relation-algebra laws of LawsHold.                                      *)
(*                                                                         *)
(* Defect switches (FALSE = the statement):                                *)
(*   ChooseCopyShares     choose_packages_copy stores the receiver's own   *)
(*                        sets (AS BUILT: db[pkg] = self.db[pkg] without   *)
(*                        .copy(); finding X12-choose-copy-shares)         *)
(*                        -> ClassSound, then Refines violated             *)
(*   ReverseDropsUntagged reverse() rebuilt from the pairs only            *)
(*                        -> LawsHold (reverse is an involution) violated  *)
(* Emission (Emit = TRUE): one EDGE line per evaluated action instance     *)
(* with the reference state (to) and the implementation state (hto); the   *)
(* harness runs the emission with ChooseCopyShares = TRUE so that hto is   *)
(* the AS-BUILT expectation: a real object that differs from `to` exactly  *)
(* as hto says is the known finding, anything else a violation.            *)
(***************************************************************************)
EXTENDS TagRel, Json

CONSTANTS Slots,        \* 1..n: the live objects
          Bases,        \* set of inputs (sequences of lines) read() may get
          ArgSeqs,      \* set of name sequences offered to choose_* / filter_* (the accepted keys)
          Preds,        \* set of predicates offered to filter_packages_tags
          FT,           \* tag -> facet
          AddNames,     \* names a caller may add to a set it was handed
          MaxMut,       \* bound on the number of caller mutations in a history
          MaxDer,       \* bound on the number of derivations in a history
          AllKeys,      \* FALSE: a caller mutates the set of ONE key per dictionary only (smaller LTS)
          ChooseCopyShares, ReverseDropsUntagged,
          Emit

VARIABLES objs, trk, shr,     \* reference
          hv, al,             \* implementation
          nmut, nder

vars == <<objs, trk, shr, hv, al, nmut, nder>>
NoCount == <<objs, trk, shr, hv, al, nmut>>

----------------------------------------------------------------------------
SharesAsStated(op) == op \in SharingOps
SharesAsBuilt(op)  == op \in SharingOps \/ (ChooseCopyShares /\ op = "choose_copy")

\* reference value of a derivation (with the design-level defect switch)
RefDerive(d, c) == IF ReverseDropsUntagged /\ c.op = "reverse" THEN Coll(d.b, MConv(d.b)) ELSE Derive(FT, d, c)

ClassOf(s)  == {s} \cup {x \in Slots : {s, x} \in shr}
Detach(r, s) == {p \in r : s \notin p}
Join(r, s, t) == Detach(r, s) \cup {{s, x} : x \in ({t} \cup {y \in Slots : {t, y} \in Detach(r, s)})}

\* ---- implementation layer
Loc(s, sd, k)  == <<s, sd, k>>
LocsOf(s)      == {Loc(s, "f", k) : k \in DOMAIN hv[s].f} \cup {Loc(s, "b", k) : k \in DOMAIN hv[s].b}
AlClass(r, l)  == {l} \cup {x \in UNION r : {l, x} \in r}
AlDetach(r, s) == {p \in r : \A l \in p : l[1] # s}
\* the new object dst holds, under side sd, the set objects the source holds under side ssd, for the keys K
AlShare(r, dst, sd, src, ssd, K) ==
   UNION {{{Loc(dst, sd, k), x} : x \in AlClass(r, Loc(src, ssd, k))} : k \in K}

\* what the code builds: [v |-> the two dictionaries, a |-> the new alias pairs]
HDerive(src, dst, c) ==
   LET h  == hv[src]
       r  == AlDetach(al, dst)
       S  == ToSet(c.s)
       keepf(K, share) == LET f == MOnly(h.f, K)
                          IN [v |-> Coll(f, MConv(f)),                                  \* res.rdb = reverse(db)
                              a |-> IF share THEN AlShare(r, dst, "f", src, "f", DOMAIN f) ELSE {}]
       keepb(K, share) == LET b == MOnly(h.b, K)
                          IN [v |-> Coll(MConv(b), b),                                  \* res.db = reverse(rdb)
                              a |-> IF share THEN AlShare(r, dst, "b", src, "b", DOMAIN b) ELSE {}]
   IN CASE c.op = "reverse"        -> [v |-> Coll(h.b, h.f),                            \* res.db = self.rdb; res.rdb = self.db
                                       a |-> AlShare(r, dst, "f", src, "b", DOMAIN h.b)
                                             \cup AlShare(r, dst, "b", src, "f", DOMAIN h.f)]
        [] c.op = "reverse_copy"   -> [v |-> Coll(h.b, h.f), a |-> {}]                  \* {tag: pkgs.copy() ...}
        [] c.op = "copy"           -> [v |-> h, a |-> {}]
        [] c.op = "choose"         -> keepf(S, TRUE)                                    \* db[pkg] = self.db[pkg]
        [] c.op = "choose_copy"    -> keepf(S, ChooseCopyShares)
        [] c.op = "filter_p"       -> keepf(S, TRUE)
        [] c.op = "filter_p_copy"  -> keepf(S, FALSE)                                   \* db[pkg] = self.db[pkg].copy()
        [] c.op = "filter_pt"      -> keepf({k \in DOMAIN h.f : PTHolds(c.pred, k, h.f[k])}, TRUE)
        [] c.op = "filter_pt_copy" -> keepf({k \in DOMAIN h.f : PTHolds(c.pred, k, h.f[k])}, FALSE)
        [] c.op = "filter_t"       -> keepb(S, TRUE)                                    \* rdb[tag] = self.rdb[tag]
        [] c.op = "filter_t_copy"  -> keepb(S, FALSE)
        [] c.op = "facet"          -> [v |-> DFacet(FT, h), a |-> {}]                   \* fcoll.insert(pkg, ftags)
        [] c.op = "dump_read"      -> [v |-> RdBoth(LinesOf(h.f), {}), a |-> {}]
        [] c.op = "rdump_read"     -> [v |-> RdBoth(LinesOf(h.b), {}), a |-> {}]

----------------------------------------------------------------------------
Calls == [op : {"reverse", "reverse_copy", "copy", "facet", "dump_read", "rdump_read"}, s : {<<>>}, pred : {[k |-> "none"]}]
         \cup [op : {"choose", "choose_copy", "filter_p", "filter_p_copy", "filter_t", "filter_t_copy"}, s : ArgSeqs, pred : {[k |-> "none"]}]
         \cup [op : {"filter_pt", "filter_pt_copy"}, s : {<<>>}, pred : Preds]

State    == [objs |-> objs, trk |-> trk, shr |-> shr, al |-> al]
HState   == hv
Edge(lbl, to, tk, hto, s2, a2) ==
   IF Emit THEN PrintT(<<"EDGE", ToJson([depth |-> nder + nmut, from |-> State, hfrom |-> IF HState = objs THEN <<>> ELSE HState, call |-> lbl,
                                         to |-> [objs |-> to, trk |-> tk, shr |-> s2, al |-> a2], hto |-> IF hto = to THEN <<>> ELSE hto])>>)
   ELSE TRUE

Init == /\ \E ls \in Bases :
             /\ objs = [s \in Slots |-> IF s = 1 THEN RdBoth(ls, {}) ELSE NoColl]
             /\ hv   = [s \in Slots |-> IF s = 1 THEN RdBoth(ls, {}) ELSE NoColl]
        /\ trk = [s \in Slots |-> IF s = 1 THEN "full" ELSE "free"]
        /\ shr = {} /\ al = {} /\ nmut = 0 /\ nder = 0

\* dst = src.<derivation>(...)
DeriveAct(src, dst, c) ==
   /\ src # dst /\ nder < MaxDer
   /\ trk[src] \in {"full", "fwd"}
   /\ TrkAfter(trk[src], c.op) # "none"
   /\ DeriveOK(FT, objs[src], c) /\ DeriveOK(FT, hv[src], c)
   /\ LET hd == HDerive(src, dst, c)
          o2 == [objs EXCEPT ![dst] = RefDerive(objs[src], c)]
          t2 == [trk EXCEPT ![dst] = TrkAfter(trk[src], c.op)]
          h2 == [hv EXCEPT ![dst] = hd.v]
      IN /\ objs' = o2 /\ trk' = t2 /\ hv' = h2
         /\ al' = AlDetach(al, dst) \cup hd.a
         /\ shr' = IF SharesAsStated(c.op) THEN Join(shr, dst, src) ELSE Detach(shr, dst)
         /\ Edge([act |-> "derive", src |-> src, dst |-> dst, op |-> c.op, s |-> c.s, pred |-> c.pred], o2, t2, h2, shr', al')
   /\ nder' = nder + 1 /\ UNCHANGED nmut

\* a caller obtains the set under key k of side sd of slot s and mutates it
MutateAct(s, sd, k, how, e) ==
   /\ nmut < MaxMut
   /\ trk[s] \in {"full", "fwd"}
   /\ k \in DOMAIN (IF sd = "f" THEN objs[s].f ELSE objs[s].b)
   /\ k \in DOMAIN (IF sd = "f" THEN hv[s].f ELSE hv[s].b)
   /\ LET hit == AlClass(al, Loc(s, sd, k))
          o2  == [objs EXCEPT ![s] = Mutate(objs[s], sd, k, how, e)]
          t2  == [x \in Slots |-> IF x # s /\ x \in ClassOf(s) /\ trk[x] # "free" THEN "none" ELSE trk[x]]
          h2  == [x \in Slots |->
                    Coll([kk \in DOMAIN hv[x].f |-> IF Loc(x, "f", kk) \in hit THEN MutSet(hv[x].f[kk], how, e) ELSE hv[x].f[kk]],
                         [kk \in DOMAIN hv[x].b |-> IF Loc(x, "b", kk) \in hit THEN MutSet(hv[x].b[kk], how, e) ELSE hv[x].b[kk]])]
      IN /\ objs' = o2 /\ trk' = t2 /\ hv' = h2
         /\ Edge([act |-> "mutate", src |-> s, side |-> sd, key |-> k, how |-> how, e |-> e], o2, t2, h2, shr, al)
   /\ nmut' = nmut + 1 /\ UNCHANGED <<shr, al, nder>>

\* s.read(lines): new dictionaries are bound, the object leaves its sharing class
ReadAct(s, ls) ==
   /\ trk[s] # "free" /\ nder < MaxDer
   /\ LET o2 == [objs EXCEPT ![s] = RdBoth(ls, {})]
          t2 == [trk EXCEPT ![s] = "full"]
          h2 == [hv EXCEPT ![s] = RdBoth(ls, {})]
      IN /\ objs' = o2 /\ trk' = t2 /\ hv' = h2
         /\ shr' = Detach(shr, s) /\ al' = AlDetach(al, s)
         /\ Edge([act |-> "read", src |-> s, lines |-> ls], o2, t2, h2, shr', al')
   /\ nder' = nder + 1 /\ UNCHANGED nmut

MutKeys(m) == IF AllKeys \/ DOMAIN m = {} THEN DOMAIN m ELSE {CHOOSE k \in DOMAIN m : TRUE}

Next == \/ \E src, dst \in Slots, c \in Calls : DeriveAct(src, dst, c)
        \/ \E s \in Slots, sd \in {"f", "b"} :
              \E k \in MutKeys(IF sd = "f" THEN objs[s].f ELSE objs[s].b) :
                 \/ \E e \in AddNames \ (IF sd = "f" THEN objs[s].f[k] ELSE objs[s].b[k]) : MutateAct(s, sd, k, "add", e)
                 \/ \E e \in (IF sd = "f" THEN objs[s].f[k] ELSE objs[s].b[k]) : MutateAct(s, sd, k, "discard", e)
                 \/ MutateAct(s, sd, k, "clear", k)
        \/ \E s \in Slots, ls \in Bases : ReadAct(s, ls)

Spec == Init /\ [][Next]_vars

----------------------------------------------------------------------------
\* invariants
TypeOK == /\ \A s \in Slots : trk[s] \in {"free", "full", "fwd", "none"}
          /\ \A p \in shr : p \subseteq Slots /\ Cardinality(p) = 2
          /\ \A s, t, u \in Slots : ({s, t} \in shr /\ {t, u} \in shr /\ s # u) => {s, u} \in shr

\* a tracked slot holds the reference value
Refines == \A s \in Slots : /\ trk[s] = "full" => hv[s] = objs[s]
                            /\ trk[s] = "fwd"  => hv[s].f = objs[s].f

\* a set object is reachable from two slots only when the statement puts them into one sharing class
ClassSound == \A p \in al : \A l1, l2 \in p : l1[1] # l2[1] => {l1[1], l2[1]} \in shr

\* aliased locations hold equal contents (sanity of the implementation layer itself)
AliasSane == \A p \in al : \A l1, l2 \in p :
                /\ l1[3] \in DOMAIN (IF l1[2] = "f" THEN hv[l1[1]].f ELSE hv[l1[1]].b)
                /\ l2[3] \in DOMAIN (IF l2[2] = "f" THEN hv[l2[1]].f ELSE hv[l2[1]].b)
                /\ (IF l1[2] = "f" THEN hv[l1[1]].f[l1[3]] ELSE hv[l1[1]].b[l1[3]])
                     = (IF l2[2] = "f" THEN hv[l2[1]].f[l2[3]] ELSE hv[l2[1]].b[l2[3]])

\* relation-algebra laws, on every fully tracked value a history reaches
Laws(d) ==
   /\ RefDerive(RefDerive(d, [op |-> "reverse"]), [op |-> "reverse"]) = d                  \* reverse is an involution
   /\ Derive(FT, d, [op |-> "reverse_copy"]) = Derive(FT, d, [op |-> "reverse"])
   /\ LawDumpRead(d) /\ LawRDumpRead(d)                                                     \* what is written is read back
   /\ Consistent(d) => /\ Derive(FT, d, [op |-> "dump_read"]) = d
                       /\ Cardinality(MPairs(d.f)) = Cardinality(MPairs(d.b))
                       /\ \A t \in DOMAIN d.b : QCard(d, t) >= 1 /\ 0 <= QDiscr(d, t) /\ 2 * QDiscr(d, t) <= Cardinality(DOMAIN d.f)
   /\ \A s \in ArgSeqs :
         LET c1 == Derive(FT, d, [op |-> "choose", s |-> s])
             t1 == Derive(FT, d, [op |-> "filter_t", s |-> s])
         IN /\ Consistent(c1) /\ DOMAIN c1.f = (DOMAIN d.f) \cap ToSet(s)
            /\ MPairs(c1.f) \subseteq MPairs(d.f)
            /\ MPairs(t1.b) \subseteq MPairs(d.b) /\ DOMAIN t1.b = (DOMAIN d.b) \cap ToSet(s)
            /\ (Consistent(d) => Consistent(t1))
            /\ \A s2 \in ArgSeqs : Derive(FT, c1, [op |-> "choose", s |-> s2])
                                    = Derive(FT, d, [op |-> "choose", s |-> SetToSeq(ToSet(s) \cap ToSet(s2))])
            /\ Combine(d.f, ToSet(s), "i") \subseteq Combine(d.f, ToSet(s), "u")
            /\ (Len(s) = 1 => Combine(d.b, ToSet(s), "i") = MAt(d.b, s[1]) /\ Combine(d.b, ToSet(s), "u") = MAt(d.b, s[1]))
   /\ \A p \in Preds : Consistent(Derive(FT, d, [op |-> "filter_pt", pred |-> p]))
LawsHold == \A s \in Slots : trk[s] = "full" => Laws(objs[s])
=============================================================================
