CONSTANTS
  PK <- MC_PK2
  FT <- MC_FT
  Colon = 0
  ReadDrops <- MC_Drops
  ReReadKeys <- MC_ReRead2
  InsertNewTagStoresChars = FALSE
  NonAtomicRead = FALSE
  NonAtomicQread = FALSE
  ReverseViewCached = FALSE
  AliasBoundToFirstObject = FALSE
  ShallowCopy = FALSE
  ViewReplacesEmptyIndex = FALSE
  WatchParts = TRUE
  SrcSteps = 2
  Emit = FALSE
SPECIFICATION Spec
INVARIANT TypeOK
INVARIANT Inverse
INVARIANT Refines
INVARIANT QueriesAgree
INVARIANT AliasQueriesAgree
INVARIANT SourceInverse
INVARIANT SourceRefines
INVARIANT AliasOK
