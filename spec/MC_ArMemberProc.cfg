\* C06 process-level layer, design configuration (thorough tier): 2 path names, up to 3 successive
\* archives per name, up to 3 ArFile objects; closed state space
CONSTANTS
  Paths = {1, 2}
  MaxVersion = 3
  MaxObjs = 3
  SharedHandlePerPath = FALSE
  Emit = FALSE
SPECIFICATION PSpec
INVARIANT PTypeOK
INVARIANT SnapNotOlder
PROPERTY FreshSeesOwn
VIEW PView
CHECK_DEADLOCK FALSE
