CONSTANTS
  MaxItems = 2
  ItemLen = 2
  RawLen = 4
  EmitItems = 2
  EmitItemLen = 2
  EmitRawLen = 4
  Emit = TRUE
  NoStrip = FALSE
  SplitLinesSingle = FALSE
SPECIFICATION CSpec
INVARIANT RoundTripLines
INVARIANT DebSafeLines
INVARIANT RoundTripWords
INVARIANT LinesFailIff
INVARIANT WordsFailIff
INVARIANT NilIffEmpty
INVARIANT RawLinesStable
INVARIANT RawWordsStable
INVARIANT SingleLaw
INVARIANT EmitCase
CHECK_DEADLOCK FALSE
