------------------------- MODULE TraceOrderedMap -------------------------
(***************************************************************************)
(* C09 -- trace validation: histories recorded from the real Deb822 class  *)
(* (harness/props/c09.py) are checked against the actions of OrderedMap.   *)
(* A trace is [init |-> mapping, events |-> <<event>>]; an event is        *)
(* [op, n, r, s, v, res, obs]: the call, what it returned/raised and the   *)
(* projected mapping after it.  Batched: one TLC run validates all traces  *)
(* of TRACE_FILE; <<"ACCEPTED", tid>> is printed for every trace that the  *)
(* specification explains completely.                                      *)
(***************************************************************************)
EXTENDS OrderedMap, IOUtils, TLCExt

Traces == JsonDeserialize(IOEnv.TRACE_FILE)
Diag   == IOEnv.TRACE_DIAG = "1"

VARIABLES tid, l

Tr == Traces[tid]

TInit == /\ tid \in 1..Len(Traces)
         /\ l = 1
         /\ abs = Traces[tid].init
         /\ res = "ok"

\* the statement leaves one case open: re-ordering an ABSENT key relative to itself
Unspecified(e) == e.op \in {"before", "after"} /\ e.n = e.r /\ ~MHas(abs, e.n)

TStep == /\ l <= Len(Tr.events)
         /\ LET e == Tr.events[l] IN
              IF Unspecified(e)
              THEN abs' = abs /\ res' = e.res /\ e.res \in {"KeyError", "ValueError"} /\ e.obs = abs
              ELSE /\ \/ e.op = "set"    /\ Set(e.n, e.s, e.v)
                      \/ e.op = "get"    /\ Get(e.n)
                      \/ e.op = "has"    /\ Has(e.n)
                      \/ e.op = "del"    /\ Del(e.n)
                      \/ e.op = "first"  /\ MoveFirst(e.n)
                      \/ e.op = "last"   /\ MoveLast(e.n)
                      \/ e.op = "before" /\ MoveBefore(e.n, e.r)
                      \/ e.op = "after"  /\ MoveAfter(e.n, e.r)
                      \/ e.op = "sort"   /\ Sort
                      \/ e.op = "copy"   /\ Copy
                      \/ e.op = "dumpparse" /\ DumpParse
                   /\ res' = e.res        \* the code returned / raised what the model says
                   /\ abs' = e.obs        \* and its observable mapping is the model's
         /\ l' = l + 1 /\ UNCHANGED tid
         /\ (Diag => PrintT(<<"AT", tid, l>>))
         /\ (l' = Len(Tr.events) + 1 => PrintT(<<"ACCEPTED", tid>>))

TSpec == TInit /\ [][TStep]_<<avars, tid, l>>
\* the mapping invariant also holds along every observed execution
TNamesUnique == MUnique(abs)
=============================================================================
