------------------------- MODULE TraceOrderedMap -------------------------
(***************************************************************************)
(* C09 -- trace validation: histories recorded from the real Deb822 class  *)
(* (harness/props/c09.py) are checked against the actions of OrderedMap.   *)
(* A trace is [init |-> mapping, events |-> <<event>>]; an event is        *)
(* [op, n, r, s, v, res, obs]: the call, what it returned/raised and the   *)
(* projected mapping after it.  Batched: one TLC run validates all traces  *)
(* of TRACE_FILE; <<"ACCEPTED", tid>> is printed for every trace that the  *)
(* specification explains completely.                                      *)
(* Events of caller-supplied objects (notes/SIZE_STRESS.md part 5):        *)
(*   sortby   [kf, fn, fm]: sort_fields(key=f); kf is the sequence of key  *)
(*            ranks indexed by name, fn the name f faults for (0: none),   *)
(*            fm the fault mode                                            *)
(*   iofault  [kind]: dump(fd) with a failing fd / parse of a failing      *)
(*            iterator of the dumped lines                                 *)
(*   updfault [ps]: update(iterable) where the iterable raises after       *)
(*            having yielded the pairs ps - the statement does not say     *)
(*            whether the pairs seen before the fault are assigned, so any *)
(*            prefix of them may have been (unspecified zone, the caller's *)
(*            exception must come out)                                     *)
(***************************************************************************)
EXTENDS OrderedMap, IOUtils, TLCExt

Traces == JsonDeserialize(IOEnv.TRACE_FILE)
Diag   == IOEnv.TRACE_DIAG = "1"

VARIABLES tid, l

Tr == Traces[tid]

TInit == /\ tid \in 1..Len(Traces)
         /\ l = 1
         /\ abs = Traces[tid].init
         /\ res = "ok"

Chk(P) == P = TRUE          \* pure checks inside an action must not branch
\* the statement leaves one case open: re-ordering an ABSENT key relative to itself; the faults of
\* caller-supplied objects add two (see OrderedMap: SortUnspec, IOUnspec)
Unspecified(e) == \/ e.op \in {"before", "after"} /\ e.n = e.r /\ ~MHas(abs, e.n)
                  \/ e.op = "sortby" /\ SortUnspec(abs, e.fn, e.fm)
                  \/ e.op = "iofault" /\ IOUnspec(abs, e.kind)
UnspecRes(e)   == IF e.op = "sortby" THEN {"ok", SortErr(e.fm)}
                  ELSE IF e.op = "iofault" THEN {"ok", "CallerError"}
                  ELSE {"KeyError", "ValueError"}
RECURSIVE MSetAll(_, _, _)
MSetAll(m, ps, j) == IF j = 0 THEN m ELSE MSet(MSetAll(m, ps, j - 1), ps[j].n, ps[j].s, ps[j].v)

TStep == /\ l <= Len(Tr.events)
         /\ LET e == Tr.events[l] IN
              IF Unspecified(e)
              THEN abs' = abs /\ res' = e.res /\ Chk(e.res \in UnspecRes(e)) /\ Chk(e.obs = abs)
              ELSE IF e.op = "updfault"
              THEN /\ Chk(e.res = "CallerError") /\ res' = e.res
                   /\ Chk(\E j \in 0..Len(e.ps) : e.obs = MSetAll(abs, e.ps, j))
                   /\ abs' = e.obs
              ELSE /\ \/ e.op = "set"    /\ Set(e.n, e.s, e.v)
                      \/ e.op = "get"    /\ Get(e.n)
                      \/ e.op = "has"    /\ Has(e.n)
                      \/ e.op = "del"    /\ Del(e.n)
                      \/ e.op = "first"  /\ MoveFirst(e.n)
                      \/ e.op = "last"   /\ MoveLast(e.n)
                      \/ e.op = "before" /\ MoveBefore(e.n, e.r)
                      \/ e.op = "after"  /\ MoveAfter(e.n, e.r)
                      \/ e.op = "sort"   /\ Sort
                      \/ e.op = "copy"   /\ Copy
                      \/ e.op = "dumpparse" /\ DumpParse
                      \/ e.op = "sortby" /\ SortBy(e.kf, e.fn, e.fm)
                      \/ e.op = "iofault" /\ IOFault(e.kind)
                   /\ res' = e.res        \* the code returned / raised what the model says
                   /\ abs' = e.obs        \* and its observable mapping is the model's
         /\ l' = l + 1 /\ UNCHANGED tid
         /\ (Diag => PrintT(<<"AT", tid, l>>))
         /\ (l' = Len(Tr.events) + 1 => PrintT(<<"ACCEPTED", tid>>))

TSpec == TInit /\ [][TStep]_<<avars, tid, l>>
\* the mapping invariant also holds along every observed execution
TNamesUnique == MUnique(abs)
=============================================================================
