CONSTANTS
  Classes = {"E", "W", "H", "C", "F1", "F1b", "F1a", "F1ba", "F0", "F0s", "X"}
  MaxLines = 0
  NarrowClasses = {}
  NarrowMaxLines = 0
  Emit = "none"
  MergeUnterminatedWs = FALSE
  DropFloatingComment = FALSE
SPECIFICATION TSpec
CHECK_DEADLOCK FALSE
