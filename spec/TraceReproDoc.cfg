CONSTANTS
  Names = {}
  Start = {}
  MaxParas = 99
  EditFields = TRUE
  SetVals = {}
  SetSpells = {}
  Ops = {}
  Emit = FALSE
SPECIFICATION TSpec
INVARIANT TParasSeparated
INVARIANT TNoEmptyPara
CHECK_DEADLOCK FALSE
