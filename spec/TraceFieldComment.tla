------------------------- MODULE TraceFieldComment -------------------------
(***************************************************************************)
(* X17 -- trace validation for the comment API: histories recorded from    *)
(* real paragraphs of debian._deb822_repro (harness/props/x17.py) are      *)
(* explained call by call by the outcome operators of FieldComment.tla.    *)
(* A trace is [init, events]; an event is the call                         *)
(*   [op, p, n, key, m, j, x, it, v]   (as in FieldCommentMC.tla)          *)
(* with res (outcome class) and obs = the whole WORLD observed after the   *)
(* call: every paragraph (name number, interned spelling and value, the    *)
(* comment lines lexed into <<class, interned id>> tokens, handle numbers  *)
(* of the comment element objects the harness knows by identity), the      *)
(* detached elements it holds, the next handle number.  Payloads are       *)
(* interned: TLC needs equality only, so the size / character stress costs *)
(* nothing here.  unspec = TRUE marks a call outside the domain of the     *)
(* statement (white space other than blank / tab at the edge of a comment  *)
(* line, a plain str as field_comment): any outcome is accepted.  The      *)
(* model continues from the OBSERVED world.  With IOEnv.KNOWN_BLANK = "1"  *)
(* an event only the as-built comment rule explains (open finding          *)
(* X17-blank-comment-line) is accepted with a REJECT note; an event in     *)
(* which a kept comment lives on in a NEW element object (variant "C": not *)
(* promised either way) is accepted with a note (diagnostic).              *)
(***************************************************************************)
EXTENDS FieldComment, Json, IOUtils, TLCExt

Traces == JsonDeserialize(IOEnv.TRACE_FILE)
Diag   == IOEnv.TRACE_DIAG = "1"
Known  == IOEnv.KNOWN_BLANK = "1"

VARIABLES tid, l, tw
tvars == <<tid, l, tw>>
Tr == Traces[tid]

Apply(w, e, kb) ==
   CASE e.op = "set"  -> SetOut(w, e.p, e.key, e.v, e.m, kb)
     [] e.op = "cmt"  -> CmtOut(w, e.p, e.j, e.x, e.m.h)
     [] e.op = "del"  -> DelOut(w, e.p, e.key)
     [] e.op = "move" -> MoveOut(w, e.p, e.n, e.x)
     [] e.op = "sort" -> SortOut(w, e.p)
     [] e.op = "new"  -> NewOut(w)
     [] e.op = "dict" -> DictOut(w, e.it)
     [] e.op = "kv"   -> KvOut(w, e.p, e.x = "rev")
     [] e.op \in {"fset", "fdict"} -> FaultOut(w)
     [] OTHER         -> JoinOut(w, e.p, e.j)
InDom(w, e) ==
   CASE e.op = "set"  -> /\ e.p \in DOMAIN w.ps /\ KeyOK(w.ps[e.p], e.key)
                         /\ (e.m.k = "elem" => HeldHas(w.held, e.m.h))
                         /\ (e.m.k = "self" => (Tgt(w.ps[e.p], e.key) # 0 /\ HasC(w.ps[e.p][Tgt(w.ps[e.p], e.key)].c)))
     [] e.op = "cmt"  -> /\ e.p \in DOMAIN w.ps /\ e.j \in DOMAIN w.ps[e.p] /\ (e.x = "elem" => HeldHas(w.held, e.m.h))
     [] e.op = "del"  -> e.p \in DOMAIN w.ps /\ KeyOK(w.ps[e.p], e.key)
     [] e.op = "fset" -> e.p \in DOMAIN w.ps
     [] e.op = "move" -> e.p \in DOMAIN w.ps /\ Len(Occ(w.ps[e.p], e.n)) <= 1
     [] e.op \in {"sort", "kv"} -> e.p \in DOMAIN w.ps
     [] e.op = "join" -> e.p \in DOMAIN w.ps /\ e.j \in DOMAIN w.ps /\ e.p # e.j
     [] OTHER         -> TRUE
Match(o, e) == o.e = e.res /\ o.w = e.obs

TInit == tid \in 1..Len(Traces) /\ l = 1 /\ tw = Traces[tid].init
TStep == /\ l <= Len(Tr.events)
         /\ LET e == Tr.events[l] IN
            /\ IF e.unspec \/ ~InDom(tw, e) THEN TRUE
               ELSE IF Match(Apply(tw, e, "S"), e) \/ Match(Apply(tw, e, "A"), e) THEN TRUE
               ELSE IF Match(Apply(tw, e, "C"), e) THEN PrintT(<<"REJECT", tid, "kept-comment-copied", l>>)
               ELSE IF Known /\ Match(Apply(tw, e, "K"), e) THEN PrintT(<<"REJECT", tid, "X17-blank-comment-line", l>>)
               ELSE FALSE
            /\ tw' = e.obs
         /\ l' = l + 1 /\ UNCHANGED tid
         /\ IF Diag THEN PrintT(<<"AT", tid, l>>) ELSE TRUE
         /\ IF l' = Len(Tr.events) + 1 THEN PrintT(<<"ACCEPTED", tid>>) ELSE TRUE
TSpec == TInit /\ [][TStep]_tvars
\* (Ownership / LinesWF of the observed worlds are implied: every observed world equals a world the outcome
\* operators produce; they are not configured as invariants because corrupted control traces violate them by design)
=============================================================================
