--------------------------- MODULE DpkgVersionMC ---------------------------
(***************************************************************************)
(* C03 -- bounded-exhaustive model checking of DpkgVersion.tla.            *)
(*                                                                         *)
(* The universe Vers is every version string  [epoch:]upstream[-revision]  *)
(* with epoch in Epochs, revision in Revs (<<>> = absent) and an upstream  *)
(* part of 1..MaxUp characters over UpChars (plus ':' when an epoch and    *)
(* '-' when a revision is present, if Seps).  The first string is chosen   *)
(* in Init, the second (and, if Triples, the third) by one step each, so   *)
(* that TLC's workers share the enumeration (initial states are generated  *)
(* by a single thread).  Each step is "one comparison": it evaluates the   *)
(* reference, the implementation layer and the hash keys ONCE and stores   *)
(* the results in out; the properties are state invariants over out.       *)
(* (The variables are called v1 v2 v3 out on purpose: a state variable     *)
(* with the name of a formal parameter of DpkgVersion.tla -- a, b, c, s -- *)
(* makes TLC treat the constant table InfoOf as state-level and recompute  *)
(* it in every state: 100 x slower.)                                       *)
(*                                                                         *)
(*   Agree          implementation layer = dpkg reference                  *)
(*   SplitAgree     re_valid_version splits like dpkg's parser (in domain) *)
(*   Antisym        DpkgCmp(x,y) = -DpkgCmp(y,x)                           *)
(*   Trichotomy     the result is a sign and exactly one of < = > holds    *)
(*   Reflexive      DpkgCmp(x,x) = 0                                       *)
(*   Trans          (triples) <= is transitive, and strict if one leg is   *)
(*   HashConsistent (DpkgCmp(x,y) = 0) <=> (Canon(x) = Canon(y))           *)
(*   HashImpl       the implementation's key induces the same partition    *)
(*                                                                         *)
(* If EmitStride > 0 the Compare step prints CASE lines                    *)
(*   <<"CASE", "[x, y, sign, canonEqual, sign of (y, x)]">>                *)
(* (x, y: code point arrays)                                               *)
(* for the pairs selected by a checksum (every pair when EmitStride = 1);  *)
(* harness/props/c03.py replays them into debian_support.Version.  The     *)
(* table of operator results per sign is printed once as OPS lines.        *)
(***************************************************************************)
EXTENDS DpkgVersion, Json

CONSTANTS Epochs,       \* set of epoch digit strings, <<>> = no epoch
          Revs,         \* set of revision strings, <<>> = no revision
          UpChars,      \* code points of the upstream part
          MaxUp,        \* maximal length of the upstream part
          Seps,         \* TRUE: also ':' / '-' inside the upstream part where D2 allows them
          Triples,      \* TRUE: a third string is chosen and Trans is checked
          EmitStride,   \* 0: no CASE lines; n > 0: pairs with checksum % n = EmitOffset
          EmitOffset,
          CheckPos      \* TRUE (universes without separators): also compare the two strings in REVISION
                        \* position, "1-" \o x against "1-" \o y (invariant RevPosition)

VARIABLES v1, v2, v3, out
vars == <<v1, v2, v3, out>>

None == <<0>>                     \* "not chosen yet" (0 is not a code point of any alphabet)

Alphabet(e, rv) == UpChars \cup (IF Seps /\ e # <<>> THEN {Colon} ELSE {})
                           \cup (IF Seps /\ rv # <<>> THEN {Hyphen} ELSE {})
Ups(e, rv)      == UNION {[1..n -> Alphabet(e, rv)] : n \in 1..MaxUp}
Join(e, u, rv)  == (IF e = <<>> THEN <<>> ELSE e \o <<Colon>>) \o u \o (IF rv = <<>> THEN <<>> ELSE <<Hyphen>> \o rv)
Vers == UNION {UNION {{Join(e, u, rv) : u \in Ups(e, rv)} : rv \in Revs} : e \in Epochs}

\* the generator only produces in-domain strings and dpkg's parser recovers the components
ASSUME \A e \in Epochs, rv \in Revs : \A u \in Ups(e, rv) :
          LET s == Join(e, u, rv) p == Parse(s) IN
          InDomain(s) /\ p.e = e /\ p.u = u /\ p.r = rv /\ p.he = (e # <<>>) /\ p.hr = (rv # <<>>)

\* everything that depends on one string only, computed once per string (constant level)
Info(s) == [p |-> Parse(s), i |-> IPrep(s), c |-> Canon(s), k |-> IHashKey(s)]
InfoOf  == TLCEval([s \in Vers |-> Info(s)])     \* TLCEval: a table, not a lazy lambda
Ref(x, y) == CmpParsed(InfoOf[x].p, InfoOf[y].p)          \* = DpkgCmp(x, y)

NoRes == [ref |-> 0, rev |-> 0, impl |-> 0, ceq |-> FALSE, keq |-> FALSE, bc |-> 0, ac |-> 0, pos |-> 0, ipos |-> 0, cpos |-> FALSE]
InRev(x) == <<49, Hyphen>> \o x                      \* the version "1-x": x as revision of the upstream "1"
InfoPos  == TLCEval([s \in (IF CheckPos THEN Vers ELSE {}) |-> Info(InRev(s))])

RECURSIVE Chk(_, _)
Chk(s, i) == IF s = <<>> THEN 0 ELSE (Head(s) * i + Chk(Tail(s), i + 1)) % 100003
Selected(x, y) == EmitStride > 0 /\ (Chk(x, 1) * 31 + Chk(y, 7) + Len(x)) % EmitStride = EmitOffset

Init == v1 \in Vers /\ v2 = None /\ v3 = None /\ out = NoRes

Compare ==
    /\ v2 = None
    /\ v2' \in Vers
    /\ LET ia == InfoOf[v1] ib == InfoOf[v2'] IN
       out' = [NoRes EXCEPT !.ref = CmpParsed(ia.p, ib.p), !.rev = CmpParsed(ib.p, ia.p),
                          !.impl = ICmpPrepared(ia.i, ib.i),
                          !.ceq = (ia.c = ib.c), !.keq = (ia.k = ib.k),
                          !.pos  = IF CheckPos THEN CmpParsed(InfoPos[v1].p, InfoPos[v2'].p) ELSE 0,
                          !.ipos = IF CheckPos THEN ICmpPrepared(InfoPos[v1].i, InfoPos[v2'].i) ELSE 0,
                          !.cpos = CheckPos /\ InfoPos[v1].c = InfoPos[v2'].c]
    /\ UNCHANGED <<v1, v3>>
    /\ (Selected(v1, v2') => PrintT(<<"CASE", ToJson(<<v1, v2', out'.ref, out'.ceq, out'.rev>>)>>))

Third ==
    /\ Triples /\ v2 # None /\ v3 = None
    /\ v3' \in Vers
    /\ out' = [out EXCEPT !.bc = Ref(v2, v3'), !.ac = Ref(v1, v3')]
    /\ UNCHANGED <<v1, v2>>

Next == Compare \/ Third
Spec == Init /\ [][Next]_vars

\* printed once (constant level): what <, <=, ==, !=, >=, > and version_compare answer per sign
ASSUME EmitStride > 0 => \A s \in {-1, 0, 1} : PrintT(<<"OPS", ToJson(OpTable(s))>>)

\* named universes for the configuration files (a .cfg cannot contain tuples): Epochs <- E_few ...
S_none == {<<>>}
E_few  == {<<>>, <<48>>, <<49>>, <<48, 49>>}                  \* absent, "0", "1", "01"
E_two  == {<<>>, <<48>>}
R_few  == {<<>>, <<48>>, <<49>>, <<126>>}                     \* absent, "0", "1", "~"
R_three == {<<>>, <<48>>, <<126>>}                          \* absent, "0", "~"
R_more == {<<>>, <<48>>, <<48, 48>>, <<49>>, <<126>>, <<97>>} \* absent, "0", "00", "1", "~", "a"
R_two  == {<<>>, <<48>>}

Pair == v2 # None
Agree          == Pair => out.impl = out.ref
SplitAgree     == ~Pair => LET p == Parse(v1) q == ISplit(v1) IN p.e = q.e /\ p.u = q.u /\ p.r = q.r
Antisym        == Pair => out.ref = -out.rev
Trichotomy     == Pair => /\ out.ref \in {-1, 0, 1}
                          /\ LET t == OpTable(out.ref) IN
                             /\ Cardinality({x \in {"lt", "eq", "gt"} : t[x]}) = 1
                             /\ t.le = (t.lt \/ t.eq) /\ t.ge = (t.gt \/ t.eq) /\ t.ne = ~t.eq
Reflexive      == ~Pair => Ref(v1, v1) = 0 /\ ICompare(v1, v1) = 0
Trans          == v3 # None =>
                    /\ (out.ref <= 0 /\ out.bc <= 0) => (out.ac <= 0 /\ (out.ac = 0 => (out.ref = 0 /\ out.bc = 0)))
                    /\ (out.ref >= 0 /\ out.bc >= 0) => (out.ac >= 0 /\ (out.ac = 0 => (out.ref = 0 /\ out.bc = 0)))
\* a pair of separator-free strings orders, and hashes, in revision position exactly as in upstream
\* position (the harness replays every CASE pair of such a universe in both positions)
RevPosition    == (Pair /\ CheckPos) => (out.pos = out.ref /\ out.ipos = out.ref /\ out.cpos = out.ceq)
HashConsistent == Pair => ((out.ref = 0) <=> out.ceq)
HashImpl       == Pair => (out.keq <=> out.ceq)
=============================================================================
