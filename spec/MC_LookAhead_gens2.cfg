CONSTANTS
  NC = 8
  Chunk = 5
  Classes = {0, 1}
  Scripts <- MCScripts
  ShortLen = 2
  LongLens = {6}
  LongErr = FALSE
  ArgK = {1, 2}
  Lims <- LimsNone
  Preds <- PredsTwo
  MaxGens = 2
  Latch = TRUE
  UseClosed = FALSE
  Bug = "none"
  Emit = FALSE
SPECIFICATION Spec
INVARIANT RTypeOK
INVARIANT ITypeOK
INVARIANT OutIsPrefix
INVARIANT Refines
INVARIANT GensAgree
INVARIANT ReadAhead
INVARIANT NoRepoll
INVARIANT ExpiredOK
PROPERTY SameResult
PROPERTY PeekPure
PROPERTY Monotone
PROPERTY ErrAtomic
VIEW View
