CONSTANTS
  Vers = {}
  MaxItems = 0
  ItemMode = "tiny"
  LayoutMode = 0
  GapMode = 0
  VFormMode = 0
  StripIndentV3 = FALSE
  LeakBlank = FALSE
  NeverQuote = FALSE
  PPKnown = TRUE
  CommentEndsCont = FALSE
  Emit = FALSE
  XMaxLen = 0
  ExpandOnce = FALSE
  XEmit = FALSE
SPECIFICATION TSpec
CHECK_DEADLOCK FALSE
