\* C13 count dimension, negative control: every splitter stops after 256 separators (re.split(pattern, text, 256)).
\* LimitBites (the invariants hold exactly for lists of <= 257 items) is listed first and must hold in every state
\* TLC looks at; CountProps must be reported.  c13.py also runs it per level and with LimitBites alone.
CONSTANTS
  MaxConj = 0
  MaxAlt = 0
  MaxAtoms = 0
  MaxArch = 0
  MaxGroups = 0
  MaxTerms = 0
  OpIds = {}
  CtxKinds = {}
  Emit = FALSE
  RestrictionsFirst = FALSE
  IgnoreNegation = FALSE
  PipeFirst = FALSE
  FormatInKeyOrder = FALSE
  SplitLimit = 256
  LimitedSplits = {"conj", "alt", "arch", "groups", "terms"}
  KeyOrders <- OneKeyOrder
  Levels = {"conj", "alt", "arch", "groups", "terms"}
  Counts = {257, 258}
  Positions = {1, 2, 3}
SPECIFICATION CSpec
INVARIANT LimitBites
INVARIANT CountProps
CHECK_DEADLOCK FALSE
