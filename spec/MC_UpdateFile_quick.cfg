\* C19 closed configuration, quick tier: <= 4 versions, one flavour set, two writes (all flavour sets and the empty file are covered for
\* <= 3 versions by MC_UpdateFile_emit_quick.cfg, and for <= 4 versions by MC_UpdateFile.cfg in the
\* thorough tier); by the deadlock check, no stuck step
\* (termination: MC_UpdateFile_live.cfg, with MaxN = 2 in the quick tier)
SPECIFICATION SpecD
CONSTANTS
  MaxN = 3
  Sizes = {2}
  FlavourSets = {{"SHA1", "SHA256"}}
  Mode = "code"
  Runs = 1
  FlavourPhase = 9
  FaultKinds = {"none", "patchCorrupt", "patchTruncated", "badLastPatch", "wrongResultHash", "indexMissing", "indexGarbage", "indexEmpty", "writeFails", "renameFails"}
  Entries = {"update_file"}
  RememberIndex = FALSE
  Emit = FALSE
  EmitEvery = 1
  EmitPhase = 0
INVARIANTS TypeOK Converges NeverCorrupt NoTempLeft AlwaysOldOrNew FaultRaises IndexFaultConverges
           HashFaultWritesNothing GarbledNeverApplied ByPatchesWhenListed
