-------------------------- MODULE TraceAtomicPublish --------------------------
(***************************************************************************)
(* X18 -- trace validation for AtomicPublish: recorded calls of            *)
(* replace_file / download_file / download_gunzip_lines.  A trace is       *)
(*   [in  |-> the input record as the harness set it up; fault.k may be    *)
(*            "anywrite" (a byte limit: which write / flush / close failed,*)
(*            if any, is not known) or "maybe" (fault.c happened or not),  *)
(*            remote may be "any" (unspecified kind of damage: the call    *)
(*            may or may not raise),                                       *)
(*    obs |-> the directory snapshots taken at every audited file-system   *)
(*            event and after the call: [l |-> class of `local`,           *)
(*            n |-> any other new entry in its directory, t |-> any entry  *)
(*            in the temporary directory],                                 *)
(*    out |-> [out |-> "returned" | "raised", ino |-> "orig" | "fresh"]]   *)
(* TLC must find a behaviour of AtomicPublish (ApBuffered = TRUE) for one  *)
(* of the candidate inputs whose states project, in order and without      *)
(* skipping any, onto the observed snapshots and that ends with the        *)
(* observed outcome.                                                       *)
(***************************************************************************)
EXTENDS AtomicPublish, IOUtils, TLCExt

VARIABLES tid, ol
tvars == <<tid, ol>>

Traces == JsonDeserialize(IOEnv.TRACE_FILE)
Diag == IOEnv.TRACE_DIAG = "1"
Tr == Traces[tid]
Chk(P) == P = TRUE

Pres(c) == IF c = "absent" THEN "absent" ELSE "present"
Matches(k, lo, tn, st, td) == LET o == Tr.obs[k] IN o.l = lo /\ o.n = (IF st THEN "present" ELSE Pres(tn)) /\ o.t = Pres(td)

NoFault == [k |-> "none", i |-> 0]
FaultCands(f) == IF f.k = "anywrite"
                 THEN {[k |-> "write", i |-> j] : j \in 1..ApMaxW} \cup {[k |-> "close", i |-> 0], [k |-> "fetchwrite", i |-> 0], NoFault}
                 ELSE IF f.k = "maybe" THEN {[k |-> f.c.k, i |-> f.c.i], NoFault}
                 ELSE {[k |-> f.k, i |-> f.i]}
RemoteCands(r) == IF r = "any" THEN {"ok", "bad"} ELSE {r}
\* a download that fails delivers no content: the content attributes of the input are then void
Cands(i) == {c \in {[entry |-> i.entry, old0 |-> i.old0, stale |-> i.stale, nw |-> nc[1], newc |-> nc[2], srcfail |-> i.srcfail,
                    remote |-> r, fault |-> f] : r \in RemoteCands(i.remote), f \in FaultCands(i.fault),
                                                  nc \in {<<i.nw, i.newc>>, <<0, "empty">>}} :
                  ApInputOK(c) /\ (c.remote = "ok" => c.nw = i.nw /\ c.newc = i.newc)}

TInit == /\ tid \in 1..Len(Traces)
         /\ ol = 1
         /\ ain \in Cands(Tr.in)
         /\ apc = (IF Downloads(ain.entry) THEN "dl_mktemp" ELSE "rf_open")
         /\ loc = ain.old0
         /\ tmpn = "absent" /\ stl = ain.stale
         /\ tmpd = "absent"
         /\ ino = "orig" /\ held = ain.old0
         /\ wi = 1 /\ aexc = "none" /\ apath = <<>>
         /\ Chk(Matches(1, ain.old0, "absent", ain.stale, "absent"))

TNext == /\ apc # "end"
         /\ ApNext
         /\ tid' = tid
         /\ \/ Chk(Matches(ol, loc', tmpn', stl', tmpd')) /\ ol' = ol
            \/ ol < Len(Tr.obs) /\ Chk(Matches(ol + 1, loc', tmpn', stl', tmpd')) /\ ol' = ol + 1
         /\ (Diag => PrintT(<<"AT", tid, ol'>>))
         /\ (apc' = "end" =>
               /\ Chk(ol' = Len(Tr.obs))
               /\ Chk(Tr.out.out = Outcome)
               /\ Chk(Tr.out.ino \in {ino, "any"})
               /\ PrintT(<<"ACCEPTED", tid>>))

TSpec == TInit /\ [][TNext]_<<avars, tid, ol>>
===============================================================================
