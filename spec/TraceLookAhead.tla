--------------------------- MODULE TraceLookAhead ---------------------------
(***************************************************************************)
(* X06 -- trace validation: histories recorded from the real               *)
(* BufferingIterator (harness/props/x06.py) over a scripted, counting      *)
(* source are checked against the actions of LookAheadBuf.                 *)
(* A trace is [script |-> <<..>>, events |-> <<event>>]; an event is       *)
(*   [op, k, lim, p, g, res, polls, pulled]                                *)
(* op: next peek peek_at peek_many consume_many peek_buffer peek_find      *)
(* tw_new tw_step tw_close tw_list; k the integer argument, lim the limit  *)
(* of peek_find (-1 = None), p the predicate (list of classes), g the      *)
(* number of the takewhile result; res what the call returned / raised;    *)
(* polls the number of __next__ calls the source has seen after the call,  *)
(* pulled the number of items it has handed out (-1: this kind of source   *)
(* cannot tell).  With Latch = TRUE every event must be the composite      *)
(* action (implementation step AND reference action with the same result); *)
(* with Latch = FALSE (configuration TraceLookAhead_asis.cfg) only the     *)
(* implementation layer with the KNOWN non-latching __next__ is used: the  *)
(* harness runs it on histories the statement rejects to tell the known    *)
(* finding from any other divergence.  The closed forms of the loops are   *)
(* used (UseClosed = TRUE; ClosedOK is model-checked), so sources of 10^4  *)
(* items are validated without recursion.                                  *)
(***************************************************************************)
EXTENDS LookAheadBuf, IOUtils, TLCExt

Traces == JsonDeserialize(IOEnv.TRACE_FILE)
Diag   == IOEnv.TRACE_DIAG = "1"

VARIABLES tid, l

Tr == Traces[tid]
PSet(e) == {e.p[i] : i \in 1..Len(e.p)}

TInit == /\ tid \in 1..Len(Traces)
         /\ l = 1
         /\ IInit(Traces[tid].script)
         /\ RInit(LALogical(Traces[tid].script))

\* composite action under the statement, implementation step alone for the code as it is
Act(C, I) == IF Latch THEN C ELSE (I /\ UNCHANGED rvars)
PulledItems(n) == Len(SelectSeq(SubSeq(script, 1, n), LAMBDA x : x > 0))

TStep == /\ l <= Len(Tr.events)
         /\ LET e == Tr.events[l] IN
              /\ \/ e.op = "next"         /\ Act(Next_, INext)
                 \/ e.op = "peek"         /\ Act(PeekAt(1), IPeekAt(1))
                 \/ e.op = "peek_at"      /\ e.k >= 1 /\ Act(PeekAt(e.k), IPeekAt(e.k))
                 \/ e.op = "peek_many"    /\ e.k >= 0 /\ Act(PeekMany(e.k), IPeekMany(e.k))
                 \/ e.op = "consume_many" /\ e.k >= 0 /\ Act(ConsumeMany(e.k), IConsumeMany(e.k))
                 \/ e.op = "peek_buffer"  /\ Act(PeekBuffer, IPeekBuffer)
                 \/ e.op = "peek_find"    /\ e.lim >= -1 /\ Act(PeekFind(PSet(e), e.lim), IPeekFind(PSet(e), e.lim))
                 \/ e.op = "tw_new"       /\ Act(TwNew(PSet(e)), ITwNew(PSet(e)))
                 \/ e.op = "tw_step"      /\ e.g \in 1..Len(igens) /\ Act(TwStep(e.g), ITwStep(e.g))
                 \/ e.op = "tw_close"     /\ e.g \in 1..Len(igens) /\ Act(TwClose(e.g), ITwClose(e.g))
                 \/ e.op = "tw_list"      /\ Act(TwList(PSet(e)), ITwList(PSet(e)))
              /\ ires' = e.res                        \* the code returned / raised what the model says
              /\ (Latch => res' = e.res)
              /\ (e.polls >= 0 => polls' = e.polls)   \* and asked its source exactly as often
              /\ (e.pulled >= 0 => PulledItems(Len(script) - Len(rest')) = e.pulled)
         /\ l' = l + 1 /\ UNCHANGED tid
         /\ (Diag => PrintT(<<"AT", tid, l>>))
         /\ (l' = Len(Tr.events) + 1 => PrintT(<<"ACCEPTED", tid>>))

TSpec == TInit /\ [][TStep]_<<vars, tid, l>>
\* the clauses of the statement also hold along every observed execution
TInv == Latch => (Refines /\ OutIsPrefix /\ ReadAhead /\ NoRepoll /\ GensAgree)
=============================================================================
