\* C03 quick: triples (transitivity): revision absent/0, upstream <= 2 characters over 0 1 ~
\* (24 versions, 13 824 triples)
CONSTANTS
  HashOnString = FALSE
  TildeOrderZero = FALSE
  Epochs <- S_none
  Revs <- R_two
  UpChars = {48, 49, 126}
  MaxUp = 2
  Seps = FALSE
  Triples = TRUE
  EmitStride = 0
  EmitOffset = 0
  CheckPos = FALSE
SPECIFICATION Spec
INVARIANT Agree
INVARIANT Antisym
INVARIANT Trichotomy
INVARIANT Trans
INVARIANT HashConsistent
INVARIANT HashImpl
CHECK_DEADLOCK FALSE
