------------------------- MODULE TraceDeb822Reader -------------------------
(***************************************************************************)
(* C02 -- trace validation of the real Deb822 reader.                      *)
(* A trace is one document fed to the real code (harness/props/c02.py):    *)
(*   [lines |-> <<[c, k, t, sp]>>,    the lines, class known by            *)
(*                                    construction, k / t real strings     *)
(*    obs   |-> <<[np, last]>>,       obs[i] = what                        *)
(*                                    list(Deb822.iter_paragraphs(x)) gave *)
(*                                    for the first i lines (prefix        *)
(*                                    closure): number of paragraphs and   *)
(*                                    the last one as <<[k, v]>>, v = the  *)
(*                                    value split at newlines              *)
(*    final |-> <<paragraph>>]        the complete result for all lines    *)
(* The automaton of Deb822Reader (StepF) is replayed over the lines; after *)
(* every line Finish(rd) -- what the specification says the caller has if  *)
(* the input ends here -- must explain the observation.                    *)
(***************************************************************************)
EXTENDS Deb822Reader, Integers, IOUtils, TLCExt

Traces == JsonDeserialize(IOEnv.TRACE_FILE)
Diag   == IOEnv.TRACE_DIAG = "1"

VARIABLES tid, l
Tr == Traces[tid]

TInit == /\ tid \in 1..Len(Traces)
         /\ l = 1
         /\ rd = RInit(FALSE)
         /\ doc = <<>>

\* np = -2: this prefix was not observed (large documents are observed at some prefixes only)
Explains(r, o) == \/ o.np = -2
                  \/ /\ Len(r) = o.np
                     /\ IF r = <<>> THEN o.last = <<>> ELSE r[Len(r)] = o.last

TStep == /\ l <= Len(Tr.lines)
         /\ rd' = StepF(rd, Tr.lines[l])
         /\ (Tr.obs[l].np = -2 \/ Explains(Finish(rd'), Tr.obs[l]))
         /\ (l = Len(Tr.lines) => Finish(rd') = Tr.final)
         /\ l' = l + 1 /\ UNCHANGED <<tid, doc>>
         /\ (Diag => PrintT(<<"AT", tid, l>>))
         /\ (l' = Len(Tr.lines) + 1 => PrintT(<<"ACCEPTED", tid>>))

TSpec == TInit /\ [][TStep]_<<vars, tid, l>>
\* the reader invariants also hold along every observed execution
TEofRule == EofRule
TPayloadClean == PayloadClean
=============================================================================
