CONSTANTS
  FSub = FALSE
  FInx = FALSE
  FShared = FALSE
  FKeepNone = FALSE
  Emit = FALSE
SPECIFICATION TSpec
INVARIANT TUnique
CHECK_DEADLOCK FALSE
