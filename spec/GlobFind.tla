------------------------------ MODULE GlobFind ------------------------------
(***************************************************************************)
(* C16 -- Copyright.find_files_paragraph over HISTORIES of one document.   *)
(*                                                                         *)
(* Reference layer.  Every Files paragraph has an IDENTITY k = 1, 2, ...   *)
(* in the order the paragraphs came into the document: the Files           *)
(* paragraphs of a parsed document are numbered in text order, a paragraph *)
(* added with add_files_paragraph gets the next number ("inserted directly *)
(* after the last FilesParagraph": it becomes the LAST Files paragraph of  *)
(* the document).  doc[k] = the patterns paragraph k holds NOW.  Between   *)
(* lookups                                                                 *)
(*   SetFiles(k, ps)  p.files = [...]             (the property setter)    *)
(*   RawSet(k, ps)    data['Files'] = 'text'      (through the Deb822 the  *)
(*                    creator of FilesParagraph(data) kept, which the      *)
(*                    RestrictedWrapper docstring allows; the wrapper      *)
(*                    shows the new text: p['Files'], dump())              *)
(*   AddFiles(ps)     c.add_files_paragraph(p)                             *)
(*   AddLicense       c.add_license_paragraph(l)  (appended at the end)    *)
(*   Reparse          c := Copyright(c.dump())    (identities survive as   *)
(*                    tags the harness puts into an extra field)           *)
(* may happen in any order and every lookup must return the last paragraph *)
(* that matches NOW = the matching paragraph with the greatest identity:   *)
(* RefFind(doc, nm) of Glob.tla.  Stand-alone License paragraphs do not    *)
(* exist at this level: they must not influence any lookup.                *)
(*                                                                         *)
(* Implementation layer.  lay = the private paragraph list: 0 for a        *)
(* stand-alone License paragraph, k for Files paragraph k.  Any layout of  *)
(* <= MaxFiles Files and <= MaxLic License paragraphs is an initial state  *)
(* (a document parsed from text, e.g. Files, License, Files), so is the    *)
(* empty document.  add_files_paragraph scans lay for the last Files       *)
(* paragraph and inserts behind it; Find is the loop ImplFind of Glob.tla  *)
(* over the Files paragraphs in lay order.  TLC checks ImplOrder (Files    *)
(* identities ascend along lay) in every state and FindIsLast on every     *)
(* transition of the closed state space; the LTS (states = <<doc, lay>>)   *)
(* is emitted as EDGE lines and replayed on real documents.                *)
(*                                                                         *)
(* Negative controls (each makes TLC report FindIsLast violated):          *)
(*   LookupMemo = TRUE       a name -> paragraph memo re-validated only    *)
(*                           against the remembered paragraph (seeded      *)
(*                           change C16-seedB)                             *)
(*   FilesEndCounter = TRUE  the insert position is a counter of Files     *)
(*                           paragraphs kept by the parser and by          *)
(*                           add_files_paragraph instead of a scan: wrong  *)
(*                           as soon as a License paragraph precedes a     *)
(*                           Files paragraph (seeded change C16-seedJ;     *)
(*                           also violates ImplOrder)                      *)
(*   ScanStopsAtLicense = TRUE  the scan stops at the first paragraph that *)
(*                           is not a Files paragraph                      *)
(* The per-paragraph machinery behind RawSet (raw text / converted value / *)
(* compiled pattern) is modelled in GlobCache.tla.                         *)
(***************************************************************************)
EXTENDS Glob

CONSTANTS FPool,              \* pattern lists a paragraph's Files field takes
          FNames,             \* names looked up
          MaxFiles,           \* bound on Files paragraphs
          MaxLic,             \* bound on stand-alone License paragraphs
          LookupMemo,         \* FALSE
          FilesEndCounter,    \* FALSE
          ScanStopsAtLicense  \* FALSE

VARIABLES lay,          \* layout of the document (see above)
          fend,         \* FilesEndCounter only: the cached insert position; else 0
          memo,         \* name -> remembered paragraph (0 = none); unused unless LookupMemo
          res           \* result of the last call: identity, 0 = None, -1 = format error, -9 otherwise

fvars == <<doc, n, lay, fend, memo, res>>

NoMemo == [nm \in FNames |-> 0]
RECURSIVE Count(_, _, _)
Count(s, i, lic) == IF i > Len(s) THEN 0
                    ELSE (IF (s[i] = 0) = lic THEN 1 ELSE 0) + Count(s, i + 1, lic)
NFiles(s) == Count(s, 1, FALSE)
NLic(s)   == Count(s, 1, TRUE)
FilesOf(s) == SelectSeq(s, LAMBDA x : x # 0)

\* layouts of parsed documents: identities ascend in text order
Number(s) == [i \in 1..Len(s) |-> IF s[i] = 0 THEN 0 ELSE NFiles(SubSeq(s, 1, i))]
Shapes == UNION {[1..m -> {0, 1}] : m \in 0..(MaxFiles + MaxLic)}
InitLays == {Number(s) : s \in {t \in Shapes : NFiles(t) <= MaxFiles /\ NLic(t) <= MaxLic}}

Edge(op, args) == (Emit # "none") =>
    PrintT(<<"EDGE", ToJson([from |-> [d |-> doc, lay |-> lay], op |-> op, args |-> args, res |-> res',
                             alt |-> IF op = "find" THEN LenientFind(doc, args[1]) ELSE 0,
                             to |-> [d |-> doc', lay |-> lay']])>>)

FInit == /\ lay \in InitLays
         /\ doc \in [1..NFiles(lay) -> FPool]
         /\ fend = (IF FilesEndCounter THEN NFiles(lay) ELSE 0)
         /\ n = <<>> /\ memo = NoMemo /\ res = -9

SetFiles(k, ps) == /\ doc' = [doc EXCEPT ![k] = ps] /\ res' = -9 /\ UNCHANGED <<n, lay, fend, memo>>
                   /\ Edge("setfiles", <<k, ps>>)
\* at this level the same step: the paragraph holds ps now (GlobCache.tla has the machinery in between)
RawSet(k, ps)   == /\ doc' = [doc EXCEPT ![k] = ps] /\ res' = -9 /\ UNCHANGED <<n, lay, fend, memo>>
                   /\ Edge("rawset", <<k, ps>>)

\* last_i of add_files_paragraph (1-based; 0 = no Files paragraph): insert behind it
RECURSIVE Scan(_, _, _)
Scan(s, i, last) == IF i > Len(s) THEN last
                    ELSE IF s[i] # 0 THEN Scan(s, i + 1, i)
                    ELSE IF ScanStopsAtLicense THEN last
                    ELSE Scan(s, i + 1, last)
InsertPos == IF FilesEndCounter THEN fend ELSE Scan(lay, 1, 0)

AddFiles(ps) == /\ Len(doc) < MaxFiles
                /\ doc' = Append(doc, ps)
                /\ lay' = SubSeq(lay, 1, InsertPos) \o <<Len(doc) + 1>> \o SubSeq(lay, InsertPos + 1, Len(lay))
                /\ fend' = (IF FilesEndCounter THEN fend + 1 ELSE fend)
                /\ res' = -9 /\ UNCHANGED <<n, memo>>
                /\ Edge("addfiles", <<ps>>)

AddLicense == /\ NLic(lay) < MaxLic
              /\ lay' = Append(lay, 0) /\ res' = -9 /\ UNCHANGED <<doc, n, fend, memo>>
              /\ Edge("addlicense", <<>>)

\* dump and parse again: a new Copyright object over the same paragraphs in the same order
Reparse == /\ fend' = (IF FilesEndCounter THEN NFiles(lay) ELSE fend)
           /\ memo' = NoMemo /\ res' = -9 /\ UNCHANGED <<doc, n, lay>>
           /\ Edge("reparse", <<>>)

\* the loop of find_files_paragraph over all_files_paragraphs(), identities instead of positions
ImplFindLay(d, s, nm) == LET ord == FilesOf(s)
                             r   == ImplFind([i \in 1..Len(ord) |-> d[ord[i]]], nm)
                         IN  IF r > 0 THEN ord[r] ELSE r

Find(nm) ==
   /\ n' = nm /\ UNCHANGED <<doc, lay, fend>>
   /\ IF LookupMemo /\ memo[nm] # 0 /\ ImplMatches(doc[memo[nm]], nm) = "match"
      THEN res' = memo[nm] /\ UNCHANGED memo
      ELSE /\ res' = ImplFindLay(doc, lay, nm)
           /\ memo' = IF LookupMemo THEN [memo EXCEPT ![nm] = IF res' > 0 THEN res' ELSE 0] ELSE memo
   /\ Edge("find", <<nm>>)

FNext == \/ \E k \in 1..Len(doc), ps \in FPool : SetFiles(k, ps) \/ RawSet(k, ps)
         \/ \E ps \in FPool : AddFiles(ps)
         \/ AddLicense \/ Reparse
         \/ \E nm \in FNames : Find(nm)
FSpec == FInit /\ [][FNext]_fvars
FView == <<doc, lay, fend, memo>>

FindIsLast == [][\A nm \in FNames : Find(nm) => res' = RefFind(doc, nm)]_fvars
\* the Files paragraphs stand in the order of their identities, whatever License paragraphs are in between
ImplOrder  == FilesOf(lay) = [i \in 1..Len(doc) |-> i]

\* constants of MC_GlobFind*.cfg
MCFPool  == { << <<97>> >>, << <<42>> >>, << <<98>>, <<97, 42>> >>, << <<98, 63>> >> }
MCFPoolS == { << <<42>> >>, << <<98>>, <<97, 42>> >>, << <<98, 63>> >> }                \* quick
MCFPoolE == MCFPool \cup { << <<92, 97>> >> }                \* with an ill-formed list (thorough)
MCFNames == { <<97>>, <<98>>, <<97, 98>>, <<98, 10>> }
=============================================================================
