------------------------------ MODULE GlobFind ------------------------------
(***************************************************************************)
(* C16 -- Copyright.find_files_paragraph over HISTORIES of one document.   *)
(*                                                                         *)
(* Reference layer.  Every Files paragraph has an IDENTITY k = 1, 2, ...   *)
(* in the order the paragraphs came into the document: the Files           *)
(* paragraphs of a parsed document are numbered in text order, a paragraph *)
(* added with add_files_paragraph gets the next number ("inserted directly *)
(* after the last FilesParagraph": it becomes the LAST Files paragraph of  *)
(* the document).  doc[k] = the patterns paragraph k holds NOW.  Between   *)
(* lookups                                                                 *)
(*   SetFiles(k, ps)  p.files = [...]             (the property setter)    *)
(*   RawSet(k, ps)    data['Files'] = 'text'      (through the Deb822 the  *)
(*                    creator of FilesParagraph(data) kept, which the      *)
(*                    RestrictedWrapper docstring allows; the wrapper      *)
(*                    shows the new text: p['Files'], dump())              *)
(*   AddFiles(ps)     c.add_files_paragraph(p)                             *)
(*   AddLicense       c.add_license_paragraph(l)  (appended at the end)    *)
(*   Reparse          c := Copyright(c.dump())    (identities survive as   *)
(*                    tags the harness puts into an extra field)           *)
(* may happen in any order and every lookup must return the last paragraph *)
(* that matches NOW = the matching paragraph with the greatest identity:   *)
(* RefFind(doc, nm) of Glob.tla.  Stand-alone License paragraphs do not    *)
(* exist at this level: they must not influence any lookup.                *)
(*                                                                         *)
(* Implementation layer.  lay = the private paragraph list: 0 for a        *)
(* stand-alone License paragraph, k for Files paragraph k.  Any layout of  *)
(* <= MaxFiles Files and <= MaxLic License paragraphs is an initial state  *)
(* (a document parsed from text, e.g. Files, License, Files), so is the    *)
(* empty document.  add_files_paragraph scans lay for the last Files       *)
(* paragraph and inserts behind it; Find is the loop ImplFind of Glob.tla  *)
(* over the Files paragraphs in lay order.  TLC checks ImplOrder (Files    *)
(* identities ascend along lay) in every state and FindIsLast on every     *)
(* transition of the closed state space; the LTS (states = <<doc, lay>>)   *)
(* is emitted as EDGE lines and replayed on real documents.                *)
(*                                                                         *)
(* Negative controls (each makes TLC report FindIsLast violated):          *)
(*   LookupMemo = TRUE       a name -> paragraph memo re-validated only    *)
(*                           against the remembered paragraph (seeded      *)
(*                           change C16-seedB)                             *)
(*   FilesEndCounter = TRUE  the insert position is a counter of Files     *)
(*                           paragraphs kept by the parser and by          *)
(*                           add_files_paragraph instead of a scan: wrong  *)
(*                           as soon as a License paragraph precedes a     *)
(*                           Files paragraph (seeded change C16-seedJ;     *)
(*                           also violates ImplOrder)                      *)
(*   ScanStopsAtLicense = TRUE  the scan stops at the first paragraph that *)
(*                           is not a Files paragraph                      *)
(*   InsertByValue = TRUE    the last Files paragraph is located by VALUE  *)
(*                           (list.index with a value-based __eq__ of the  *)
(*                           paragraph wrappers): the first paragraph      *)
(*                           whose content equals that of the last Files   *)
(*                           paragraph gets the new one behind it (seeded  *)
(*                           change C16-seedK; also violates ImplOrder)    *)
(*                                                                         *)
(* Content.  oth[k] = the content of paragraph k apart from its Files      *)
(* field (Copyright, License, further fields) as a class: 0 = content no   *)
(* other paragraph has, m > 0 = the content every paragraph with mark m    *)
(* has.  Paragraphs j # k are CONTENT-EQUAL (copy-and-paste duplicates)    *)
(* iff oth[j] = oth[k] > 0 and doc[j] = doc[k] NOW.  Any assignment of     *)
(* marks is an initial state, AddFiles adds a paragraph of any mark (also  *)
(* one equal to a paragraph of the document), Touch(k, m) edits the other  *)
(* fields of paragraph k.  At the reference level content is irrelevant:   *)
(* a lookup returns an IDENTITY, and two content-equal paragraphs are      *)
(* still two paragraphs.                                                   *)
(*                                                                         *)
(* Faults of caller-supplied objects (notes/SIZE_STRESS.md part 5).        *)
(* Fault(f): a call whose caller-supplied argument fails part-way -- the   *)
(* dump of the document parsed again from an iterator / file object that   *)
(* raises or ends early ("parse"), c.dump(fd) with an fd whose write()     *)
(* raises or writes short ("dump"), p.files = an iterable that raises      *)
(* after some patterns ("setfiles"), globs_to_re(such an iterable)         *)
(* ("translate") -- changes NOTHING: document, layout and contents are as  *)
(* before, and the history goes on with ordinary steps.                    *)
(* The per-paragraph machinery behind RawSet (raw text / converted value / *)
(* compiled pattern) is modelled in GlobCache.tla.                         *)
(***************************************************************************)
EXTENDS Glob

CONSTANTS FPool,              \* pattern lists a paragraph's Files field takes
          FNames,             \* names looked up
          MaxFiles,           \* bound on Files paragraphs
          MaxLic,             \* bound on stand-alone License paragraphs
          LookupMemo,         \* FALSE
          FilesEndCounter,    \* FALSE
          ScanStopsAtLicense, \* FALSE
          InsertByValue,      \* FALSE
          Marks,              \* content classes of the fields other than Files: 0 = unique, m > 0 = shared
          Faults              \* kinds of calls with a faulting caller-supplied argument

VARIABLES lay,          \* layout of the document (see above)
          oth,          \* oth[k] = content class of paragraph k apart from Files (see above)
          fend,         \* FilesEndCounter only: the cached insert position; else 0
          memo,         \* name -> remembered paragraph (0 = none); unused unless LookupMemo
          res           \* result of the last call: identity, 0 = None, -1 = format error, -9 otherwise

fvars == <<doc, n, lay, oth, fend, memo, res>>

NoMemo == [nm \in FNames |-> 0]
RECURSIVE Count(_, _, _)
Count(s, i, lic) == IF i > Len(s) THEN 0
                    ELSE (IF (s[i] = 0) = lic THEN 1 ELSE 0) + Count(s, i + 1, lic)
NFiles(s) == Count(s, 1, FALSE)
NLic(s)   == Count(s, 1, TRUE)
FilesOf(s) == SelectSeq(s, LAMBDA x : x # 0)

\* layouts of parsed documents: identities ascend in text order
Number(s) == [i \in 1..Len(s) |-> IF s[i] = 0 THEN 0 ELSE NFiles(SubSeq(s, 1, i))]
Shapes == UNION {[1..m -> {0, 1}] : m \in 0..(MaxFiles + MaxLic)}
InitLays == {Number(s) : s \in {t \in Shapes : NFiles(t) <= MaxFiles /\ NLic(t) <= MaxLic}}

Edge(op, args) == (Emit # "none") =>
    PrintT(<<"EDGE", ToJson([from |-> [d |-> doc, lay |-> lay, oth |-> oth], op |-> op, args |-> args, res |-> res',
                             alt |-> IF op = "find" THEN LenientFind(doc, args[1]) ELSE 0,
                             to |-> [d |-> doc', lay |-> lay', oth |-> oth']])>>)

FInit == /\ lay \in InitLays
         /\ doc \in [1..NFiles(lay) -> FPool]
         /\ oth \in [1..NFiles(lay) -> Marks]
         /\ fend = (IF FilesEndCounter THEN NFiles(lay) ELSE 0)
         /\ n = <<>> /\ memo = NoMemo /\ res = -9

SetFiles(k, ps) == /\ doc' = [doc EXCEPT ![k] = ps] /\ res' = -9 /\ UNCHANGED <<n, lay, oth, fend, memo>>
                   /\ Edge("setfiles", <<k, ps>>)
\* at this level the same step: the paragraph holds ps now (GlobCache.tla has the machinery in between)
RawSet(k, ps)   == /\ doc' = [doc EXCEPT ![k] = ps] /\ res' = -9 /\ UNCHANGED <<n, lay, oth, fend, memo>>
                   /\ Edge("rawset", <<k, ps>>)
\* the other fields of paragraph k edited: its content class becomes m
Touch(k, m)     == /\ oth[k] # m
                   /\ oth' = [oth EXCEPT ![k] = m] /\ res' = -9 /\ UNCHANGED <<doc, n, lay, fend, memo>>
                   /\ Edge("touch", <<k, m>>)
\* a call whose caller-supplied argument fails part-way: nothing changes
Fault(f)        == /\ res' = -9 /\ UNCHANGED <<doc, n, lay, oth, fend, memo>>
                   /\ Edge("fault", <<f>>)

\* copy-and-paste duplicates: the same Files value and the same shared content
ContentEq(j, k) == j = k \/ (oth[j] # 0 /\ oth[j] = oth[k] /\ doc[j] = doc[k])

\* last_i of add_files_paragraph (1-based; 0 = no Files paragraph): insert behind it
RECURSIVE Scan(_, _, _)
Scan(s, i, last) == IF i > Len(s) THEN last
                    ELSE IF s[i] # 0 THEN Scan(s, i + 1, i)
                    ELSE IF ScanStopsAtLicense THEN last
                    ELSE Scan(s, i + 1, last)
\* InsertByValue: list.index(last Files paragraph) with value equality = the FIRST content-equal paragraph
RECURSIVE FirstEq(_, _, _)
FirstEq(s, i, k) == IF s[i] # 0 /\ ContentEq(s[i], k) THEN i ELSE FirstEq(s, i + 1, k)
InsertPos == IF FilesEndCounter THEN fend
             ELSE LET last == Scan(lay, 1, 0)
                  IN  IF InsertByValue /\ last # 0 THEN FirstEq(lay, 1, lay[last]) ELSE last

AddFiles(ps, m) ==
                /\ Len(doc) < MaxFiles
                /\ doc' = Append(doc, ps)
                /\ oth' = Append(oth, m)
                /\ lay' = SubSeq(lay, 1, InsertPos) \o <<Len(doc) + 1>> \o SubSeq(lay, InsertPos + 1, Len(lay))
                /\ fend' = (IF FilesEndCounter THEN fend + 1 ELSE fend)
                /\ res' = -9 /\ UNCHANGED <<n, memo>>
                /\ Edge("addfiles", <<ps, m>>)

AddLicense == /\ NLic(lay) < MaxLic
              /\ lay' = Append(lay, 0) /\ res' = -9 /\ UNCHANGED <<doc, n, oth, fend, memo>>
              /\ Edge("addlicense", <<>>)

\* dump and parse again: a new Copyright object over the same paragraphs in the same order
Reparse == /\ fend' = (IF FilesEndCounter THEN NFiles(lay) ELSE fend)
           /\ memo' = NoMemo /\ res' = -9 /\ UNCHANGED <<doc, n, lay, oth>>
           /\ Edge("reparse", <<>>)

\* the loop of find_files_paragraph over all_files_paragraphs(), identities instead of positions
ImplFindLay(d, s, nm) == LET ord == FilesOf(s)
                             r   == ImplFind([i \in 1..Len(ord) |-> d[ord[i]]], nm)
                         IN  IF r > 0 THEN ord[r] ELSE r

Find(nm) ==
   /\ n' = nm /\ UNCHANGED <<doc, lay, oth, fend>>
   /\ IF LookupMemo /\ memo[nm] # 0 /\ ImplMatches(doc[memo[nm]], nm) = "match"
      THEN res' = memo[nm] /\ UNCHANGED memo
      ELSE /\ res' = ImplFindLay(doc, lay, nm)
           /\ memo' = IF LookupMemo THEN [memo EXCEPT ![nm] = IF res' > 0 THEN res' ELSE 0] ELSE memo
   /\ Edge("find", <<nm>>)

FNext == \/ \E k \in 1..Len(doc), ps \in FPool : SetFiles(k, ps) \/ RawSet(k, ps)
         \/ \E k \in 1..Len(doc), m \in Marks : Touch(k, m)
         \/ \E ps \in FPool, m \in Marks : AddFiles(ps, m)
         \/ \E f \in Faults : Fault(f)
         \/ AddLicense \/ Reparse
         \/ \E nm \in FNames : Find(nm)
FSpec == FInit /\ [][FNext]_fvars
FView == <<doc, lay, oth, fend, memo>>

FindIsLast == [][\A nm \in FNames : Find(nm) => res' = RefFind(doc, nm)]_fvars
\* the Files paragraphs stand in the order of their identities, whatever License paragraphs are in between
ImplOrder  == FilesOf(lay) = [i \in 1..Len(doc) |-> i]

\* constants of MC_GlobFind*.cfg
MCFPool  == { << <<97>> >>, << <<42>> >>, << <<98>>, <<97, 42>> >>, << <<98, 63>> >> }
MCFPoolS == { << <<42>> >>, << <<98>>, <<97, 42>> >>, << <<98, 63>> >> }                \* quick
MCFPoolE == MCFPool \cup { << <<92, 97>> >> }                \* with an ill-formed list (thorough)
MCFPoolQ == { << <<42>> >>, << <<98>>, <<97, 42>> >> }                                  \* MC_GlobFind_eq.cfg
MCFaults == { "parse", "dump", "setfiles", "translate" }
MCFNames == { <<97>>, <<98>>, <<97, 98>>, <<98, 10>> }
=============================================================================
