------------------------------ MODULE GlobFind ------------------------------
(***************************************************************************)
(* C16 -- Copyright.find_files_paragraph over HISTORIES of one document:   *)
(* the Files field of any paragraph may be re-assigned in place between    *)
(* lookups (p.files = [...]), and every lookup must return the last        *)
(* paragraph that matches NOW.  doc = <<paragraph>> with every paragraph   *)
(* drawn from FPool; actions SetFiles(k, ps) and Find(nm) in any order.    *)
(* The current code keeps no per-document state, so Find is the loop       *)
(* ImplFind of Glob.tla; TLC checks FindIsLast on every transition of the  *)
(* closed state space and the LTS is emitted as EDGE lines and replayed.   *)
(* Negative control: LookupMemo = TRUE adds a name -> paragraph memo that  *)
(* is re-validated only against the remembered paragraph (seeded change    *)
(* C16-seedB): after a LATER paragraph starts to match, the earlier one is *)
(* still returned and TLC reports FindIsLast violated.                     *)
(***************************************************************************)
EXTENDS Glob

CONSTANTS FPool,        \* pattern lists a paragraph's Files field takes
          FNames,       \* names looked up
          NParas,       \* number of Files paragraphs
          LookupMemo    \* FALSE

VARIABLES memo,         \* name -> remembered paragraph index (0 = none); unused unless LookupMemo
          res           \* result of the last call: index, 0 = None, -1 = format error, -9 after SetFiles

fvars == <<doc, n, memo, res>>

Edge(op, args) == (Emit # "none") =>
    PrintT(<<"EDGE", ToJson([from |-> doc, op |-> op, args |-> args, res |-> res',
                             alt |-> IF op = "find" THEN LenientFind(doc, args[1]) ELSE 0, to |-> doc'])>>)

FInit == /\ doc \in [1..NParas -> FPool]
         /\ n = <<>> /\ memo = [nm \in FNames |-> 0] /\ res = -9

SetFiles(k, ps) == /\ doc' = [doc EXCEPT ![k] = ps] /\ res' = -9 /\ UNCHANGED <<n, memo>>
                   /\ Edge("setfiles", <<k, ps>>)

Find(nm) ==
   /\ n' = nm /\ UNCHANGED doc
   /\ IF LookupMemo /\ memo[nm] # 0 /\ ImplMatches(doc[memo[nm]], nm) = "match"
      THEN res' = memo[nm] /\ UNCHANGED memo
      ELSE /\ res' = ImplFind(doc, nm)
           /\ memo' = IF LookupMemo THEN [memo EXCEPT ![nm] = IF res' > 0 THEN res' ELSE 0] ELSE memo
   /\ Edge("find", <<nm>>)

FNext == (\E k \in 1..NParas, ps \in FPool : SetFiles(k, ps)) \/ (\E nm \in FNames : Find(nm))
FSpec == FInit /\ [][FNext]_fvars
FView == <<doc, memo>>

FindIsLast == [][\A nm \in FNames : Find(nm) => res' = RefFind(doc, nm)]_fvars

\* constants of MC_GlobFind*.cfg
MCFPool  == { << <<97>> >>, << <<42>> >>, << <<98>>, <<97, 42>> >>, << <<98, 63>> >> }
MCFPoolE == MCFPool \cup { << <<92, 97>> >> }                \* with an ill-formed list (thorough)
MCFNames == { <<97>>, <<98>>, <<97, 98>>, <<98, 10>> }
=============================================================================
