\* C07 payload layer, thorough: every sequence over the 7 classes up to length 5, over {x,b,s,u,n} up to 7
SPECIFICATION Spec
CONSTANTS
  Alphabet = {"x", "b", "v", "s", "u", "n", "r"}
  CoreAlphabet = {"x", "b", "s", "u", "n"}
  ShortLen = 5
  MaxLen = 7
  CtlSplitsLikeStr = FALSE
  Md5StripsLine = FALSE
  Md5TextSplitsLikeStr = FALSE
  EmitShapes = TRUE
INVARIANTS CtlExact D1IsReject Md5Exact Shapes
CHECK_DEADLOCK FALSE
