CONSTANTS
  GMaxLines = 0
  GPalette = {}
  GMaxLen = 4
  GShort = 4
  ArglessQuirk = FALSE
  FirstWins = FALSE
  ValidAny = FALSE
  GEmit = FALSE
SPECIFICATION LSpec
INVARIANT GTypeOK
INVARIANT LineRefines
CHECK_DEADLOCK FALSE
