CONSTANTS
  Which = "one"
  MaxLen = 3
  NF = 1
  NL = 1
  Emit = FALSE
  AddMode = "append"
  SharedList = FALSE
SPECIFICATION SSpec
PROPERTY AddFilesRule
VIEW SView
CHECK_DEADLOCK FALSE
