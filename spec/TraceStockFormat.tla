-------------------------- MODULE TraceStockFormat --------------------------
(***************************************************************************)
(* X17 -- trace validation for the stock formatter: every recorded call of *)
(* format_field(one_value_per_line_trailing_separator, name, sep, tokens)  *)
(* [form, sep, nl (the length of the name), inp (tokens classified by the  *)
(* harness), res = [v, out]] -- out = the returned text lexed back into    *)
(* pieces (newline, run of k spaces, the text of input token p, the        *)
(* separator) -- must be what StockFormat!FFOut says: the verdict and the  *)
(* exact sequence of pieces (indent = nl + 2 computed here).  Names of     *)
(* 1..8193 characters and streams of up to 1000 tokens are validated: the  *)
(* pieces refer to tokens by position, so the verdict is independent of    *)
(* the length of their texts by construction.                              *)
(***************************************************************************)
EXTENDS StockFormat, Json, IOUtils, TLCExt

Traces == JsonDeserialize(IOEnv.TRACE_FILE)
VARIABLES tid, l
TInit == tid \in 1..Len(Traces) /\ l = 1
Explains(e) == LET r == FFOut(e.form, e.nl, e.sep, e.inp) IN
               IF r.v = "unspec" THEN TRUE
               ELSE IF r.v # e.res.v THEN FALSE
               ELSE IF r.v = "ok" THEN r.out = e.res.out ELSE TRUE
TStep == /\ l = 1
         /\ Explains(Traces[tid]) = TRUE
         /\ l' = 2 /\ UNCHANGED tid
         /\ PrintT(<<"ACCEPTED", tid>>)
TSpec == TInit /\ [][TStep]_<<tid, l>>
=============================================================================
