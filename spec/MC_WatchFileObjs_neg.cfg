CONSTANTS
  MaxObjs = 3
  MaxOps = 5
  SharedDefault = FALSE
  SharedWatchDefault = FALSE
  ParseCached = FALSE
SPECIFICATION HSpec
INVARIANT HeapAgrees
CHECK_DEADLOCK FALSE
