---------------------------- MODULE CopyrightConv ----------------------------
(***************************************************************************)
(* X13 (extra) -- the value conversions behind the typed attributes of     *)
(* debian.copyright: _LineBased (Upstream-Contact, Files-Excluded,         *)
(* Files-Included), _SpaceSeparated (Files) and _single_line (Format,      *)
(* Upstream-Name), at the level of character CLASSES.                      *)
(*                                                                         *)
(* A text is a sequence of symbols:                                        *)
(*   "a" "b"  characters that are no white space (two kinds, so that items *)
(*            can differ)                                                  *)
(*   "s"      blank or tab                                                 *)
(*   "n"      newline                                                      *)
(*   "k"      a character str.splitlines() breaks at besides newline: CR   *)
(*            VT FF FS GS RS NEL U+2028 U+2029 (all are white space)       *)
(*   "u"      any other white space: US, NBSP, U+2003, U+3000 ...          *)
(* A concrete string is abstracted character by character, so every        *)
(* operator below commutes with replacing a symbol by a non-empty string   *)
(* of its class: TLC's result for the symbols is the result for strings of *)
(* any length (size stress goes through the concretization).  Results      *)
(* refer to pieces of the input by RANGES [i, lo, hi] (item i, positions   *)
(* lo..hi; i = 0: a literal newline (lo = 0) or a literal blank (lo = 1)). *)
(*                                                                         *)
(* STATEMENT (conversion part).                                            *)
(*   lines  to_str(l): None for the empty list; the items with white space *)
(*          stripped, one per line -- a single item on the first line,     *)
(*          several on continuation lines after an empty first line;       *)
(*          MachineReadableFormatError when a stripped item is empty or    *)
(*          contains a newline.  from_str(raw): the non-empty stripped     *)
(*          lines of raw, () for None.  from_str(to_str(l)) = the stripped *)
(*          items, and to_str(l) is a well-formed deb822 value.            *)
(*   words  to_str(l): None for the empty list; the items joined by one    *)
(*          blank; MachineReadableFormatError when an item is empty or     *)
(*          contains white space of any kind.  from_str(raw): the maximal  *)
(*          runs of non-white-space, () for None.  from_str(to_str(l)) = l *)
(*   single a value is stored as given unless it contains a newline        *)
(*          (MachineReadableFormatError).                                  *)
(* Unspecified: a line-break look-alike ("k") that stripping does not      *)
(* remove, for `lines` (validation looks for newline, reading splits at    *)
(* every str.splitlines() boundary); the empty string for `single`.        *)
(*                                                                         *)
(* Negative controls: NoStrip (items stored unstripped) -> DebSafeLines;    *)
(* SplitLinesSingle (`single` refuses every splitlines boundary)           *)
(* -> SingleLaw.                                                           *)
(***************************************************************************)
EXTENDS Naturals, Sequences, FiniteSets, SequencesExt, TLC, Json

CONSTANTS NoStrip, SplitLinesSingle

Sym     == {"a", "b", "s", "n", "k", "u"}
IsWs(c) == c \in {"s", "n", "k", "u"}
IsLb(c) == c \in {"n", "k"}

Rg(i, lo, hi) == [i |-> i, lo |-> lo, hi |-> hi]
LitNL == Rg(0, 0, 0)
LitSP == Rg(0, 1, 1)
Least(S)    == CHOOSE x \in S : \A y \in S : x <= y
Greatest(S) == CHOOSE x \in S : \A y \in S : y <= x

\* x[lo..hi] without leading / trailing white space: a range (lo > hi: nothing left)
StripR(x, i, lo, hi) == LET ks == {j \in lo..hi : ~IsWs(x[j])} IN
                        IF ks = {} THEN Rg(i, 1, 0) ELSE Rg(i, Least(ks), Greatest(ks))
EmptyR(r) == r.lo > r.hi
Cut(x, r) == SubSeq(x, r.lo, r.hi)

\* maximal runs of characters that are no separator, left to right
Runs(x, IsSep(_)) ==
    LET S == {r \in {Rg(1, lo, hi) : lo \in 1..Len(x), hi \in 1..Len(x)} :
                /\ r.lo <= r.hi
                /\ \A j \in r.lo..r.hi : ~IsSep(x[j])
                /\ (r.lo = 1 \/ IsSep(x[r.lo - 1]))
                /\ (r.hi = Len(x) \/ IsSep(x[r.hi + 1]))}
    IN SetToSortSeq(S, LAMBDA p, q : p.lo < q.lo)

\* ---- words (_SpaceSeparated)
WordsFrom(x) == Runs(x, IsWs)
WordsTo(l) ==
    IF l = <<>> THEN [t |-> "nil", out |-> <<>>, items |-> <<>>]
    ELSE IF \E i \in DOMAIN l : l[i] = <<>> \/ \E j \in DOMAIN l[i] : IsWs(l[i][j])
         THEN [t |-> "fail", out |-> <<>>, items |-> <<>>]
    ELSE LET its == [i \in DOMAIN l |-> Rg(i, 1, Len(l[i]))] IN
         [t |-> "raw", items |-> its,
          out |-> FoldLeft(LAMBDA acc, r : IF acc = <<>> THEN <<r>> ELSE acc \o <<LitSP, r>>, <<>>, its)]

\* ---- lines (_LineBased)
LinesFromWith(x, IsBreak(_)) ==
    LET rs == Runs(x, IsBreak)
        st == [j \in DOMAIN rs |-> StripR(x, 1, rs[j].lo, rs[j].hi)]
    IN SelectSeq(st, LAMBDA r : ~EmptyR(r))
LinesFrom(x)      == LinesFromWith(x, IsLb)
\* the other reading of "line": newline only, look-alikes are plain white space
LinesFromAlt(x)   == LinesFromWith(x, LAMBDA c : c = "n")
LinesFromUnspec(x) == [j \in DOMAIN LinesFrom(x) |-> Cut(x, LinesFrom(x)[j])] # [j \in DOMAIN LinesFromAlt(x) |-> Cut(x, LinesFromAlt(x)[j])]
LinesTo(l) ==
    IF l = <<>> THEN [t |-> "nil", out |-> <<>>, items |-> <<>>]
    ELSE LET its == [i \in DOMAIN l |-> IF NoStrip THEN Rg(i, 1, Len(l[i])) ELSE StripR(l[i], i, 1, Len(l[i]))]
             st  == [i \in DOMAIN l |-> StripR(l[i], i, 1, Len(l[i]))] IN
         IF \E i \in DOMAIN l : EmptyR(st[i]) \/ "n" \in ToSet(Cut(l[i], st[i]))
         THEN [t |-> "fail", out |-> <<>>, items |-> <<>>]
         ELSE IF \E i \in DOMAIN l : "k" \in ToSet(Cut(l[i], st[i]))
         THEN [t |-> "unspec", out |-> <<>>, items |-> <<>>]
         ELSE [t |-> "raw", items |-> its,
               out |-> IF Len(l) = 1 THEN <<its[1]>>
                       ELSE FoldLeft(LAMBDA acc, r : acc \o <<LitNL, LitSP, r>>, <<>>, its)]

\* ---- single line
SingleTo(x) == IF x = <<>> THEN "unspec"
               ELSE IF "n" \in ToSet(x) \/ (SplitLinesSingle /\ "k" \in ToSet(x)) THEN "fail" ELSE "raw"

\* the text a result stands for
Flat(l, out) == FoldLeft(LAMBDA acc, r : acc \o (IF r.i = 0 THEN (IF r.lo = 0 THEN <<"n">> ELSE <<"s">>) ELSE Cut(l[r.i], r)), <<>>, out)
Vals(l, its) == [j \in DOMAIN its |-> Cut(l[its[j].i], its[j])]

\* a well-formed deb822 value: no trailing newline, every line after the first starts with a blank and
\* is not white space only
DebSafe(x) == /\ (x # <<>> => x[Len(x)] # "n")
              /\ \A j \in DOMAIN x : x[j] = "n" =>
                    /\ j < Len(x) /\ x[j + 1] = "s"
                    /\ \E m \in (j + 1)..Len(x) : ~IsWs(x[m]) /\ \A q \in (j + 1)..m : x[q] # "n"
=============================================================================
