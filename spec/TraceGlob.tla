----------------------------- MODULE TraceGlob -----------------------------
(***************************************************************************)
(* C16 -- trace validation: histories recorded from the real code          *)
(* (harness/props/c16.py: FilesParagraph.create / parsed copyright text,   *)
(* files = ..., matches(name), Copyright.find_files_paragraph(name)) are   *)
(* checked against the REFERENCE operators of Glob.tla evaluated on the    *)
(* concrete code points (arbitrary Unicode, longer patterns and names than *)
(* the model constants).                                                   *)
(* A trace is [events |-> <<event>>]; events:                              *)
(*   [op |-> "doc", d]            a new document: <<paragraph>> of patterns*)
(*   [op |-> "setfiles", k, ps]   paragraph k gets the Files value ps      *)
(*   [op |-> "rawset", k, ps]     the same, written through the Deb822 the *)
(*                                creator of FilesParagraph(data) kept     *)
(*   [op |-> "addfiles", ps]      add_files_paragraph: the new paragraph   *)
(*                                is the LAST Files paragraph, identity    *)
(*                                Len(doc) + 1 (GlobFind.tla)              *)
(*   [op |-> "addlicense"] [op |-> "reparse"] [op |-> "touch"]             *)
(*                                a stand-alone License paragraph added /  *)
(*                                the document dumped and parsed again /   *)
(*                                another field of a paragraph edited:     *)
(*                                nothing a lookup may depend on changes   *)
(*   [op |-> "fault"]             a call whose caller-supplied argument    *)
(*                                failed part-way (a faulting iterator of  *)
(*                                lines parsed, dump(fd) with a failing    *)
(*                                fd, files = / globs_to_re(an iterable    *)
(*                                that raises)): NOTHING changes -- not    *)
(*                                the document, not the translation held,  *)
(*                                not even the answers already given       *)
(*                                (GlobFind.tla, Fault)                    *)
(*   [op |-> "matches", k, n, res]  res in "match"/"nomatch"/"FormatError" *)
(*   [op |-> "find", n, res]      res = IDENTITY of the returned paragraph *)
(*                                (its number in the order the Files       *)
(*                                paragraphs came into the document; the   *)
(*                                harness follows objects, and tags that   *)
(*                                survive dump + parse), 0 = None,         *)
(*                                -1 = ValueError                          *)
(*   [op |-> "translate", ps, res]  rx = globs_to_re(ps) called directly   *)
(*                                (patterns may contain LF and blanks):    *)
(*                                res = "ok" / "FormatError"; rx keeps its *)
(*                                value when the call raises               *)
(*   [op |-> "query", n, res]     rx.fullmatch(n): "match" / "nomatch"     *)
(* find on a document with an ill-formed paragraph: the statement does not *)
(* say whether the error wins over a later match, both the format error    *)
(* and the last well-formed match are accepted -- but the answer is a      *)
(* function of (document, name): asking the same name again while the      *)
(* document is unchanged must give the same answer (seen).                 *)
(* <<"ACCEPTED", tid>> is printed for every completely explained trace.    *)
(***************************************************************************)
EXTENDS Glob, IOUtils

Traces == JsonDeserialize(IOEnv.TRACE_FILE)
Diag   == IOEnv.TRACE_DIAG = "1"

VARIABLES tid, l,
          tl,      \* the pattern list of the last successful direct translation
          seen     \* <<name, result>> of the find calls since the document last changed

Tr == Traces[tid]

TInit == /\ tid \in 1..Len(Traces)
         /\ l = 1
         /\ doc = <<>> /\ n = <<>> /\ tl = <<>> /\ seen = {}

TStep == /\ l <= Len(Tr.events)
         /\ LET e == Tr.events[l] IN
              \/ e.op = "doc" /\ doc' = e.d /\ n' = n /\ seen' = {} /\ UNCHANGED tl
              \/ /\ e.op \in {"setfiles", "rawset"} /\ e.k \in 1..Len(doc)
                 /\ doc' = [doc EXCEPT ![e.k] = e.ps] /\ n' = n /\ seen' = {} /\ UNCHANGED tl
              \/ /\ e.op = "addfiles"
                 /\ doc' = Append(doc, e.ps) /\ n' = n /\ seen' = {} /\ UNCHANGED tl
              \/ /\ e.op \in {"addlicense", "reparse", "touch"}
                 /\ seen' = {} /\ UNCHANGED <<doc, n, tl>>
              \/ /\ e.op = "fault"
                 /\ UNCHANGED <<doc, n, tl, seen>>
              \/ /\ e.op = "matches" /\ e.k \in 1..Len(doc)
                 /\ doc' = doc /\ n' = e.n /\ UNCHANGED <<tl, seen>>
                 /\ e.res = RefMatches(doc[e.k], e.n)
              \/ /\ e.op = "find"
                 /\ doc' = doc /\ n' = e.n /\ UNCHANGED tl
                 /\ e.res \in {RefFind(doc, e.n), LenientFind(doc, e.n)}
                 /\ \A s \in seen : s[1] = e.n => s[2] = e.res
                 /\ seen' = seen \cup {<<e.n, e.res>>}
              \/ /\ e.op = "translate"
                 /\ e.res = (IF AllOK(e.ps) THEN "ok" ELSE "FormatError")
                 /\ tl' = (IF AllOK(e.ps) THEN e.ps ELSE tl)
                 /\ UNCHANGED <<doc, n, seen>>
              \/ /\ e.op = "query"
                 /\ e.res = RefMatches(tl, e.n)
                 /\ n' = e.n /\ UNCHANGED <<doc, tl, seen>>
         /\ l' = l + 1 /\ UNCHANGED tid
         /\ (Diag => PrintT(<<"AT", tid, l>>))
         /\ (l' = Len(Tr.events) + 1 => PrintT(<<"ACCEPTED", tid>>))

TSpec == TInit /\ [][TStep]_<<vars, tid, l, tl, seen>>

\* the implementation-layer model (fullmatch discipline) agrees with the reference on every
\* observed input, far beyond the bounded configuration
TImplAgrees == /\ \A k \in 1..Len(doc) : ImplMatches(doc[k], n) = RefMatches(doc[k], n)
               /\ ImplFind(doc, n) = RefFind(doc, n)
               /\ ImplMatches(tl, n) = RefMatches(tl, n) \/ tl = <<>>
=============================================================================
