-------------------------- MODULE TraceDeb822Opts --------------------------
(***************************************************************************)
(* X16 -- trace validation: histories recorded from the real debian.deb822  *)
(* classes (harness/props/x16.py) are explained by the pure operators of    *)
(* Deb822Opts.tla.                                                          *)
(* A trace is [env, init, events]:                                          *)
(*   env.tcl / env.scl   character class ("a" / "l" / "w") of every token / *)
(*                       spelling id (payloads are interned ids: TLC needs  *)
(*                       equality only, sizes cost nothing here)            *)
(*   init                the live objects [cls, enc, m] at the start        *)
(*   events, by kind:                                                       *)
(*     call   [c, res, obs]          one call of OCall on the live objects  *)
(*     read   [api, doc, cls, sarg, want, enc, ocls, res, obs]              *)
(*            Deb822(doc, fields, strict) (api = "ctor") or                 *)
(*            Cls.iter_paragraphs(..) (api = "iter"); doc = the lines with  *)
(*            the class the concretizer gave them; res = the fields of the  *)
(*            objects obtained (empty ones dropped for "iter"), which join  *)
(*            the live objects when adopt is true                           *)
(*     split  [doc, sarg, res]       split_gpg_and_payload /                *)
(*            gpg_stripped_paragraph: the three parts as line numbers       *)
(*     acc    [what, ...]            the accessor tables                    *)
(*   obs = the fields of EVERY live object after the event.                 *)
(* An event is explained by the statement (StmtFlags).  When IOEnv says a   *)
(* finding is open (KNOWN_EXACT / KNOWN_STOP / KNOWN_EQ = "1") an event     *)
(* that only the as-built switch explains is accepted with a <<"REJECT",    *)
(* tid, finding, l>> note for the harness.  Events in the unspecified zone  *)
(* (document outside InDomain, `any` outcomes) are accepted as observed.    *)
(***************************************************************************)
EXTENDS Deb822Opts, IOUtils, TLCExt

Traces     == JsonDeserialize(IOEnv.TRACE_FILE)
Diag       == IOEnv.TRACE_DIAG = "1"
KnownExact == IOEnv.KNOWN_EXACT = "1"
KnownStop  == IOEnv.KNOWN_STOP = "1"
KnownEq    == IOEnv.KNOWN_EQ = "1"

VARIABLES tid, l, os

Tr == Traces[tid]
Ms(s) == [i \in 1..Len(s) |-> s[i].m]

TInit == /\ tid \in 1..Len(Traces)
         /\ l = 1
         /\ os = Traces[tid].init

Note(what) == PrintT(<<"REJECT", tid, what, l>>)
F3(exact, stop, eqr) == Flags(exact, stop, eqr, FALSE, FALSE, FALSE, FALSE)

\* ---- call
\* encodings: the harness reports under WHICH encodings the bytes written are the text (pure ASCII fits all)
ResMatch(r, e) ==
    IF r.t # e.t THEN FALSE
    ELSE IF r.t \in {"wrote", "bytes"} THEN
        /\ r.x.t = e.x.t
        /\ (r.t = "wrote" => r.x.k = e.x.k)
        /\ ((r.t = "wrote" /\ r.x.k = "t") \/ r.x.enc \in ToSet(e.x.encs))
    ELSE r.x = e.x
CallOk(o, e) == (o.any \/ ResMatch(o.r, e.res)) /\ Ms(o.os) = e.obs
TCall(e) ==
    LET c  == C(e.c.op, e.c.o, e.c.n, e.c.s, e.c.v, e.c.d, e.c.o2, e.c.k, e.c.enc)
        so == OCall(Tr.env, os, StmtFlags, c)
    IN IF CallOk(so, e) THEN os' = so.os
       ELSE LET ko == OCall(Tr.env, os, F3(FALSE, FALSE, KnownEq), c) IN
            /\ Chk(CallOk(ko, e))
            /\ os' = ko.os
            /\ Note("X16-eq-non-mapping")

\* ---- read
Expected(e, ws, fl) == IF e.api = "ctor" THEN <<Ctor(e.doc, ws, e.want, fl)>> ELSE Iter(e.doc, ws, e.want, fl)
Adopt(e) == os \o [i \in 1..Len(e.res) |-> [cls |-> e.ocls, enc |-> e.enc, m |-> e.res[i]]]
TRead(e) ==
    LET ws == EffWs(e.cls, e.api, e.sarg, StmtFlags) IN
    /\ os' = (IF e.adopt THEN Adopt(e) ELSE os)
    /\ Chk(Ms(os') = e.obs)
    /\ IF ~InDomain(e.doc, ws) \/ (e.cls = "lenient" /\ e.sarg = "other") THEN Note("unspecified-read")
       ELSE IF Expected(e, ws, StmtFlags) = e.res THEN TRUE
       ELSE IF KnownExact /\ Expected(e, ws, F3(TRUE, FALSE, FALSE)) = e.res THEN Note("X16-fields-exact-spelling")
       ELSE IF KnownStop /\ Expected(e, ws, F3(FALSE, TRUE, FALSE)) = e.res THEN Note("X16-filter-stops-iteration")
       ELSE /\ KnownExact /\ KnownStop
            /\ Chk(Expected(e, ws, F3(TRUE, TRUE, FALSE)) = e.res)
            /\ Note("X16-fields-exact-spelling") /\ Note("X16-filter-stops-iteration")

\* ---- split_gpg_and_payload (a static method: nothing live changes)
Ids(ls) == [i \in 1..Len(ls) |-> ls[i].i]
TSplit(e) ==
    LET ws == EffWs("plain", "ctor", e.sarg, StmtFlags)
        r  == Split(e.doc, ws)
    IN /\ os' = os
       /\ Chk(Ms(os) = e.obs)
       /\ Chk(r.t = e.res.t)
       /\ IF r.t = "err" THEN Chk(r.x = e.res.x)
          ELSE Chk(Ids(r.x.pre) = e.res.x.pre /\ Ids(r.x.pay) = e.res.x.pay /\ Ids(r.x.post) = e.res.x.post)

\* ---- accessors
TAcc(e) ==
    /\ os' = os
    /\ Chk(Ms(os) = e.obs)
    /\ IF e.what = "pool" THEN LET p == PoolPath(e.sec, e.src) IN Chk(p.any \/ (p.comp = e.res.comp /\ p.pre = e.res.pre))
       ELSE LET p == PkgSource(e.srcf) IN Chk(p.name = e.res.name /\ p.ver = e.res.ver)

TStep == /\ l <= Len(Tr.events)
         /\ LET e == Tr.events[l] IN
            CASE e.kind = "call"  -> TCall(e)
              [] e.kind = "read"  -> TRead(e)
              [] e.kind = "split" -> TSplit(e)
              [] e.kind = "acc"   -> TAcc(e)
         /\ l' = l + 1 /\ UNCHANGED tid
         /\ (Diag => PrintT(<<"AT", tid, l>>))
         /\ (l' = Len(Tr.events) + 1 => PrintT(<<"ACCEPTED", tid>>))

TSpec == TInit /\ [][TStep]_<<tid, l, os>>
\* the mapping invariant also holds along every observed execution
TUnique == \A i \in 1..Len(os) : MUnique(os[i].m)
=============================================================================
