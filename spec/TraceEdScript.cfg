CONSTANTS
  Ids = {}
  MaxBuf = 0
  MaxCmds = 0
  MinBlock = 1
  MaxBlock = 0
  Adjacent = TRUE
  Ascending = FALSE
  OffByOne = FALSE
  AcceptUnterminated = FALSE
  Emit = FALSE
SPECIFICATION TSpec
CHECK_DEADLOCK FALSE
