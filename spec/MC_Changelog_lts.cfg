\* C15: closed, history-free configuration (all 24 classes, both allow_empty_author settings)
CONSTANTS
  Mode = "lts"
  Classes <- AllClasses
  AEAs = {TRUE, FALSE}
  MaxLines = 0
  MaxBlocks = 0
  MaxBody = 0
  MaxLead = 0
  MaxSep = 0
  Budget = 0
  MaxEdits = 0
  Bug = "none"
  Emit = TRUE
SPECIFICATION Spec
INVARIANT LtsTypeOK
INVARIANT Total
INVARIANT Deterministic
INVARIANT PayloadFree
INVARIANT CascadeAgrees
INVARIANT StrictIffWarn
INVARIANT SlurpOnlyFromHeading
INVARIANT TrailingHasTarget
CHECK_DEADLOCK FALSE
