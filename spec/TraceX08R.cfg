CONSTANTS
  RlKeyMode = "position"
  RlCopies = FALSE
  RlAsk = {}
  RlMaxObjs = 0
  RlEmit = FALSE
SPECIFICATION TSpec
CHECK_DEADLOCK FALSE
