\* C07 payload layer, negative control: CtlSplitsLikeStr = TRUE
SPECIFICATION Spec
CONSTANTS
  Alphabet = {"x", "b", "v", "s", "u", "n", "r"}
  CoreAlphabet = {"x", "b", "s", "u", "n"}
  ShortLen = 4
  MaxLen = 4
  CtlSplitsLikeStr = TRUE
  Md5StripsLine = FALSE
  Md5TextSplitsLikeStr = FALSE
  EmitShapes = FALSE
INVARIANTS CtlExact
CHECK_DEADLOCK FALSE
