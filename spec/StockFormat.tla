---------------------------- MODULE StockFormat ----------------------------
(***************************************************************************)
(* X17 (extra) -- the exact text written by the stock formatter of the     *)
(* format-preserving parser, debian._deb822_repro.formatter:               *)
(*   format_field(one_value_per_line_trailing_separator, name, sep, toks)  *)
(* ("one value per line, always trailing separator").                      *)
(*                                                                         *)
(* INPUT  a stream of FormatterContentTokens <<kind, flavour, id>>:        *)
(*   <<"V", f, i>>  value token;  f = "w" a word, "ww" text with a blank   *)
(*                  inside (one value of a comma list), "hw" a word that   *)
(*                  begins with '#', "lead" / "trail" text that begins /   *)
(*                  ends with white space (invalid test data)              *)
(*   <<"C", f, i>>  comment token; f = "ok" ('#...' + newline), "nohash",  *)
(*                  "nonl" (invalid test data)                             *)
(*   <<"S", f, i>>  separator token of the input (ignored by the formatter)*)
(* the separator argument sep = "sp" ' ' | "cm" ',' | "tab" | "semi" ';'   *)
(* (is_whitespace decides), the length of the field name, and the FORM of  *)
(* the stream ("list" | "iter": format_field inspects a list up front).    *)
(*                                                                         *)
(* OUTPUT  the text behind "name:" as PIECES                               *)
(*   <<"n">> a newline   <<"b", k>> k spaces   <<"V", p>> / <<"C", p>> the *)
(*   text of input token number p   <<"S">> the text of the separator      *)
(* so that the harness rebuilds the EXACT text for tokens and names of any *)
(* length (length independence by construction; the indent is a number     *)
(* computed by TLC from the length of the name).                           *)
(*                                                                         *)
(* Documented layout (docstring of format_field and its doctests): the     *)
(* first value follows the colon after ONE space; every further value      *)
(* stands on its own line indented by len(name) + 2 spaces; a comment      *)
(* token is a complete line in column 0 in front of the value it precedes; *)
(* when the stream starts with a comment the value part starts with a      *)
(* newline; a non-whitespace separator follows EVERY value (also the       *)
(* last), a whitespace separator is never written; separator tokens of the *)
(* input are dropped; every line ends in a newline.                        *)
(* Verdict (FFOut): ValueError for invalid test data (a value token with   *)
(* surrounding white space, a comment token without '#' / newline), for a  *)
(* list that ends in a comment token and for a stream without value and    *)
(* comment (no newline at the end); "unspec" (any outcome) for an empty    *)
(* list and for a stream whose last content token is a comment handed in   *)
(* as an iterator or followed by separators; otherwise the text.  Form     *)
(* "fault" (SIZE_STRESS part 5): the caller's token iterator raises after  *)
(* some tokens -- the caller's exception comes out ("CallerError"); the    *)
(* formatter keeps no state, so the identical valid call afterwards is     *)
(* judged like any other call.                                             *)
(* STATEMENT checked by TLC for every stream up to MaxInp tokens           *)
(* (InvLayout): the pieces obey the run-time contract (comments directly   *)
(* after a newline, a blank in front of every value, no two values without *)
(* a line break, last piece a newline), and for sep in {sp, cm} the text   *)
(* lexed back into the layout tokens of ListView.tla (C11) is a VALID      *)
(* field whose list of values (reference reader Split) is exactly the      *)
(* value tokens in order and whose comment lines are the comment tokens in *)
(* order -- "the result re-reads as the same values".                      *)
(* Negative controls (constant BadShip): "nosep" (no separator after the   *)
(* last value), "indent1" (indent len(name)+1), "nofirstnl" (no newline in *)
(* front of a leading comment), "keepsep" (input separators copied).       *)
(***************************************************************************)
EXTENDS Integers, Sequences, FiniteSets, SequencesExt, TLC

CONSTANT BadShip

LV == INSTANCE ListView WITH vals <- <<>>, tail <- "none", res <- "ok"

IsContent(t) == t[1] \in {"V", "C"}
SepIsWs(sep) == sep \in {"sp", "tab"}
SfIdx(s)     == [j \in 1..Len(s) |-> j]
Contents(inp) == {i \in 1..Len(inp) : IsContent(inp[i])}
SfMax(S)     == CHOOSE i \in S : \A j \in S : i >= j
LastValue(inp) == LET Vs == {i \in 1..Len(inp) : inp[i][1] = "V"} IN IF Vs = {} THEN 0 ELSE SfMax(Vs)

\* one_value_per_line_trailing_separator, token by token
Ship(nameLen, sep, inp) ==
   LET piece(i) ==
          LET t     == inp[i]
              first == \A k \in 1..(i - 1) : ~IsContent(inp[k])
              ind   == IF BadShip = "indent1" THEN nameLen + 1 ELSE nameLen + 2
          IN CASE t[1] = "C" -> (IF first /\ BadShip # "nofirstnl" THEN << <<"n">> >> ELSE <<>>) \o << <<"C", i>> >>
               [] t[1] = "V" -> << (IF first THEN <<"b", 1>> ELSE <<"b", ind>>), <<"V", i>> >>
                                \o (IF SepIsWs(sep) \/ (BadShip = "nosep" /\ i = LastValue(inp)) THEN <<>> ELSE << <<"S">> >>)
                                \o << <<"n">> >>
               [] OTHER      -> IF BadShip = "keepsep" THEN << <<"S">> >> ELSE <<>>
   IN FoldLeft(LAMBDA acc, i : acc \o piece(i), <<>>, SfIdx(inp))

BadTok(t) == \/ t[1] = "V" /\ t[2] \in {"lead", "trail"}
             \/ t[1] = "C" /\ t[2] \in {"nohash", "nonl"}
FR(v, out) == [v |-> v, out |-> out]
FFOut(form, nameLen, sep, inp) ==
   IF form = "fault" THEN (IF \E i \in 1..Len(inp) : BadTok(inp[i]) THEN FR("unspec", <<>>) ELSE FR("CallerError", <<>>))
   ELSE IF inp = <<>> THEN (IF form = "list" THEN FR("unspec", <<>>) ELSE FR("ValueError", <<>>))
   ELSE IF form = "list" /\ inp[Len(inp)][1] = "C" THEN FR("ValueError", <<>>)
   ELSE IF \E i \in 1..Len(inp) : BadTok(inp[i]) THEN FR("ValueError", <<>>)
   ELSE IF Contents(inp) = {} THEN FR("ValueError", <<>>)
   ELSE IF inp[SfMax(Contents(inp))][1] = "C" THEN FR("unspec", <<>>)
   ELSE FR("ok", Ship(nameLen, sep, inp))

\* ---- the statement about the text ----------------------------------------------------
\* the run-time contract of format_field on the pieces
Contract(out) ==
   /\ out # <<>> /\ out[Len(out)] = <<"n">>
   /\ \A i \in 1..Len(out) :
        LET afterNl == i > 1 /\ out[i - 1][1] \in {"n", "C"} IN
        /\ out[i][1] = "C" => afterNl
        /\ out[i][1] = "V" => (i > 1 /\ out[i - 1][1] = "b")
        /\ (afterNl /\ out[i][1] # "C") => out[i][1] = "b"
        /\ out[i][1] = "b" => (i < Len(out) /\ out[i + 1][1] = "V")
\* the text lexed back into the layout tokens of C11 (words 2p-1, 2p for the value token at p)
ToLayout(inp, out) ==
   LET tok(i) ==
          LET y == out[i]
              lineStart == i > 1 /\ out[i - 1][1] \in {"n", "C"}
          IN CASE y[1] = "n" -> <<LV!NL>>
               [] y[1] = "b" -> IF lineStart THEN (IF y[2] > 1 THEN <<LV!CT, LV!SP>> ELSE <<LV!CT>>) ELSE <<LV!SP>>
               [] y[1] = "V" -> IF inp[y[2]][2] = "ww" THEN <<2 * y[2] - 1, LV!SP, 2 * y[2]>> ELSE <<2 * y[2] - 1>>
               [] y[1] = "C" -> <<LV!CM>>
               [] OTHER      -> <<LV!SEP>>
   IN FoldLeft(LAMBDA acc, i : acc \o tok(i), <<>>, SfIdx(out))
ValuesOf(inp) == LET vs == SelectSeq(SfIdx(inp), LAMBDA i : inp[i][1] = "V")
                 IN [k \in 1..Len(vs) |-> IF inp[vs[k]][2] = "ww" THEN <<2 * vs[k] - 1, LV!SP, 2 * vs[k]>> ELSE <<2 * vs[k] - 1>>]
ReReads(mode, inp, out) ==
   LET lay == ToLayout(inp, out) IN
   /\ LV!Valid(lay)
   /\ LV!Split(mode, lay) = ValuesOf(inp)
   /\ SelectSeq(out, LAMBDA y : y[1] = "C") = [k \in 1..Len(SelectSeq(SfIdx(inp), LAMBDA i : inp[i][1] = "C")) |->
                                                  <<"C", SelectSeq(SfIdx(inp), LAMBDA i : inp[i][1] = "C")[k]>>]
\* documented shape, declaratively: value k (k >= 2) is preceded by exactly len(name)+2 spaces at a line start, the
\* first value by one space; a separator follows every value iff the separator is not white space
ShapeOK(nameLen, sep, inp, out) ==
   LET vpos == SelectSeq(SfIdx(out), LAMBDA i : out[i][1] = "V") IN
   /\ Len(vpos) = Cardinality({i \in 1..Len(inp) : inp[i][1] = "V"})
   /\ \A k \in 1..Len(vpos) :
        LET i == vpos[k] IN
        /\ out[i - 1] = (IF i = 2 THEN <<"b", 1>> ELSE <<"b", nameLen + 2>>)
        /\ IF SepIsWs(sep) THEN out[i + 1] = <<"n">> ELSE out[i + 1] = <<"S">> /\ out[i + 2] = <<"n">>
   /\ Cardinality({i \in 1..Len(out) : out[i] = <<"S">>}) = (IF SepIsWs(sep) THEN 0 ELSE Len(vpos))
InDomReRead(sep, inp) == sep \in {"sp", "cm"} /\ (sep = "sp" => \A i \in 1..Len(inp) : inp[i][2] # "ww")
LayoutLaw(form, nameLen, sep, inp) ==
   LET r == FFOut(form, nameLen, sep, inp) IN
   r.v = "ok" => /\ Contract(r.out)
                 /\ ShapeOK(nameLen, sep, inp, r.out)
                 /\ InDomReRead(sep, inp) => ReReads(sep, inp, r.out)

\* ---- FormatterContentToken: the constructors and what the properties answer -----------------
\* how: "value" value_token(text) | "comment" comment_token(text) | "sep" separator_token(text) with
\* text class tc in "sp" ' ' / "cm" ',' / "tab" / "nl" / "semi" ';' | "from" from_token_or_element(x), x in
\* "cmt" Deb822CommentToken, "ws" a whitespace token, "val" Deb822ValueToken, "comma" Deb822CommaToken,
\* "elem" an element (Deb822ParsedValueElement)
TokProps(how, tc) ==
   LET P(isv, isc, iss, isw, single) == [e |-> "ok", isv |-> isv, isc |-> isc, iss |-> iss, isw |-> isw, single |-> single]
   IN CASE how = "value"   -> P(TRUE, FALSE, FALSE, FALSE, "")
        [] how = "comment" -> P(FALSE, TRUE, FALSE, FALSE, "")
        [] how = "sep"     -> P(FALSE, FALSE, TRUE, tc \in {"sp", "tab", "nl"},
                                IF tc = "sp" THEN "SPACE" ELSE IF tc = "cm" THEN "COMMA" ELSE "")
        [] tc = "cmt"      -> P(FALSE, TRUE, FALSE, FALSE, "")
        [] tc = "ws"       -> [e |-> "ValueError", isv |-> FALSE, isc |-> FALSE, iss |-> FALSE, isw |-> FALSE, single |-> ""]
        [] OTHER           -> P(TRUE, FALSE, FALSE, FALSE, "")
TokCases == {<<"value", "w">>, <<"value", "hw">>, <<"comment", "ok">>, <<"sep", "sp">>, <<"sep", "cm">>, <<"sep", "tab">>,
             <<"sep", "nl">>, <<"sep", "semi">>, <<"from", "cmt">>, <<"from", "ws">>, <<"from", "val">>, <<"from", "comma">>,
             <<"from", "elem">>}
\* a token is exactly one of value / comment / separator; only separators are whitespace
TokLaw == \A c \in TokCases : LET q == TokProps(c[1], c[2]) IN
             q.e = "ok" => /\ Cardinality({x \in {"v", "c", "s"} : (x = "v" /\ q.isv) \/ (x = "c" /\ q.isc) \/ (x = "s" /\ q.iss)}) = 1
                           /\ q.isw => q.iss
=============================================================================
