\* C13 history model: a memo layer in front of the reference parser must be invisible
\* (c13.py re-runs it with SharedNested = TRUE and requires MemoTransparent to be reported)
CONSTANTS
  MaxConj = 0
  MaxAlt = 0
  MaxAtoms = 6
  MaxArch = 0
  MaxGroups = 0
  MaxTerms = 0
  OpIds = {}
  CtxKinds = {}
  Emit = FALSE
  RestrictionsFirst = FALSE
  IgnoreNegation = FALSE
  PipeFirst = FALSE
  FormatInKeyOrder = FALSE
  SplitLimit = 0
  LimitedSplits = {}
  KeyOrders <- OneKeyOrder
  SharedNested = FALSE
  DeepStore = FALSE
  MaxCalls = 4
  MaxEdits = 3
SPECIFICATION MSpec
INVARIANT MemoTransparent
INVARIANT MemoSound
CHECK_DEADLOCK FALSE
