CONSTANTS
  Docs = {1, 2}
  Fields = {"F", "G", "X"}
  Handles = {1, 2, 3}
  MaxLen = 0
  MaxSteps = 0
  Extras = TRUE
  Emit = FALSE
  SharedTokenCache = FALSE
  StaleSnapshot = FALSE
SPECIFICATION TSpec
INVARIANT IdsUnique
INVARIANT TLayoutsOK
CHECK_DEADLOCK FALSE
