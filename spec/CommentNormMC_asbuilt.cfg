CONSTANTS
  MaxLine = 3
  AsBuilt = TRUE
  Emit = FALSE
SPECIFICATION CnSpec
