CONSTANTS
  Modes = {"sp", "cm", "up"}
  MaxW = 3
  MaxT = 7
  MaxC = 1
  Dups = TRUE
  MaxEdits = 1
  Edits = TRUE
  KindSel = "some"
  MinVals = 0
  AllPerms = FALSE
  Emit = FALSE
  SliceK = 1
  SliceR = 0
  DefectTrailComma = TRUE
  DefectHiddenSep = TRUE
  Exempt = TRUE
  SortDropsComments = FALSE
  SepAlways = FALSE
  NoNlBeforeCmt = FALSE
  FmtNoTrailSep = TRUE
SPECIFICATION Spec
INVARIANT ShapeOK
CHECK_DEADLOCK FALSE
