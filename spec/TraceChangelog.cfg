CONSTANTS
  Mode = "text"
  Classes = {}
  AEAs = {}
  MaxLines = 0
  MaxBlocks = 0
  MaxBody = 0
  MaxLead = 0
  MaxSep = 0
  Budget = 0
  MaxEdits = 0
  Bug = "none"
  Emit = FALSE
SPECIFICATION TSpec
INVARIANT TSlurpOnlyFromHeading
INVARIANT TBookkeeping
CHECK_DEADLOCK FALSE
