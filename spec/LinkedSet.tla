----------------------------- MODULE LinkedSet -----------------------------
(***************************************************************************)
(* C09 -- implementation layer: Deb822Dict = value dictionary + OrderedSet *)
(* (hash table name -> node) + doubly linked list of nodes, transcribed    *)
(* from lib/debian/_util.py (LinkedListNode, LinkedList, OrderedSet) and   *)
(* lib/debian/deb822.py (Deb822Dict).  Every action is the conjunction of  *)
(* the abstract action of OrderedMap and the step-by-step update of the    *)
(* implementation variables; the refinement mapping is checked as an       *)
(* invariant in every reachable state.                                     *)
(***************************************************************************)
EXTENDS OrderedMap

CONSTANT N                    \* size of the node pool (|Names| + 1: _reorder allocates before the old node dies)

Nodes  == 1..N
NoNode == 0
NoVal  == "-"

VARIABLES val,                \* node -> [n, s] (the _CaseInsensitiveString stored in the node)
          nxt, prv,           \* node links (prv is a weak reference in the code)
          head, tail, size,   \* LinkedList.head_node / tail_node / _size
          table,              \* OrderedSet.__table : name -> node
          dict,               \* Deb822Dict.__dict  : name -> value
          ires                \* result computed by the implementation layer

ivars == <<val, nxt, prv, head, tail, size, table, dict, ires>>
vars  == <<avars, ivars>>

Alive == {table[n] : n \in Names} \ {NoNode}

RECURSIVE Fwd(_, _)
Fwd(x, fuel) == IF x = NoNode \/ fuel = 0 THEN <<>> ELSE <<val[x]>> \o Fwd(nxt[x], fuel - 1)
RECURSIVE Bwd(_, _)
Bwd(x, fuel) == IF x = NoNode \/ fuel = 0 THEN <<>> ELSE Bwd(prv[x], fuel - 1) \o <<val[x]>>

\* ---- LinkedList primitives as functions on a record of the list variables
LL == [nxt |-> nxt, prv |-> prv, head |-> head, tail |-> tail, size |-> size]

\* LinkedListNode.link_nodes(p, q)
Link(l, p, q) == LET l1 == IF q # NoNode THEN [l EXCEPT !.prv[q] = p] ELSE l
                 IN IF p # NoNode THEN [l1 EXCEPT !.nxt[p] = q] ELSE l1

\* LinkedList.remove_node(x): head case (with emptying), tail case, size, node.remove()
RemoveNode(l, x) ==
   LET l1 == IF x = l.head
             THEN [l EXCEPT !.head = l.nxt[x], !.tail = IF l.nxt[x] = NoNode THEN NoNode ELSE l.tail]
             ELSE IF x = l.tail THEN [l EXCEPT !.tail = l.prv[x]] ELSE l
       l2 == [l1 EXCEPT !.size = l1.size - 1]
       l3 == Link(l2, l2.prv[x], l2.nxt[x])
   IN [l3 EXCEPT !.prv[x] = NoNode, !.nxt[x] = NoNode]

\* LinkedList.append(value) with a fresh node x
AppendNode(l, x) ==
   IF l.head = NoNode THEN [l EXCEPT !.head = x, !.tail = x, !.size = l.size + 1]
   ELSE LET l1 == Link(Link(l, l.tail, x), x, l.nxt[l.tail])
        IN [l1 EXCEPT !.tail = x, !.size = l.size + 1]

\* LinkedList.insert_node_before / insert_node_after
InsertBefore(l, x, e) == LET l1 == Link(Link(l, l.prv[e], x), x, e)
                         IN [l1 EXCEPT !.head = IF e = l.head THEN x ELSE l.head, !.size = l.size + 1]
InsertAfter(l, x, e)  == LET l1 == Link(Link(l, e, x), x, l.nxt[e])
                         IN [l1 EXCEPT !.tail = IF e = l.tail THEN x ELSE l.tail, !.size = l.size + 1]
InsertAtHead(l, x)    == IF l.head = NoNode THEN AppendNode(l, x) ELSE InsertBefore(l, x, l.head)

SetLL(l) == nxt' = l.nxt /\ prv' = l.prv /\ head' = l.head /\ tail' = l.tail /\ size' = l.size
IFail(e) == ires' = e /\ UNCHANGED <<val, nxt, prv, head, tail, size, table, dict>>
ISame(r) == ires' = r /\ UNCHANGED <<val, nxt, prv, head, tail, size, table, dict>>

\* ---- Deb822Dict / OrderedSet calls
\* __setitem__: keys.add(keyi) (no-op when present), then dict[keyi] = value
ISet(n, s, v) ==
   /\ ires' = "ok"
   /\ dict' = [dict EXCEPT ![n] = v]
   /\ IF table[n] # NoNode THEN UNCHANGED <<val, nxt, prv, head, tail, size, table>>
      ELSE LET x == CHOOSE x \in Nodes : x \notin Alive IN
           /\ val' = [val EXCEPT ![x] = [n |-> n, s |-> s]]
           /\ SetLL(AppendNode(LL, x))
           /\ table' = [table EXCEPT ![n] = x]
IGet(n) == ISame(IF dict[n] # NoVal THEN dict[n] ELSE "KeyError")
IHas(n) == ISame(IF table[n] # NoNode THEN "true" ELSE "false")
\* __delitem__: keys.remove (KeyError from the table lookup), then del dict[keyi]
IDel(n) == IF table[n] = NoNode THEN IFail("KeyError")
           ELSE /\ ires' = "ok"
                /\ SetLL(RemoveNode(LL, table[n]))
                /\ table' = [table EXCEPT ![n] = NoNode]
                /\ dict' = [dict EXCEPT ![n] = NoVal]
                /\ UNCHANGED val
\* OrderedSet._reorder: look the node up, remove it, re-insert a NEW node with the same value
IReorder(n, ins(_, _)) ==
   LET x  == table[n]
       l1 == RemoveNode(LL, x)
       y  == CHOOSE y \in Nodes : y \notin Alive      \* the old node is still referenced here
   IN /\ ires' = "ok"
      /\ val' = [val EXCEPT ![y] = val[x]]
      /\ SetLL(ins(l1, y))
      /\ table' = [table EXCEPT ![n] = y]
      /\ UNCHANGED dict
IFirst(n) == IF table[n] = NoNode THEN IFail("KeyError") ELSE IReorder(n, LAMBDA l, y : InsertAtHead(l, y))
ILast(n)  == IF table[n] = NoNode THEN IFail("KeyError") ELSE IReorder(n, LAMBDA l, y : AppendNode(l, y))
\* order_before / order_after: self check, reference lookup, _reorder
IBefore(n, r) == IF n = r THEN IFail("ValueError")
                 ELSE IF table[r] = NoNode \/ table[n] = NoNode THEN IFail("KeyError")
                 ELSE IReorder(n, LAMBDA l, y : InsertBefore(l, y, table[r]))
IAfter(n, r)  == IF n = r THEN IFail("ValueError")
                 ELSE IF table[r] = NoNode \/ table[n] = NoNode THEN IFail("KeyError")
                 ELSE IReorder(n, LAMBDA l, y : InsertAfter(l, y, table[r]))

\* Rebuild(keys): a fresh OrderedSet filled by add() in the given order (sort_fields, copy, parse)
RECURSIVE BuildFrom(_, _, _)
BuildFrom(ks, i, st) ==        \* st = [l, val, table]; node i is used for the i-th key
   IF i > Len(ks) THEN st
   ELSE BuildFrom(ks, i + 1, [l     |-> AppendNode(st.l, i),
                              val   |-> [st.val EXCEPT ![i] = ks[i]],
                              table |-> [st.table EXCEPT ![ks[i].n] = i]])
EmptyLL == [nxt |-> [x \in Nodes |-> NoNode], prv |-> [x \in Nodes |-> NoNode],
            head |-> NoNode, tail |-> NoNode, size |-> 0]
IRebuild(ks) ==
   LET st == BuildFrom(ks, 1, [l |-> EmptyLL, val |-> [x \in Nodes |-> <<>>], table |-> [n \in Names |-> NoNode]])
   IN /\ ires' = "ok" /\ SetLL(st.l) /\ val' = st.val /\ table' = st.table /\ UNCHANGED dict
CurKeys == Fwd(head, N + 1)
ISort == IRebuild(SortSeq(CurKeys, LAMBDA a, b : a.n < b.n))
ICopy == IRebuild(CurKeys)
\* sort_fields(key=f): sorted(self.__keys, key=f) runs FIRST - a key function that faults makes it
\* raise before anything is assigned - and only its result is turned into the new OrderedSet
ISortBy(kf, fn, fm) == IF SortHit(CurKeys, fn, fm) THEN IFail(SortErr(fm))
                       ELSE IRebuild(MSortBy(CurKeys, kf))
\* dump(fd) / a parse attempt from a faulting source never touch the object
IIOFault(kind) == ISame(IF kind = "dump" /\ size = 0 THEN "ok" ELSE "CallerError")
\* what LNext explores; MC_LinkedSet_quick.cfg substitutes the Quick sets (the faulted calls are
\* the same no-op on the implementation variables in every mode; MC_LinkedSet.cfg explores all)
LKeyFns         == KeyFns
LFaultModes     == FaultModes
QuickKeyFns     == {[n \in Names |-> n % 2], [n \in Names |-> 0], [n \in Names |-> 3 - n]}
QuickFaultModes == {"raise"}

IInit == /\ val = [x \in Nodes |-> <<>>] /\ nxt = [x \in Nodes |-> NoNode] /\ prv = [x \in Nodes |-> NoNode]
         /\ head = NoNode /\ tail = NoNode /\ size = 0
         /\ table = [n \in Names |-> NoNode] /\ dict = [n \in Names |-> NoVal] /\ ires = "ok"

LInit == Init /\ IInit
LNext == \/ \E n \in Names : \/ \E s \in Spells, v \in Values : Set(n, s, v) /\ ISet(n, s, v)
                             \/ (Get(n) /\ IGet(n))
                             \/ (Has(n) /\ IHas(n))
                             \/ (Del(n) /\ IDel(n))
                             \/ (MoveFirst(n) /\ IFirst(n))
                             \/ (MoveLast(n) /\ ILast(n))
                             \/ \E r \in Names : (MoveBefore(n, r) /\ IBefore(n, r)) \/ (MoveAfter(n, r) /\ IAfter(n, r))
         \/ (Sort /\ ISort)
         \/ (Copy /\ ICopy)
         \/ (DumpParse /\ ICopy)
         \/ \E kf \in LKeyFns : SortBy(kf, NoFault, "none") /\ ISortBy(kf, NoFault, "none")
         \/ \E fn \in Names, fm \in LFaultModes : SortBy(FaultKf, fn, fm) /\ ISortBy(FaultKf, fn, fm)
         \/ \E kind \in IOKinds : IOFault(kind) /\ IIOFault(kind)
LSpec == LInit /\ [][LNext]_vars

----------------------------------------------------------------------------
AbsKeys    == [i \in 1..Len(abs) |-> [n |-> abs[i].n, s |-> abs[i].s]]
Refines    == /\ Fwd(head, N + 1) = AbsKeys
              /\ \A n \in Names : dict[n] = IF MHas(abs, n) THEN MGet(abs, n).v ELSE NoVal
BackOK     == Bwd(tail, N + 1) = AbsKeys
SizeOK     == size = Len(abs) /\ Cardinality(Alive) = size
EndsOK     == /\ (head = NoNode) <=> (tail = NoNode)
              /\ head # NoNode => prv[head] = NoNode /\ nxt[tail] = NoNode
TableOK    == \A n \in Names : table[n] # NoNode => val[table[n]].n = n
LinksOK    == \A x \in Alive : /\ nxt[x] # NoNode => prv[nxt[x]] = x
                               /\ prv[x] # NoNode => nxt[prv[x]] = x
\* the implementation computes the same result as the reference (an action property so that
\* res/ires can be left out of the VIEW: no action reads them)
SameResult == [][ires' = res']_vars
ImplView   == <<abs, val, nxt, prv, head, tail, size, table, dict>>
ImplErrAtomic == [][ires' \in {"KeyError", "ValueError", "TypeError", "CallerError"} =>
                      UNCHANGED <<val, nxt, prv, head, tail, size, table, dict>>]_vars
=============================================================================
