----------------------------- MODULE MergeFields -----------------------------
(***************************************************************************)
(* X03 (a) -- Deb822.merge_fields(key, d1, d2=None) / Deb822._merge_fields *)
(* (lib/debian/deb822.py): merging one field of two paragraphs.            *)
(*                                                                         *)
(* STATEMENT (formulated from the code, its comments and its obvious       *)
(* intent -- the method has no docstring and no test):                     *)
(*  For paragraphs x1, x2 (x1 = self in the one-argument form) and a key:  *)
(*  * key in neither -> KeyError; key in exactly one -> that value,        *)
(*    unchanged; an empty value ("") merged with v is v;                   *)
(*  * two single-line values that are duplicate-free lists with the same   *)
(*    delimiter -- ", " when ", " occurs in either value, otherwise " " -- *)
(*    give a single-line duplicate-free list with that delimiter whose     *)
(*    items are exactly the items of both values (as a set: the order of   *)
(*    the items in the result is NOT part of the statement; the code sorts)*)
(*  * two multi-line values of the form "\n l1\n l2 ..." (empty first      *)
(*    line, duplicate-free continuation lines) give the lines of x1        *)
(*    followed, in order, by those lines of x2 that x1 does not have;      *)
(*  * a single-line value with a multi-line value -> ValueError;           *)
(*  * the two-argument form returns the result and modifies nothing (not   *)
(*    d1, not d2, not the receiver); the one-argument form returns None,   *)
(*    stores the result under the key in self (in place when the key       *)
(*    exists, appended otherwise), touches no other field and never d1;    *)
(*    when it raises nothing changes;                                      *)
(*  * consequently merging is idempotent, commutative and associative on   *)
(*    the item sets, and every history of merges over well-formed values   *)
(*    keeps every stored value a well-formed duplicate-free list.          *)
(* Unspecified (restricted domain): a " "-list merged with a ", "-list;    *)
(* values with internal duplicates, empty items, a non-empty first line of *)
(* a multi-line value; two one-item values pick " " or ", " (the comment   *)
(* in the code: the heuristic needs several items in one of the values).   *)
(*                                                                         *)
(* VALUES are abstract: [t, sep, it]                                       *)
(*   t = "absent" | "empty" | "sl" (single line) | "ml" (multi line)       *)
(*   sep = "-" | "one" (one item, no delimiter visible) | "sp" | "cs" |"nl"*)
(*   it = the items / continuation lines as ids > 0; id 0 is the EMPTY     *)
(*        line, which a well-formed value never contains.                  *)
(* A paragraph is a sequence of [k, v]; objs maps the live objects to      *)
(* their paragraphs.  Actions: M2(a, b) (two-argument form; the receiver   *)
(* is neither read nor written), M1(s, a) (one-argument form).             *)
(*                                                                         *)
(* Operators take the set d of KNOWN-DEFECT switches explicitly; d = {} is *)
(* the statement.  "keepends" is the behaviour of the pinned code:         *)
(* str.splitlines(True) keeps the line terminators, so membership of a     *)
(* line depends on whether it is the LAST line of its value, and appending *)
(* a terminated line leaves a blank line behind.                           *)
(*                                                                         *)
(* Implementation layer (single-line): ImplSl = sort the concatenated      *)
(* items by rank, drop ADJACENT duplicates (what the code does);           *)
(* ImplRefines says it satisfies the statement.                            *)
(*                                                                         *)
(* Spec-level negative controls (each tried; x03.py re-runs them in every  *)
(* check):  Defects = {"keepends"} -> AllWellFormed violated (a stored     *)
(*          value gets a duplicate / an empty line);                       *)
(*          NoSort = TRUE (adjacent dedupe without sorting)                *)
(*                                 -> ImplRefines violated.                *)
(***************************************************************************)
EXTENDS Integers, Sequences, FiniteSets, TLC, Json

CONSTANTS Ids,       \* item ids of the bounded universe (positive naturals)
          Objs,      \* names of the live objects
          Moves,     \* FALSE: only the initial states (all pairs / triples); TRUE: histories
          Shapes,    \* TRUE: paragraphs have a bystander field before / after the key
          Defects,   \* known-defect switches active in the state machine
          NoSort,    \* negative control of the implementation layer
          Emit       \* print CASE lines

VARIABLES objs,      \* object name -> paragraph
          mres       \* outcome of the last call
mvars == <<objs, mres>>
MView == objs          \* mres is an output: no action reads it

MfKnown == {"keepends"}

----------------------------------------------------------------------------
\* values and outcomes (pure; re-used by TraceX03Merge)

MfV(t, sep, it) == [t |-> t, sep |-> sep, it |-> it]
MfAbsent == MfV("absent", "-", <<>>)
MfEmpty  == MfV("empty", "-", <<>>)
MfItems(v) == {v.it[i] : i \in 1..Len(v.it)}
MfNoDup(v) == Cardinality(MfItems(v)) = Len(v.it)

MfWellFormed(v) ==
   CASE v.t \in {"absent", "empty"} -> v.sep = "-" /\ v.it = <<>>
     [] v.t = "sl" -> /\ Len(v.it) >= 1 /\ MfNoDup(v) /\ \A i \in 1..Len(v.it) : v.it[i] > 0
                      /\ IF Len(v.it) = 1 THEN v.sep = "one" ELSE v.sep \in {"sp", "cs"}
     [] v.t = "ml" -> /\ Len(v.it) >= 1 /\ MfNoDup(v) /\ \A i \in 1..Len(v.it) : v.it[i] > 0
                      /\ v.sep = "nl"
     [] OTHER -> FALSE

MfO(k, v)     == [k |-> k, v |-> v]
MfVal(v)      == MfO("val", v)
MfKeyError    == MfO("KeyError", MfAbsent)
MfValueError  == MfO("ValueError", MfAbsent)
MfNone        == MfO("None", MfAbsent)

\* ---- multi-line: ordered union (the statement)
RECURSIVE MlUnionFrom(_, _, _)
MlUnionFrom(acc, b, i) ==
   IF i > Len(b) THEN acc
   ELSE MlUnionFrom(IF \E j \in 1..Len(acc) : acc[j] = b[i] THEN acc ELSE Append(acc, b[i]), b, i + 1)
MlUnion(a, b) == MlUnionFrom(a, b, 1)

\* ---- multi-line: the known defect.  F is the full line sequence (first line included, 0 = empty
\* line) of a string; SLK(F) is str.splitlines(True) of it as <<line, terminated>> pairs.
SLK(F) == LET n == Len(F)
              m == IF n > 0 /\ F[n] = 0 THEN n - 1 ELSE n
          IN [i \in 1..m |-> <<F[i], i < n>>]
RECURSIVE KeFrom(_, _, _)
KeFrom(F, its, i) ==
   IF i > Len(its) THEN F
   ELSE LET x == its[i]
            cur == SLK(F)
        IN KeFrom(IF \E j \in 1..Len(cur) : cur[j] = x THEN F
                  ELSE F \o <<x[1]>> \o (IF x[2] THEN <<0>> ELSE <<>>), its, i + 1)
MlKeep(a, b) == Tail(KeFrom(<<0>> \o a, SLK(<<0>> \o b), 1))

MlMerge(d, a, b) == IF "keepends" \in d THEN MlKeep(a, b) ELSE MlUnion(a, b)

\* ---- single-line
SlPairOk(v1, v2) == {v1.sep, v2.sep} # {"sp", "cs"}
SlDelims(v1, v2) == IF "cs" \in {v1.sep, v2.sep} THEN {"cs"}
                    ELSE IF "sp" \in {v1.sep, v2.sep} THEN {"sp"} ELSE {"sp", "cs"}
SlIsMerge(v1, v2, r) ==
   LET U == MfItems(v1) \cup MfItems(v2) IN
   /\ r.t = "sl" /\ MfNoDup(r) /\ MfItems(r) = U
   /\ IF Cardinality(U) = 1 THEN r.sep = "one" ELSE r.sep \in SlDelims(v1, v2)

\* ---- the API: x1, x2 are what the two paragraphs hold under the key (MfAbsent: key not in it)
MfPresent(x) == x.t \in {"sl", "ml"}
ApiUnspec(x1, x2) ==
   /\ MfPresent(x1) /\ MfPresent(x2)
   /\ \/ ~MfWellFormed(x1) \/ ~MfWellFormed(x2)
      \/ (x1.t = "sl" /\ x2.t = "sl" /\ ~SlPairOk(x1, x2))

\* o is an outcome the statement (d = {}) / the defect model d allows; presumes ~ApiUnspec
ApiOk(d, x1, x2, o) ==
   IF x1.t = "absent" /\ x2.t = "absent" THEN o = MfKeyError
   ELSE IF x1.t = "absent" THEN o = MfVal(x2)
   ELSE IF x2.t = "absent" THEN o = MfVal(x1)
   ELSE IF x2.t = "empty" THEN o = MfVal(x1)
   ELSE IF x1.t = "empty" THEN o = MfVal(x2)
   ELSE IF x1.t = "sl" /\ x2.t = "sl" THEN o.k = "val" /\ SlIsMerge(x1, x2, o.v)
   ELSE IF x1.t = "ml" /\ x2.t = "ml" THEN o = MfVal(MfV("ml", "nl", MlMerge(d, x1.it, x2.it)))
   ELSE o = MfValueError

\* all outcomes, for small universes
MfPerms(S) == {s \in [1..Cardinality(S) -> S] : \A i, j \in 1..Cardinality(S) : s[i] = s[j] => i = j}
ApiCands(d, x1, x2) ==
   {MfKeyError, MfValueError, MfVal(x1), MfVal(x2)}
   \cup (IF x1.t = "ml" /\ x2.t = "ml" THEN {MfVal(MfV("ml", "nl", MlMerge(d, x1.it, x2.it)))} ELSE {})
   \cup (IF x1.t = "sl" /\ x2.t = "sl"
         THEN {MfVal(MfV("sl", sep, p)) : sep \in {"one", "sp", "cs"}, p \in MfPerms(MfItems(x1) \cup MfItems(x2))}
         ELSE {})
ApiOutcomes(d, x1, x2) == {o \in ApiCands(d, x1, x2) : ApiOk(d, x1, x2, o)}

\* The one-argument form stores the result with self[key] = merged, and Deb822.__setitem__
\* validates what it is given ("value must not have blank lines").  A result of the statement
\* always passes; the blank line the keepends defect leaves behind does not: the defect then
\* shows as a ValueError out of the one-argument form (self unchanged).
HasBlank(s) == \E i \in 1..Len(s) : s[i] = 0
M1Ok(d, x1, x2, o) ==
   IF "keepends" \in d /\ x1.t = "ml" /\ x2.t = "ml"
   THEN LET m == MlKeep(x1.it, x2.it)
        IN IF HasBlank(m) THEN o = MfValueError ELSE o = MfVal(MfV("ml", "nl", m))
   ELSE ApiOk(d, x1, x2, o)
M1Outcomes(d, x1, x2) == {o \in ApiCands(d, x1, x2) : M1Ok(d, x1, x2, o)}

\* ---- paragraphs
PHas(par, key) == \E i \in 1..Len(par) : par[i].k = key
PGet(par, key) == IF PHas(par, key) THEN par[CHOOSE i \in 1..Len(par) : par[i].k = key].v ELSE MfAbsent
PPut(par, key, v) ==
   IF PHas(par, key) THEN [i \in 1..Len(par) |-> IF par[i].k = key THEN [k |-> key, v |-> v] ELSE par[i]]
   ELSE Append(par, [k |-> key, v |-> v])
PDel(par, key) == SelectSeq(par, LAMBDA e : e.k # key)
POthers(par, key) == SelectSeq(par, LAMBDA e : e.k # key)

----------------------------------------------------------------------------
\* implementation layer of the single-line branch: sorted(...) + skip ADJACENT duplicates

RECURSIVE SortInsert(_, _)
SortInsert(s, x) == IF s = <<>> THEN <<x>>
                    ELSE IF x <= Head(s) THEN <<x>> \o s ELSE <<Head(s)>> \o SortInsert(Tail(s), x)
RECURSIVE SortIds(_)
SortIds(s) == IF s = <<>> THEN <<>> ELSE SortInsert(SortIds(Tail(s)), Head(s))
RECURSIVE AdjDedupe(_)
AdjDedupe(s) == IF Len(s) <= 1 THEN s
                ELSE IF s[1] = s[2] THEN AdjDedupe(Tail(s)) ELSE <<s[1]>> \o AdjDedupe(Tail(s))
ImplSl(v1, v2) ==
   LET dl == IF "cs" \in {v1.sep, v2.sep} THEN "cs" ELSE "sp"
       L  == IF NoSort THEN v1.it \o v2.it ELSE SortIds(v1.it \o v2.it)
       M  == AdjDedupe(L)
   IN MfV("sl", IF Len(M) = 1 THEN "one" ELSE dl, M)

----------------------------------------------------------------------------
\* the bounded universe and the state machine

KEY == "K"
BYST  == [k |-> "J", v |-> MfV("sl", "one", <<99>>)]       \* a bystander field
SubsetsNE == SUBSET Ids \ {{}}
SlVals == UNION {{MfV("sl", IF Cardinality(S) = 1 THEN "one" ELSE sep, p) : sep \in {"sp", "cs"}, p \in MfPerms(S)} : S \in SubsetsNE}
MlVals == UNION {{MfV("ml", "nl", p) : p \in MfPerms(S)} : S \in SubsetsNE}
PresentVals == {MfEmpty} \cup SlVals \cup MlVals
Pars == IF Shapes
        THEN {<<BYST>>} \cup UNION {{<<[k |-> KEY, v |-> v], BYST>>, <<BYST, [k |-> KEY, v |-> v]>>} : v \in PresentVals}
        ELSE {<<>>} \cup {<<[k |-> KEY, v |-> v]>> : v \in PresentVals}

X(o) == PGet(objs[o], KEY)

Init == objs \in [Objs -> Pars] /\ mres = MfNone

\* two-argument form: result returned, nothing modified (the receiver does not occur at all)
M2(a, b) == /\ ~ApiUnspec(X(a), X(b))
            /\ \E o \in ApiOutcomes(Defects, X(a), X(b)) : mres' = o
            /\ UNCHANGED objs

\* one-argument form: self = s, merged into s in place; None returned; exceptions change nothing
M1(s, a) == /\ ~ApiUnspec(X(s), X(a))
            /\ \E o \in M1Outcomes(Defects, X(s), X(a)) :
                  IF o.k = "val"
                  THEN objs' = [objs EXCEPT ![s] = PPut(@, KEY, o.v)] /\ mres' = MfNone
                  ELSE UNCHANGED objs /\ mres' = o

Next == /\ Moves
        /\ \/ \E a, b \in Objs : M2(a, b)
           \/ \E s, a \in Objs : M1(s, a)
Spec == Init /\ [][Next]_mvars

----------------------------------------------------------------------------
\* what is checked

TypeOK == /\ \A o \in Objs : \A i \in 1..Len(objs[o]) : objs[o][i].k \in {"K", "J"}
          /\ mres.k \in {"val", "KeyError", "ValueError", "None"}

\* closure: every history of merges keeps every stored value well-formed and duplicate-free
AllWellFormed == \A o \in Objs : MfWellFormed(X(o)) /\ ((X(o).t # "absent") <=> PHas(objs[o], KEY))
ResWellFormed == [][mres'.k = "val" => MfWellFormed(mres'.v)]_mvars

\* The pair / triple invariants look at the objects "p", "q" (, "r"): Init enumerates every
\* assignment of paragraphs to objects, so every pair / triple of values is covered.
XP == X("p")
XQ == X("q")
XR == X("r")

\* each pair has an outcome, and all outcomes agree on kind / type / item set
Determinate ==
   ~ApiUnspec(XP, XQ) =>
      LET outs == ApiOutcomes({}, XP, XQ) IN
      /\ outs # {}
      /\ \A o1, o2 \in outs : o1.k = o2.k /\ o1.v.t = o2.v.t /\ MfItems(o1.v) = MfItems(o2.v)
      /\ (XP.t = "ml" /\ XQ.t = "ml") => Cardinality(outs) = 1

\* the code's algorithm for single-line values satisfies the statement
ImplRefines ==
   (XP.t = "sl" /\ XQ.t = "sl" /\ ~ApiUnspec(XP, XQ)) => ApiOk({}, XP, XQ, MfVal(ImplSl(XP, XQ)))

\* the known-defect model differs from the statement only on multi-line pairs
DefectScope ==
   (~ApiUnspec(XP, XQ) /\ ~(XP.t = "ml" /\ XQ.t = "ml")) => ApiOutcomes(MfKnown, XP, XQ) = ApiOutcomes({}, XP, XQ)

\* algebra (item sets; exact sequences for multi-line values)
OutsOf(x1, x2) == ApiOutcomes({}, x1, x2)
\* what all outcomes of a pair have in common + the delimiters they may use
Char(x1, x2) == LET outs == OutsOf(x1, x2)
                    o1 == CHOOSE o \in outs : TRUE
                IN <<o1.k, o1.v.t, MfItems(o1.v), {o.v.sep : o \in outs}, IF o1.v.t = "ml" THEN o1.v.it ELSE <<>>>>
\* one outcome per delimiter (what a later merge does with a result depends on nothing else)
Reps(x1, x2) == LET outs == OutsOf(x1, x2)
                IN {CHOOSE o \in outs : o.v.sep = sp : sp \in {o.v.sep : o \in outs}}
LawIdempotent ==
   MfPresent(XP) =>
      \A o \in OutsOf(XP, XP) : /\ o.k = "val" /\ MfItems(o.v) = MfItems(XP) /\ o.v.t = XP.t
                                 /\ XP.t = "ml" => o.v = XP
LawCommutative ==
   ~ApiUnspec(XP, XQ) =>
      LET c1 == Char(XP, XQ)
          c2 == Char(XQ, XP)
      IN c1[1] = c2[1] /\ c1[2] = c2[2] /\ c1[3] = c2[3] /\ c1[4] = c2[4]
\* (a . b) . c and a . (b . c) allow the same results (paths through an unspecified pair excluded)
Finals(x1, x2) == LET c == Char(x1, x2) IN {<<c[1], c[2], c[3], sp, c[5]>> : sp \in c[4]}
LawAssociative ==
   (/\ MfPresent(XP) /\ XQ.t = XP.t /\ XR.t = XP.t /\ ~ApiUnspec(XP, XQ) /\ ~ApiUnspec(XQ, XR)) =>
      UNION {Finals(o12.v, XR) : o12 \in {o \in Reps(XP, XQ) : o.k = "val" /\ ~ApiUnspec(o.v, XR)}}
      = UNION {Finals(XP, o23.v) : o23 \in {o \in Reps(XQ, XR) : o.k = "val" /\ ~ApiUnspec(XP, o.v)}}

\* action properties of the histories
Monotone   == [][\A o \in Objs : MfItems(X(o)) \subseteq MfItems(PGet(objs'[o], KEY))]_mvars
Bystanders == [][\A o \in Objs : POthers(objs'[o], KEY) = POthers(objs[o], KEY)]_mvars
InPlace    == [][\A o \in Objs : PHas(objs[o], KEY) =>
                      [i \in 1..Len(objs'[o]) |-> objs'[o][i].k] = [i \in 1..Len(objs[o]) |-> objs[o][i].k]]_mvars

----------------------------------------------------------------------------
\* emission for the harness (spec -> code): one CASE per pair of paragraphs

RECURSIVE SortedSeq(_)
SortedSeq(S) == IF S = {} THEN <<>>
                ELSE LET m == CHOOSE x \in S : \A y \in S : x <= y IN <<m>> \o SortedSeq(S \ {m})

Summary(d, form, x1, x2) ==
   IF ApiUnspec(x1, x2)
   THEN [k |-> "unspec", t |-> "-", exact |-> FALSE, sp |-> FALSE, cs |-> FALSE, set |-> <<>>, val |-> MfAbsent]
   ELSE LET outs == IF form = 1 THEN M1Outcomes(d, x1, x2) ELSE ApiOutcomes(d, x1, x2)
            o1 == CHOOSE o \in outs : TRUE
        IN [k |-> o1.k, t |-> o1.v.t, exact |-> Cardinality(outs) = 1,
            sp |-> \E o \in outs : o.v.sep = "sp", cs |-> \E o \in outs : o.v.sep = "cs",
            set |-> SortedSeq(MfItems(o1.v)), val |-> o1.v]

EmitCase ==
   Emit => LET x1 == PGet(objs["p"], KEY)
               x2 == PGet(objs["q"], KEY)
           IN PrintT(<<"CASE", ToJson([p |-> objs["p"], q |-> objs["q"],
                                       exp |-> Summary({}, 2, x1, x2), kexp |-> Summary(MfKnown, 2, x1, x2),
                                       kexp1 |-> Summary(MfKnown, 1, x1, x2),
                                       akeys |-> [i \in 1..Len(PPut(objs["p"], KEY, MfEmpty)) |-> PPut(objs["p"], KEY, MfEmpty)[i].k]])>>)
=============================================================================
