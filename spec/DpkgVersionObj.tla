--------------------------- MODULE DpkgVersionObj --------------------------
(***************************************************************************)
(* C03 -- object-level layer: Version objects are MUTABLE and long-lived.  *)
(*                                                                         *)
(* An object is [full |-> the version string, key |-> everything the       *)
(* implementation derives from it (parsed parts, prepared run lists, hash  *)
(* key)].  Object 1 is (v1, ck1), object 2 is (v2, ck2); out is what the   *)
(* last comparison of the two objects answered: out.impl / out.ceq /       *)
(* out.keq are computed from the CACHED keys (what an implementation that  *)
(* memoises would use), out.ref / out.rev from the CURRENT strings (the    *)
(* dpkg reference: what the property demands).                             *)
(*                                                                         *)
(* Assign* model `o.full_version = s` and the assignment of one component  *)
(* (`o.epoch = e`, `o.upstream_version = u`, `o.debian_revision = r`; the  *)
(* string is recomposed from the components as _update_full_version does). *)
(* The design requirement is that an assignment RECOMPUTES the key:        *)
(* KeyFresh, and therefore Agree and HashConsistent, hold in every state   *)
(* reachable by any sequence of assignments (the state space is closed).   *)
(*                                                                         *)
(* Negative control  StaleKey = TRUE : the key survives the assignment     *)
(* (memoised comparison key / hash / parsed tuple not invalidated) -> TLC  *)
(* reports Agree, and (separately) HashConsistent, violated after one      *)
(* assignment.                                                             *)
(*                                                                         *)
(* If EmitStride > 0 the selected transitions are printed as MUT lines     *)
(*  [v1, v2, how, arg, v1', ref, rev, ceq, ref', rev', ceq']  (expected    *)
(* sign both ways and canonical-key equality before and after); c03.py     *)
(* replays them: compare, mutate the real object, compare again.           *)
(* Only object 1 is mutated (the comparison is observed both ways).        *)
(***************************************************************************)
EXTENDS DpkgVersionMC

CONSTANT StaleKey

VARIABLES ck1, ck2
ovars == <<v1, v2, v3, out, ck1, ck2>>

ASSUME ~Seps      \* recomposition from components stays inside Vers (and outside D2's unspecified zone)

\* what comparing object (f1, c1) with object (f2, c2) answers / should answer
Observe(f1, c1, f2, c2) ==
    [NoRes EXCEPT !.ref  = CmpParsed(InfoOf[f1].p, InfoOf[f2].p),
                  !.rev  = CmpParsed(InfoOf[f2].p, InfoOf[f1].p),
                  !.impl = ICmpPrepared(c1.i, c2.i),
                  !.ceq  = (c1.c = c2.c),
                  !.keq  = (c1.k = c2.k)]

OInit == /\ v1 \in Vers /\ v2 \in Vers /\ v3 = None
         /\ ck1 = InfoOf[v1] /\ ck2 = InfoOf[v2]
         /\ out = Observe(v1, ck1, v2, ck2)

\* full-string assignments are sampled with EmitStride, the (rarer) component assignments 4 x denser
SelectedMut(s, n) == EmitStride > 0 /\ (Chk(v1, 1) * 31 + Chk(v2, 7) + Chk(s, 3) * 17 + Len(v1)) % n = EmitOffset % n
DenseStride == (EmitStride + 3) \div 4

Assign(how, arg, s) ==
    /\ v1' = s
    /\ ck1' = IF StaleKey THEN ck1 ELSE InfoOf[s]
    /\ out' = Observe(s, ck1', v2, ck2)
    /\ UNCHANGED <<v2, v3, ck2>>
    /\ (SelectedMut(s, IF how = "full" THEN EmitStride ELSE DenseStride) =>
          PrintT(<<"MUT", ToJson(<<v1, v2, how, arg, s, out.ref, out.rev, InfoOf[v1].c = InfoOf[v2].c,
                                   out'.ref, out'.rev, InfoOf[s].c = InfoOf[v2].c>>)>>))

Parts1 == InfoOf[v1].p
AssignFull     == \E s \in Vers : Assign("full", s, s)
AssignEpoch    == \E e \in Epochs : Assign("epoch", e, Join(e, Parts1.u, Parts1.r))
AssignUpstream == \E u \in Ups(<<>>, <<>>) : Assign("upstream", u, Join(Parts1.e, u, Parts1.r))
AssignRevision == \E rv \in Revs : Assign("revision", rv, Join(Parts1.e, Parts1.u, rv))

ONext == AssignFull \/ AssignEpoch \/ AssignUpstream \/ AssignRevision
OSpec == OInit /\ [][ONext]_ovars

KeyFresh == ck1 = InfoOf[v1] /\ ck2 = InfoOf[v2]
\* Agree, Antisym, HashConsistent, HashImpl: as defined in DpkgVersionMC, over out
=============================================================================
