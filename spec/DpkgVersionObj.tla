--------------------------- MODULE DpkgVersionObj --------------------------
(***************************************************************************)
(* C03 -- object-level layer: Version objects are MUTABLE and long-lived.  *)
(*                                                                         *)
(* An object is [full |-> the version string, key |-> everything the       *)
(* implementation derives from it (its components, prepared run lists,     *)
(* hash key)].  Object 1 is (v1, ck1), object 2 is (v2, ck2); out is what  *)
(* the last comparison of the two objects answered: out.impl / out.ceq /   *)
(* out.keq are computed from the CACHED keys (what an implementation that  *)
(* memoises would use), out.ref / out.rev from the CURRENT strings (the    *)
(* dpkg reference: what the property demands).                             *)
(*                                                                         *)
(* Assign* model `o.full_version = s` and the assignment of one component  *)
(* (`o.epoch = e`, `o.upstream_version = u`, `o.debian_revision = r`): the *)
(* string is RECOMPOSED from the object's components as                    *)
(* _update_full_version does, and the key -- components included -- is     *)
(* recomputed from the DECOMPOSITION OF THE RECOMPOSED STRING.  The        *)
(* assigned values include the boundary-moving ones (Boundary = TRUE):     *)
(* upstream values containing '-' or ':' ("0-1", "1:0"), revisions         *)
(* containing '-' ("1-0"), and None for the revision / epoch of an object  *)
(* whose upstream part contains '-' / ':' -- after these the last '-' /    *)
(* first ':' of the string is no longer where the assigned components had  *)
(* it.  Only assignments whose recomposed string is in the domain D2 are   *)
(* modelled (the others are rejected or unspecified: C14).                 *)
(* The design requirement: KeyFresh, and therefore Agree and               *)
(* HashConsistent, hold in every state reachable by any sequence of        *)
(* assignments (the state space is closed).                                *)
(*                                                                         *)
(* REJECTED assignments are steps too (Reject...): the full string or a    *)
(* component is assigned a value for which the (recomposed) string must be *)
(* refused -- Rejected(s): invalid and outside D2's unspecified zone: a    *)
(* ':' in the upstream part without an epoch (":0", passes the regular     *)
(* expression, fails the colon rule), a non-numeric epoch ("-", ":"), an   *)
(* empty string / empty upstream, a foreign character (stands for a value  *)
(* of a wrong type, whose str() is no version).  The call raises and the   *)
(* object must be EXACTLY what it was: same string, same key, hence the    *)
(* same comparisons and hash; every later assignment works as before (the  *)
(* state is unchanged, so this holds by construction of the closed space). *)
(*                                                                         *)
(* DERIVED objects (Derive): a second object is obtained FROM a live one   *)
(* -- Version(o), NativeVersion(o), copy.copy(o), copy.deepcopy(o),        *)
(* pickle, ChangeBlock(version=o).version ... -- and BOTH stay in use.     *)
(* kin says how the two objects are related: "2from1" (object 2 was        *)
(* derived from object 1), "1from2" (object 1 was derived from object 2)   *)
(* or "none" (unrelated, or an accepted assignment happened since).  The   *)
(* derived object holds the same string and the same key; from then on     *)
(* the two are INDEPENDENT: an assignment to object 1 -- the source in the *)
(* first case, the copy in the second -- leaves string and key of object 2 *)
(* untouched (action property Independent), so object 2 still compares    *)
(* and hashes as its own string says, and object 1 as its new string says. *)
(* A refused assignment keeps kin (nothing happened).                      *)
(*                                                                         *)
(* Negative controls:                                                      *)
(*   StaleKey  = TRUE : the key survives the assignment (memoised          *)
(*               comparison key / hash / parsed tuple not invalidated)     *)
(*   NoResplit = TRUE : after a COMPONENT assignment the key is built from *)
(*               the assigned components, the recomposed string is not     *)
(*               split again (stale components after a boundary move)      *)
(*   PartialOnReject = TRUE : a rejected assignment leaves the assigned    *)
(*               component(s) in the key before raising (partial update)   *)
(*   SharedOnCopy = TRUE : a derived object shares the parsed components   *)
(*               with its source (the reference to one mutable structure   *)
(*               is copied): a COMPONENT assignment to object 1 is written *)
(*               into the structure object 2 reads as well; object 2 keeps *)
(*               printing its string but compares / hashes by the assigned *)
(*               component                                                 *)
(* each makes TLC report Agree, and (separately) HashConsistent, violated. *)
(*                                                                         *)
(* If EmitStride > 0 the selected transitions are printed as MUT lines     *)
(*  [v1, v2, how, arg, v1', ref, rev, ceq, ref', rev', ceq', kin]  (expected *)
(* sign both ways and canonical-key equality before and after; kin as      *)
(* above: with kin # "none" v1 = v2 and the harness obtains one object     *)
(* from the other through a rotating public way); c03.py                   *)
(* replays them: compare, mutate the real object, compare again.           *)
(* Only object 1 is mutated (the comparison is observed both ways).        *)
(* Accepted assignments of related objects (kin # "none") are ALL printed  *)
(* (they are few: v1 = v2), refused ones every second; those of unrelated  *)
(* objects are sampled, and only where object 2 holds a start version.     *)
(***************************************************************************)
EXTENDS DpkgVersionMC

CONSTANTS StaleKey, NoResplit, PartialOnReject, SharedOnCopy,
          Boundary,       \* TRUE: also the boundary-moving assignment values
          MaxFull         \* longest string an object may reach (a revision "x-0" assigned again and
                          \* again would push one more "-x" into the upstream part each time)

VARIABLES ck1, ck2,
          kin             \* "none" | "2from1" | "1from2": see above
ovars == <<v1, v2, v3, out, ck1, ck2, kin>>

ASSUME ~Seps      \* separators inside components come from the assignments below, not from Vers

\* what an implementation derives from the string s / from given components without looking at
\* the string again
InfoFromParts(e, u, rv) ==
    [p |-> [he |-> e # <<>>, e |-> e, u |-> u, hr |-> rv # <<>>, r |-> rv],
     i |-> [e |-> IntVal(OrZero(e)), u |-> Runs(OrZero(u)), r |-> Runs(OrZero(rv))],
     c |-> <<SkipZeros(e), CanonPart(u), CanonPart(rv)>>,
     k |-> <<StrInt(OrZero(e)), IKeyPart(OrZero(u)), IKeyPart(OrZero(rv))>>]

\* every string an object can reach: the in-domain strings of at most MaxFull characters over the
\* model characters and the two separators; InfoAll is the constant table of what is derived from
\* each of them (computed once)
DomStrs == {s \in UNION {[1..n -> UpChars \cup {Colon, Hyphen}] : n \in 1..MaxFull} : InDomain(s)}
InfoAll == TLCEval([s \in DomStrs |-> Info(s)])

\* what comparing object (f1, c1) with object (f2, c2) answers / should answer
Observe(f1, c1, f2, c2) ==
    [NoRes EXCEPT !.ref  = CmpParsed(InfoAll[f1].p, InfoAll[f2].p),       \* = DpkgCmp(f1, f2)
                  !.rev  = CmpParsed(InfoAll[f2].p, InfoAll[f1].p),
                  !.impl = ICmpPrepared(c1.i, c2.i),
                  !.ceq  = (c1.c = c2.c),
                  !.keq  = (c1.k = c2.k)]

OInit == /\ v1 \in Vers /\ v2 \in Vers /\ v3 = None
         /\ ck1 = InfoAll[v1] /\ ck2 = InfoAll[v2] /\ kin = "none"
         /\ out = Observe(v1, ck1, v2, ck2)

\* full-string assignments are sampled with EmitStride, the (rarer) component assignments 4 x denser
\* related objects (kin # "none"): stride kn -- every accepted assignment, every second refused one
SelectedMut(s, n, kn) ==
    LET sum == Chk(v1, 1) * 31 + Chk(v2, 7) + Chk(s, 3) * 17 + Len(v1) IN
    /\ EmitStride > 0
    /\ IF kin # "none" THEN sum % kn = EmitOffset % kn
       ELSE v2 \in Vers /\ sum % n = EmitOffset % n
DenseStride == (EmitStride + 3) \div 4

\* object 1 is assigned; s is the string it then prints, newkey what a correct implementation holds
\* sharedkey: what object 2 would hold if the component were written into a structure it shares
Assign(how, arg, s, lazykey, sharedkey) ==
    /\ s \in DomStrs                       \* in the domain D2 and at most MaxFull characters
    /\ v1' = s
    /\ ck1' = IF StaleKey THEN ck1 ELSE IF NoResplit THEN lazykey ELSE InfoAll[s]
    /\ ck2' = IF SharedOnCopy /\ kin # "none" THEN sharedkey ELSE ck2
    /\ kin' = "none"
    /\ out' = Observe(s, ck1', v2, ck2')
    /\ UNCHANGED <<v2, v3>>
    /\ (SelectedMut(s, IF how = "full" THEN EmitStride ELSE DenseStride, 1) =>
          PrintT(<<"MUT", ToJson(<<v1, v2, how, arg, s, out.ref, out.rev, InfoAll[v1].c = InfoAll[v2].c,
                                   out'.ref, out'.rev, InfoAll[s].c = InfoAll[v2].c, kin>>)>>))

\* the components the object holds (= the decomposition of v1 when the key is fresh)
P1 == ck1.p
P2 == ck2.p
One   == {<<x>> : x \in UpChars}
\* boundary-moving values: "x-y" and "d:y" as upstream, "x-0" as revision
UpsB  == IF Boundary THEN {x \o <<Hyphen>> \o y : x, y \in One} \cup
                          {x \o <<Colon>> \o y : x \in {d \in One : IsDigit(d[1])}, y \in One}
         ELSE {}
RevsB == IF Boundary THEN {x \o <<Hyphen, Zero>> : x \in One} ELSE {}

AssignFull     == \E s \in Vers : Assign("full", s, s, InfoAll[s], ck2)
AssignEpoch    == \E e \in Epochs :
                     Assign("epoch", e, Join(e, P1.u, P1.r), InfoFromParts(e, P1.u, P1.r), InfoFromParts(e, P2.u, P2.r))
AssignUpstream == \E u \in Ups(<<>>, <<>>) \cup UpsB :
                     Assign("upstream", u, Join(P1.e, u, P1.r), InfoFromParts(P1.e, u, P1.r), InfoFromParts(P2.e, u, P2.r))
AssignRevision == \E rv \in Revs \cup RevsB :
                     Assign("revision", rv, Join(P1.e, P1.u, rv), InfoFromParts(P1.e, P1.u, rv), InfoFromParts(P2.e, P2.u, rv))

\* ---- derived objects: one object is obtained from the other (copy construction, copy.copy,
\* deepcopy, pickle ...); it holds the same string and the same key
Derive21 == /\ v2' = v1 /\ ck2' = ck1 /\ kin' = "2from1"
            /\ out' = Observe(v1, ck1, v1, ck1)
            /\ UNCHANGED <<v1, v3, ck1>>
Derive12 == /\ v1' = v2 /\ ck1' = ck2 /\ kin' = "1from2"
            /\ out' = Observe(v2, ck2, v2, ck2)
            /\ UNCHANGED <<v2, v3, ck2>>

\* ---- rejected assignments: the object is unchanged
Junk == <<32>>                                   \* a foreign character: the str() of a wrong-typed value
Reject(how, arg, s, partialkey) ==
    /\ Rejected(s)
    /\ v1' = v1
    /\ ck1' = IF PartialOnReject THEN partialkey ELSE ck1
    /\ out' = Observe(v1, ck1', v2, ck2)
    /\ UNCHANGED <<v2, v3, ck2, kin>>
    /\ (SelectedMut(s, DenseStride, 2) =>
          PrintT(<<"REJ", ToJson(<<v1, v2, how, arg, out.ref, out.rev, InfoAll[v1].c = InfoAll[v2].c, kin>>)>>))

\* values that make the string unacceptable: junk, lone separators, ':' without a numeric epoch
BadVals   == {Junk, <<>>, <<Colon>>, <<Hyphen>>, <<Colon, Zero>>, <<Zero, Colon>>, <<Zero, Hyphen, Zero, Colon, Zero>>}
RejectFull     == \E s \in BadVals \cup {x \o <<Colon>> \o y : x \in {<<>>, <<Hyphen>>}, y \in One} :
                     Reject("full", s, s, InfoFromParts(<<>>, s, <<>>))
RejectEpoch    == \E e \in BadVals \ {<<>>} :
                     Reject("epoch", e, Join(e, P1.u, P1.r), InfoFromParts(e, P1.u, P1.r))
RejectUpstream == \E u \in BadVals \ {<<>>} :         \* (None / "" as upstream: unspecified, DESIGN C14)
                     Reject("upstream", u, Join(P1.e, u, P1.r), InfoFromParts(P1.e, u, P1.r))
RejectRevision == \E rv \in BadVals \ {<<>>} :
                     Reject("revision", rv, Join(P1.e, P1.u, rv), InfoFromParts(P1.e, P1.u, rv))

ONext == \/ AssignFull \/ AssignEpoch \/ AssignUpstream \/ AssignRevision
         \/ Derive21 \/ Derive12
         \/ RejectFull \/ RejectEpoch \/ RejectUpstream \/ RejectRevision
OSpec == OInit /\ [][ONext]_ovars

KeyFresh == ck1 = InfoAll[v1] /\ ck2 = InfoAll[v2]
\* whatever happens to object 1, an object 2 that keeps its string keeps its key
Independent == [][(v2' = v2) => (ck2' = ck2)]_ovars
Related     == kin # "none" => (v1 = v2 /\ ck1 = ck2)
\* Agree, Antisym, HashConsistent, HashImpl: as defined in DpkgVersionMC, over out
=============================================================================
