\* C03 thorough: pairs of complete versions: epoch absent/0/1/01, revision absent/0/00/1/~/a,
\* upstream <= 2 characters over 0 1 A a + . ~ plus ':' and '-' where D2 allows them
\* (1982 versions, 3 928 324 pairs)
CONSTANTS
  HashOnString = FALSE
  TildeOrderZero = FALSE
  Epochs <- E_few
  Revs <- R_more
  UpChars = {48, 49, 65, 97, 43, 46, 126}
  MaxUp = 2
  Seps = TRUE
  Triples = FALSE
  EmitStride = 0
  EmitOffset = 0
  CheckPos = FALSE
SPECIFICATION Spec
INVARIANT Agree
INVARIANT SplitAgree
INVARIANT Antisym
INVARIANT Trichotomy
INVARIANT Reflexive
INVARIANT HashConsistent
INVARIANT HashImpl
CHECK_DEADLOCK FALSE
