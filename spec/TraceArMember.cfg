CONSTANTS
  Bytes = {}
  Names = {}
  MaxMembers = 0
  MaxData = 0
  RdSizes = {}
  RlSizes = {}
  SeekMax = 100000000
  Ops = TRUE
  Hints = {}
  Faults = {"raise", "short"}
  IterSingleLine = FALSE
  Emit = FALSE
SPECIFICATION TSpec
INVARIANT TPosOK
PROPERTY RExact
PROPERTY RIsolated
CHECK_DEADLOCK FALSE
