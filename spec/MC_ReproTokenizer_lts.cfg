CONSTANTS
  Classes = {"E", "W", "H", "C", "F1", "F1b", "F1a", "F1ba", "F0", "F0s", "X"}
  MaxLines = 0
  NarrowClasses = {}
  NarrowMaxLines = 0
  Emit = "edge"
  MergeUnterminatedWs = FALSE
  DropFloatingComment = FALSE
SPECIFICATION Spec
VIEW CtlView
INVARIANT TypeOK
INVARIANT OneBranch
INVARIANT CtlConsistent
INVARIANT InDomain
CHECK_DEADLOCK FALSE
