\* X14 (b): every history of <= 3 calls over a reduced set of new_block variants (quick tier; the harness generates
\* this text, thorough: depth 3 over all variants, depth 4 over {"full", "empty"})
CONSTANTS
  AMode = "hist"
  ADepth = 3
  AMaxBlocks = 9
  AMaxChanges = 9
  AEmit = FALSE
  ABug = "none"
  ANewKinds = {"full", "empty", "no_vr", "only_ch"}
  AInits = {"empty", "one"}
SPECIFICATION ASpec
INVARIANT ATypeOK
INVARIANT IndexLaws
INVARIANT LookupByValue
INVARIANT VersionsMatchBlocks
INVARIANT AddChangeIsRule
INVARIANT RenderLaws
INVARIANT NormShape
PROPERTY NewBlockOnTop
PROPERTY OnlyTopChanges
PROPERTY ReadBack
PROPERTY ErrAtomic
PROPERTY EmptyRaises
CHECK_DEADLOCK FALSE
