CONSTANTS
  RlKeyMode = "position"
  RlCopies = TRUE
  RlAsk = {"buzz", "wheezy", "buster", "sid", "unstable", ""}
  RlMaxObjs = 4
  RlEmit = FALSE
SPECIFICATION RlSpec
INVARIANT RlTypeOK
INVARIANT VersionsAgree
INVARIANT OrderIsPosition
INVARIANT OrderLaws
INVARIANT InternUnique
INVARIANT LiveOrder
CHECK_DEADLOCK FALSE
