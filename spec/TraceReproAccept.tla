------------------------- MODULE TraceReproAccept -------------------------
(***************************************************************************)
(* X09 -- binding of ReproAccept.tla to the real parser                    *)
(* (harness/props/x09.py), over IOEnv.TRACE_FILE.                          *)
(*                                                                         *)
(* A trace is a recorded HISTORY of parse_deb822_file calls:               *)
(*   [files |-> << <<line>> >>,   the texts handed to the parser, a line = *)
(*        [rs |-> <<[c, n]>>,     runs of character classes of its body    *)
(*                                (lexical table of the harness: S R H C D *)
(*                                P N X), whatever their lengths           *)
(*         nm |-> <<code point>>] the text before the first ':' (empty     *)
(*                                when there is none or it is longer than  *)
(*                                64 characters: then `long` is TRUE)      *)
(*    ev    |-> << event >>]      one per call AND one per later           *)
(*                                re-observation of a result kept alive:   *)
(*        [f, e, d,               file, the two flags                      *)
(*         out,                   "ok" / "syntax" / "dup" (ValueError by   *)
(*                                message kind)                            *)
(*         ferr, frun, nerr,      first / last line of the text of         *)
(*                                find_first_error_element(), number of    *)
(*                                Deb822ErrorTokens (out = "ok")           *)
(*         valid,                 is_valid_file                            *)
(*         pars |-> <<[names, dup, cls]>>,   per paragraph: field names as *)
(*                                code points, has_duplicate_fields, is a  *)
(*                                Deb822DuplicateFieldsParagraphElement    *)
(*         cand,                  out = "syntax": the lines whose text the *)
(*                                quoted text of the message begins with   *)
(*         dname, dno]            out = "dup": name and number of the      *)
(*                                message                                  *)
(* TLC classifies every line itself (Classify), lower-cases the names      *)
(* (ASCII only) and computes Expected(lines) once per file; every event    *)
(* must be explained by it (Explains), where the readings of (u1)          *)
(* disagree the observable is not judged.  <<"ACCEPTED", tid>> is printed  *)
(* for every trace explained completely; corrupted control traces must not *)
(* be.  A file with a line of class Unspec makes the trace unjudged        *)
(* (<<"REJECT", tid, "unspec">> is printed as a note and the trace is      *)
(* accepted); a name cut that disagrees with TLC's nlen is a harness bug   *)
(* (<<"REJECT", tid, "cut">>, not accepted).                               *)
(***************************************************************************)
EXTENDS ReproAccept, IOUtils, TLCExt

Traces == JsonDeserialize(IOEnv.TRACE_FILE)
Diag   == IOEnv.TRACE_DIAG = "1"

VARIABLES tid, l, xp
tvars == <<vars, tid, l, xp>>
Tr == Traces[tid]

Lower(s) == [i \in 1..Len(s) |-> IF s[i] >= 65 /\ s[i] <= 90 THEN s[i] + 32 ELSE s[i]]
ClsCode(c) == CASE c = "Blank" -> "B" [] c = "Comment" -> "C" [] c = "Cont" -> "K" [] c = "Field" -> "F"
                [] c = "Junk" -> "J" [] OTHER -> "U"
LineOf(x) == LET r == Classify(x.rs) IN
             IF r.c = "Field" THEN (IF x.long \/ r.nlen # Len(x.nm) THEN Ln("X", <<>>, <<>>) ELSE Ln("F", Lower(x.nm), x.nm))
             ELSE Ln(ClsCode(r.c), <<>>, <<>>)
LinesOf(file) == [i \in 1..Len(file) |-> LineOf(file[i])]
FileInfo(file) == LET ls == LinesOf(file) IN
                  [ls |-> ls,
                   unspec |-> \E i \in 1..Len(ls) : ls[i].c = "U",
                   cut |-> \E i \in 1..Len(ls) : ls[i].c = "X",
                   x |-> IF \E i \in 1..Len(ls) : ls[i].c \in {"U", "X"} THEN <<>> ELSE Expected(ls)]

Chk(P) == P = TRUE
FlagIx(e, d) == IF e THEN (IF d THEN 4 ELSE 3) ELSE (IF d THEN 2 ELSE 1)
InSeq(v, s) == \E i \in 1..Len(s) : s[i] = v

ParasMatch(fi, o) ==
  /\ Len(o.pars) = Len(fi.x.paras)
  /\ \A q \in 1..Len(o.pars) :
        /\ o.pars[q].names = [j \in 1..Len(fi.x.paras[q]) |-> fi.ls[fi.x.paras[q][j]].v]
        /\ o.pars[q].dup = fi.x.dups[q]
        /\ o.pars[q].cls = fi.x.dups[q]

Explains(fi, o) ==
  LET x == fi.x IN
  /\ InSeq(o.out, x.acc[FlagIx(o.e, o.d)])
  /\ CASE o.out = "ok" ->
            /\ o.ferr = x.ferr
            /\ (x.frun = -1 \/ o.frun = x.frun)
            /\ (x.nerr = -1 \/ o.nerr = x.nerr)
            /\ o.valid = x.valid
            /\ (x.pok => ParasMatch(fi, o))
       [] o.out = "syntax" -> x.ferr # 0 /\ InSeq(x.ferr, o.cand)
       [] o.out = "dup" -> x.pok => /\ x.dupi # 0
                                    /\ Lower(o.dname) = fi.ls[x.dupi].n
                                    /\ o.dno \in {x.dupp - 1, x.dupp}
       [] OTHER -> FALSE

TInit == /\ tid \in 1..Len(Traces) /\ l = 1
         /\ xp = [f \in 1..Len(Tr.files) |-> FileInfo(Tr.files[f])]
         /\ yln = <<>> /\ yst = SInit /\ ydoc = <<>>

Unjudged == \E f \in 1..Len(xp) : xp[f].unspec
BadCut   == \E f \in 1..Len(xp) : xp[f].cut

TStep == /\ ~Unjudged /\ ~BadCut
         /\ l <= Len(Tr.ev)
         /\ Chk(Explains(xp[Tr.ev[l].f], Tr.ev[l]))
         /\ l' = l + 1 /\ UNCHANGED <<vars, tid, xp>>
         /\ (Diag => PrintT(<<"AT", tid, l>>))
         /\ (l' = Len(Tr.ev) + 1 => PrintT(<<"ACCEPTED", tid>>))

TSkip == /\ l = 1 /\ (Unjudged \/ BadCut \/ Tr.ev = <<>>)
         /\ l' = Len(Tr.ev) + 2 /\ UNCHANGED <<vars, tid, xp>>
         /\ IF BadCut THEN PrintT(<<"REJECT", tid, "cut">>)
            ELSE IF Unjudged THEN PrintT(<<"REJECT", tid, "unspec">>) /\ PrintT(<<"ACCEPTED", tid>>)
            ELSE PrintT(<<"ACCEPTED", tid>>)

TSpec == TInit /\ [][TStep \/ TSkip]_tvars
=============================================================================
