------------------------- MODULE PackageFileCalls -------------------------
(***************************************************************************)
(* X01 -- independence of readers and of the lists they yield.  The        *)
(* statement of PackageFile.tla quantifies over every file whatever else   *)
(* the process does, so what next() returns must depend only on the text   *)
(* of that reader's file and on how often next() was called on it: not on  *)
(* other readers alive or advanced in between, and not on what the caller  *)
(* did to lists yielded earlier.                                           *)
(*                                                                         *)
(* heap = the lists handed to the caller so far [d, pos, val, mut]         *)
(*        (paragraph pos of file d, present content, mutated by caller);   *)
(* its  = the generators iter(PackageFile(..)) in progress                 *)
(*        [d, s, i, pos, done, obj]: file, reader state of PackageFile.tla *)
(*        (the locals of the suspended generator), lines consumed,         *)
(*        paragraphs yielded, exhausted, first list yielded;               *)
(* gl   = lines read by all readers (only used by SharedLineno).           *)
(* Actions: Open(d) (a new reader and its generator), Next(i) (next():     *)
(* the automaton runs until a paragraph is complete -> a NEW list; until   *)
(* the offending line -> ParseError(kind, lineno); until the end of the    *)
(* file -> the last paragraph, then StopIteration; an exhausted generator  *)
(* stays exhausted), Mutate(o) (the CALLER clears one of his lists and     *)
(* appends rubbish).  Three files: 1 = two IDENTICAL paragraphs and a      *)
(* third one, no final blank line; 2 = a paragraph, then two blank lines   *)
(* ('record' error at line 3); 3 = junk inside the first paragraph         *)
(* ('field' error at line 3, nothing yielded).                             *)
(*                                                                         *)
(* Properties: ReturnedFresh (a yielded list has the content Parse gives   *)
(* for that paragraph), ErrLocal (kind and line number are those of Parse  *)
(* of the reader's own file, raised after all completed paragraphs),       *)
(* StopAtEnd, FreshIdentity (a new object every time), NoSpontaneousChange *)
(* (a list only changes when the caller mutates that very list).           *)
(* Negative controls: SharedPkg = TRUE (the reader clears and refills the  *)
(* list it yielded: `del pkg[:]` instead of `pkg = []`) -> FreshIdentity / *)
(* NoSpontaneousChange; SharedLineno = TRUE (one line counter for all      *)
(* readers) -> ErrLocal.                                                   *)
(* The closed configuration emits the LTS (EDGE lines) and the files       *)
(* (DOCS line); the harness replays scripted and random behaviours into    *)
(* real readers over every kind of file object.                            *)
(***************************************************************************)
EXTENDS PackageFile

CONSTANTS MaxObjs, MaxIters, SharedPkg, SharedLineno

VARIABLES heap, its, last, gl
cvars == <<heap, its, last, gl>>

Fd(k, t) == Ln("Field", k, t)
Ct(t)    == Ln("Cont", NoText, t)
Docs == << <<Fd(1, 11), Ct(12), BlankLn, Fd(1, 11), Ct(12), BlankLn, Fd(2, NoText), DotLn>>,
           <<Fd(1, 21), BlankLn, BlankLn, Fd(2, 22)>>,
           <<Fd(2, 31), Fd(1, 32), JunkLn>> >>
NDocs == Len(Docs)
Model(d) == Parse(Docs[d])

Rubbish   == <<[k |-> 99, v |-> <<666>>]>>
Obj(d, p) == [d |-> d, pos |-> p, val |-> Model(d).out[p], mut |-> FALSE]

\* the generator resumes: lines are consumed until something is delivered
RECURSIVE Adv(_, _, _)
Adv(d, s, i) == IF i = Len(Docs[d]) THEN [s |-> s, i |-> i, ev |-> "eof"]
                ELSE LET s2 == StepF(s, Docs[d][i + 1]) IN
                     IF s2.err.kind # "none" THEN [s |-> s2, i |-> i + 1, ev |-> "error"]
                     ELSE IF Len(s2.out) > Len(s.out) THEN [s |-> s2, i |-> i + 1, ev |-> "yield"]
                     ELSE Adv(d, s2, i + 1)

ItView(it) == [d |-> it.d, i |-> it.i, pos |-> it.pos, done |-> it.done]
StView(h, t) == [heap |-> h, its |-> [j \in 1..Len(t) |-> ItView(t[j])]]
CEdge(op, args) == Emit => PrintT(<<"EDGE", ToJson([from |-> StView(heap, its), op |-> op, args |-> args,
                                                    res |-> last', to |-> StView(heap', its')])>>)

NoCall == [op |-> "none", ev |-> "none", ret |-> 0, kind |-> "none", lineno |-> 0, d |-> 0, pos |-> 0]

CInit == /\ xrd = RInit /\ xdoc = <<>> /\ xln = [cs |-> <<>>, nl |-> TRUE]
         /\ heap = <<>> /\ its = <<>> /\ last = NoCall /\ gl = 0

Open(d) ==
    /\ Len(its) < MaxIters
    /\ its' = Append(its, [d |-> d, s |-> RInit, i |-> 0, pos |-> 0, done |-> FALSE, obj |-> 0])
    /\ last' = [NoCall EXCEPT !.op = "open", !.d = d]
    /\ UNCHANGED <<heap, gl>>
    /\ CEdge("open", <<d>>)

\* a paragraph is delivered: a new list (or, SharedPkg, the list this reader delivered before)
Deliver(i, it2) ==
    LET it == its[i]
        p  == it.pos + 1
    IN IF SharedPkg /\ it.obj # 0
       THEN /\ heap' = [heap EXCEPT ![it.obj] = Obj(it.d, p)]
            /\ its' = [its EXCEPT ![i] = [it2 EXCEPT !.pos = p]]
            /\ last' = [NoCall EXCEPT !.op = "next", !.ev = "para", !.ret = it.obj, !.d = it.d, !.pos = p]
       ELSE /\ Len(heap) < MaxObjs
            /\ heap' = Append(heap, Obj(it.d, p))
            /\ its' = [its EXCEPT ![i] = [it2 EXCEPT !.pos = p, !.obj = IF @ = 0 THEN Len(heap) + 1 ELSE @]]
            /\ last' = [NoCall EXCEPT !.op = "next", !.ev = "para", !.ret = Len(heap) + 1, !.d = it.d, !.pos = p]

Next(i) ==
    LET it == its[i] IN
    /\ IF it.done
       THEN /\ last' = [NoCall EXCEPT !.op = "next", !.ev = "stop", !.d = it.d, !.pos = it.pos]
            /\ UNCHANGED <<heap, its, gl>>
       ELSE LET a == Adv(it.d, it.s, it.i)
                g == IF SharedLineno THEN gl + (a.i - it.i) ELSE gl
            IN /\ gl' = g
               /\ CASE a.ev = "yield" -> Deliver(i, [it EXCEPT !.s = a.s, !.i = a.i])
                    [] a.ev = "error" ->
                         /\ its' = [its EXCEPT ![i] = [it EXCEPT !.s = a.s, !.i = a.i, !.done = TRUE]]
                         /\ last' = [NoCall EXCEPT !.op = "next", !.ev = "error", !.kind = a.s.err.kind,
                                                   !.lineno = IF SharedLineno THEN g ELSE a.s.err.lineno,
                                                   !.d = it.d, !.pos = it.pos]
                         /\ UNCHANGED heap
                    [] a.ev = "eof" ->
                         IF a.s.open
                         THEN Deliver(i, [it EXCEPT !.s = [a.s EXCEPT !.out = Finish(a.s), !.open = FALSE, !.pkg = <<>>,
                                                                      !.key = NoText, !.content = <<>>],
                                                    !.i = a.i])
                         ELSE /\ its' = [its EXCEPT ![i] = [it EXCEPT !.s = a.s, !.i = a.i, !.done = TRUE]]
                              /\ last' = [NoCall EXCEPT !.op = "next", !.ev = "stop", !.d = it.d, !.pos = it.pos]
                              /\ UNCHANGED heap
    /\ CEdge("next", <<i>>)

Mutate(o) ==
    /\ ~heap[o].mut
    /\ heap' = [heap EXCEPT ![o].val = Rubbish, ![o].mut = TRUE]
    /\ last' = [NoCall EXCEPT !.op = "mutate", !.ret = o, !.d = heap[o].d, !.pos = heap[o].pos]
    /\ UNCHANGED <<its, gl>>
    /\ CEdge("mutate", <<o>>)

CNext == /\ UNCHANGED vars
         /\ \/ \E d \in 1..NDocs : Open(d)
            \/ \E i \in 1..Len(its) : Next(i)
            \/ \E o \in 1..Len(heap) : Mutate(o)
CSpec == CInit /\ [][CNext]_<<vars, cvars>>

ReturnedFresh == last.ev = "para" => /\ last.pos <= Len(Model(last.d).out)
                                     /\ heap[last.ret].val = Model(last.d).out[last.pos]
                                     /\ ~heap[last.ret].mut
ErrLocal      == last.ev = "error" => /\ [kind |-> last.kind, lineno |-> last.lineno] = Model(last.d).err
                                      /\ last.pos = Len(Model(last.d).out)
StopAtEnd     == last.ev = "stop" => last.pos = Len(Model(last.d).out)
\* every generator is a prefix of its file's outcome
ItsConsistent == \A j \in 1..Len(its) : /\ its[j].pos <= Len(Model(its[j].d).out)
                                        /\ its[j].s.out = SubSeq(Model(its[j].d).out, 1, its[j].pos)
FreshIdentity == [][last'.ev = "para" => last'.ret = Len(heap) + 1]_<<vars, cvars>>
NoSpontaneousChange == [][\A o \in 1..Len(heap) : heap'[o] # heap[o] => (last'.op = "mutate" /\ last'.ret = o)]_<<vars, cvars>>
\* the first two paragraphs of file 1 are identical (and must still be two lists)
IdenticalParas == Model(1).out[1] = Model(1).out[2] /\ Len(Model(1).out) = 3 /\ Model(1).err = NoErr
DocsLine == Emit => PrintT(<<"DOCS", ToJson([d \in 1..NDocs |-> [lines |-> Docs[d], out |-> Model(d).out, err |-> Model(d).err]])>>)
ASSUME DocsLine
=============================================================================
