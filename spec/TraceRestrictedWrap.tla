----------------------- MODULE TraceRestrictedWrap -----------------------
(***************************************************************************)
(* X07 -- trace validation: histories recorded from real RestrictedWrapper *)
(* objects (harness/props/x07.py: the classes of debian.copyright, classes *)
(* defined by the harness, subclasses of both; several wrappers over the   *)
(* same and over different Deb822 paragraphs) are explained by the pure    *)
(* operator Call of RestrictedWrap.tla.                                    *)
(* A trace is [env, init, events]: env as in RestrictedWrap.tla (classes,  *)
(* wrappers, conversion TABLES filled by applying the from_str / to_str    *)
(* functions the classes were declared with -- they are inputs of the      *)
(* subsystem -- to the interned values / raw strings of the history), init *)
(* the paragraphs at the start, an event [w, op, n, s, v, a, p, res, obs]  *)
(* the call, what it returned / raised and ALL paragraphs after it.        *)
(* Names, spellings, raw strings and values are interned ids: TLC needs    *)
(* equality only, so the size / character stress of the payloads costs     *)
(* nothing here and the verdict is length-independent by construction.     *)
(* An event is explained by the statement (StmtFlags); when IOEnv.KNOWN_SUB*)
(* / KNOWN_INX = "1" (open findings, KNOWN in x07.py) an event that only   *)
(* the as-built behaviour explains is accepted with a <<"REJECT", tid,     *)
(* finding-id, l>> note for the harness.                                   *)
(***************************************************************************)
EXTENDS RestrictedWrap, IOUtils, TLCExt

Traces   == JsonDeserialize(IOEnv.TRACE_FILE)
Diag     == IOEnv.TRACE_DIAG = "1"
KnownSub == IOEnv.KNOWN_SUB = "1"
KnownInx == IOEnv.KNOWN_INX = "1"

VARIABLES tid, l

Tr == Traces[tid]

TInit == /\ tid \in 1..Len(Traces)
         /\ l = 1
         /\ env = Traces[tid].env
         /\ paras = Traces[tid].init
         /\ res = ROk
         /\ call = NoCall

Match(o, e) == o.r.t = e.res.t /\ o.r.x = e.res.x /\ o.ps = e.obs

TStep == /\ l <= Len(Tr.events)
         /\ LET e  == Tr.events[l]
                c  == C(e.w, e.op, e.n, e.s, e.v, e.a, e.p)
                so == Call(env, paras, StmtFlags, c)
            IN IF Match(so, e)
               THEN paras' = so.ps /\ res' = so.r /\ call' = c
               ELSE LET ko == Call(env, paras, Flags(KnownSub, KnownInx, FALSE, FALSE), c) IN
                    /\ Match(ko, e)
                    /\ paras' = ko.ps /\ res' = ko.r /\ call' = c
                    /\ PrintT(<<"REJECT", tid, IF c.op = "has" THEN "X07-contains-exact-spelling"
                                               ELSE "X07-subclass-forgets-restrictions", l>>)
         /\ l' = l + 1 /\ UNCHANGED <<tid, env>>
         /\ (Diag => PrintT(<<"AT", tid, l>>))
         /\ (l' = Len(Tr.events) + 1 => PrintT(<<"ACCEPTED", tid>>))

TSpec == TInit /\ [][TStep]_<<rvars, tid, l>>
\* the mapping invariant also holds along every observed execution
TUnique == \A p \in DOMAIN paras : MUnique(paras[p])
=============================================================================
