\* C12 -- NEGATIVE CONTROL: size_field_behavior kept in one place for all Release objects (the last value set on ANY object wins; fresh objects do not start at the default): WidthTable must be violated
CONSTANTS
  Tables <- DocTables
  Modes <- ModesNegClassOpt
  IterateAllFields = FALSE
  SplitEverySpace = FALSE
  CacheWidths = FALSE
  SharedEqualRecords = FALSE
  ClassLevelOption = TRUE
  StoreBeforeValidate = FALSE
  ReorderStoresPlainKeys = FALSE
  RefusedUnlinksFirst = FALSE
  Emit = FALSE
  EmitOff = 0
SPECIFICATION Spec
INVARIANT TypeOK
INVARIANT DumpTotal
INVARIANT WidthTable
INVARIANT WidthRule
PROPERTY OtherIsOther
CHECK_DEADLOCK FALSE
