CONSTANTS
  AddMode = "afterlast"
  SharedList = FALSE
  FSilent = FALSE
  FStrictDrops = FALSE
SPECIFICATION TSpec
CHECK_DEADLOCK FALSE
