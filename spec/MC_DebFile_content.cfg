CONSTANTS
  Universe <- OneUniverse
  MaxLen = 3
  AnyOrder = FALSE
  InitMatrix = FALSE
  ScriptUniverse = {"preinst", "postinst", "prerm", "postrm", "config"}
  FileNames = {"f1", "f2", "f3"}
  Blobs = {11, 12}
  Decompressors = {"gz", "bz2", "xz", "lzma"}
  AcceptFirstCandidate = FALSE
  InfoOptional = FALSE
  NormalizeSlash = TRUE
  Emit = FALSE
  EmitProbe = TRUE
SPECIFICATION Spec
INVARIANT AcceptIffWellFormed
INVARIANT PartsAreCandidates
INVARIANT OrderIrrelevant
INVARIANT ExtGateDead
INVARIANT SpellingInvariant
INVARIANT ContentExact
INVARIANT LazyDecompress
PROPERTY QueriesPure
VIEW DView
CHECK_DEADLOCK FALSE
