CONSTANTS
  Ids = {}
  Objs = {}
  Moves = FALSE
  Shapes = FALSE
  Defects = {}
  NoSort = FALSE
  Emit = FALSE
SPECIFICATION TSpec
CHECK_DEADLOCK FALSE
