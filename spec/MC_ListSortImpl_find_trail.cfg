CONSTANTS
  Modes = {"up"}
  MaxW = 2
  MaxT = 5
  MaxC = 0
  Dups = TRUE
  MaxEdits = 1
  Edits = TRUE
  KindSel = "some"
  MinVals = 0
  AllPerms = FALSE
  Emit = FALSE
  SliceK = 1
  SliceR = 0
  DefectTrailComma = TRUE
  DefectHiddenSep = TRUE
  Exempt = FALSE
  SortDropsComments = FALSE
  SepAlways = FALSE
  NoNlBeforeCmt = FALSE
  FmtNoTrailSep = FALSE
SPECIFICATION Spec
INVARIANT ReadTotal
CHECK_DEADLOCK FALSE
