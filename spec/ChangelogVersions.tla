------------------------- MODULE ChangelogVersions -------------------------
(***************************************************************************)
(* C04 -- WHICH written version the blocks of a changelog expose.          *)
(*                                                                         *)
(* Changelog.tla treats the version of a header as an opaque token (one    *)
(* per header line); that says "block i holds the token written in header  *)
(* i" but not what the value handed out ANSWERS when it is asked for       *)
(* another written version.  A block "exposes exactly the version that was *)
(* written" when                                                           *)
(*     block_i.version == Version(k)    <=>  k is the version of block i   *)
(*     changelog[k], changelog[Version(k)] = the first block written with  *)
(*                                          the version k (none: no block) *)
(* for every k -- in particular for the versions written in the OTHER      *)
(* blocks of the same changelog.  "Is the version" is Debian's version     *)
(* equality (the dpkg reference DpkgVersion!DpkgCmp = 0, over code points):*)
(* it is coarser than string identity only in the spelling of numbers      *)
(* (leading zeros, epoch 0, revision 0) -- Identify / PlainDistinct below. *)
(*                                                                         *)
(* Model: a changelog of <= MaxBlocks blocks whose versions are drawn from *)
(* one FAMILY of near-equal versions  pre . run . post  that differ in one *)
(* non-digit run only (runs that are proper prefixes of one another,       *)
(* '~' / '~~', '+d' / '+dfsg', the empty run, '.') in upstream-middle,     *)
(* upstream-final, revision and with-epoch position, plus second spellings *)
(* of the same numbers (2.00, 0:9, 01:, -00).  TLC enumerates every such   *)
(* changelog and hands out, per CASE, who answers to what:                 *)
(*   eq[i][k]  block i exposes the k-th version of the family              *)
(*   lk[k]     the block found under the k-th version of the family (0 =   *)
(*             none)                                                       *)
(*                                                                         *)
(* Negative control Bug = "prefixRuns" (tried; re-run in every check): a   *)
(* non-digit run that is a prefix of the other one compares equal          *)
(* -> Identify / PlainDistinct / WrittenFound violated.                    *)
(***************************************************************************)
EXTENDS DpkgVersion, Json

CONSTANTS MaxBlocks,     \* blocks per changelog
          Bug,           \* "none" | "prefixRuns"
          Emit           \* print CASE lines

VARIABLES fam,           \* the family the versions of this changelog are drawn from
          ws             \* the versions written, in file order (indices into FamSeq(fam))
vars == <<fam, ws>>

\* non-digit runs: "", "~", "~~", "~b", "~beta", "+d", "+dfsg", "."
NdRuns == << <<>>, <<126>>, <<126, 126>>, <<126, 98>>, <<126, 98, 101, 116, 97>>,
           <<43, 100>>, <<43, 100, 102, 115, 103>>, <<46>> >>
\* runs written with the second spelling of the numbers too: "~b", "+dfsg"
AltRuns == << <<126, 98>>, <<43, 100, 102, 115, 103>> >>

\* pre / post: the run sits in the middle of the upstream part, at its end (no revision), in the revision,
\* behind an epoch; pre2: another spelling of the same numbers
Families == <<
   [pre |-> <<50, 46, 48>>,             post |-> <<50, 45, 49>>, pre2 |-> <<50, 46, 48, 48>>],          \* 2.0 R 2-1     | 2.00 R 2-1
   [pre |-> <<57>>,                     post |-> <<>>,           pre2 |-> <<48, 58, 57>>],              \* 9 R           | 0:9 R
   [pre |-> <<49, 46, 57, 45, 48>>,     post |-> <<49>>,         pre2 |-> <<49, 46, 57, 45, 48, 48>>],  \* 1.9-0 R 1     | 1.9-00 R 1
   [pre |-> <<49, 58, 50, 46, 48>>,     post |-> <<49>>,         pre2 |-> <<48, 49, 58, 50, 46, 48>>]   \* 1:2.0 R 1     | 01:2.0 R 1
>>
NPlain == Len(NdRuns)
FamSeq(f) == [k \in 1..(NPlain + Len(AltRuns)) |->
                 IF k <= NPlain THEN Families[f].pre \o NdRuns[k] \o Families[f].post
                 ELSE Families[f].pre2 \o AltRuns[k - NPlain] \o Families[f].post]
FamTab == TLCEval([f \in 1..Len(Families) |-> FamSeq(f)])
V(f, k) == FamTab[f][k]
NVers == NPlain + Len(AltRuns)

\* ----- the reference: Debian version equality
PrefixOf(x, y) == Len(x) <= Len(y) /\ SubSeq(y, 1, Len(x)) = x
PairsEqBug(p, q) == Len(p) = Len(q) /\ \A n \in 1..Len(p) : p[n][2] = q[n][2] /\ (PrefixOf(p[n][1], q[n][1]) \/ PrefixOf(q[n][1], p[n][1]))
VerEq(a, b) == IF Bug = "prefixRuns"
               THEN LET ca == Canon(a)  cb == Canon(b) IN ca[1] = cb[1] /\ PairsEqBug(ca[2], cb[2]) /\ PairsEqBug(ca[3], cb[3])
               ELSE DpkgCmp(a, b) = 0
EqTab == TLCEval([f \in 1..Len(Families) |-> [a \in 1..NVers |-> [b \in 1..NVers |-> VerEq(V(f, a), V(f, b))]]])

\* ----- what a changelog with the versions ws exposes
Exposes(f, w, i, k) == EqTab[f][w[i]][k]                 \* block i: .version == Version(k-th version)
Lookup(f, w, k) ==                                       \* changelog[k-th version]: the FIRST block that exposes it
   LET S == {i \in 1..Len(w) : Exposes(f, w, i, k)} IN IF S = {} THEN 0 ELSE CHOOSE i \in S : \A j \in S : i <= j

Init == fam \in 1..Len(Families) /\ ws = <<>>
Next == Len(ws) < MaxBlocks /\ \E k \in 1..NVers : ws' = Append(ws, k) /\ UNCHANGED fam
Spec == Init /\ [][Next]_vars

\* ----- properties of the model
InDom == \A k \in 1..NVers : InDomain(V(fam, k)) /\ ~Unspec(V(fam, k))
\* a block exposes another written version exactly when both are the same version number (same canonical form)
Identify == \A i, j \in 1..Len(ws) : Exposes(fam, ws, i, ws[j]) <=> (Canon(V(fam, ws[i])) = Canon(V(fam, ws[j])))
\* the plain spellings are pairwise different versions: identity of the written strings decides
PlainDistinct == \A i, j \in 1..Len(ws) : (ws[i] <= NPlain /\ ws[j] <= NPlain) => (Exposes(fam, ws, i, ws[j]) <=> ws[i] = ws[j])
\* every written version is found, in the first block that was written with (a spelling of) it
WrittenFound == \A j \in 1..Len(ws) :
                   LET i == Lookup(fam, ws, ws[j]) IN
                   /\ i \in 1..j /\ Canon(V(fam, ws[i])) = Canon(V(fam, ws[j]))
                   /\ \A n \in 1..(i - 1) : Canon(V(fam, ws[n])) # Canon(V(fam, ws[j]))

EmitCase == (Emit /\ Len(ws) >= 2) =>
               PrintT(<<"CASE", ToJson([fam |-> fam, ws |-> ws,
                                        eq |-> [i \in 1..Len(ws) |-> [k \in 1..NVers |-> Exposes(fam, ws, i, k)]],
                                        lk |-> [k \in 1..NVers |-> Lookup(fam, ws, k)]])>>)
\* the versions of the family as code points, once per family
EmitFam == (Emit /\ Len(ws) = 0) => PrintT(<<"FAM", ToJson([fam |-> fam, keys |-> FamTab[fam], nplain |-> NPlain])>>)
=============================================================================
