--------------------------- MODULE ListViewMulti ---------------------------
(***************************************************************************)
(* C11 -- several list views alive at once (state leaks, aliasing, order   *)
(* dependence).  Documents d (independent parses, possibly of the SAME     *)
(* text), list fields f, interpretations m ("sp" | "cm"); doc[d][f][m] is  *)
(* the list a FRESH view of that field shows.  A HANDLE h is one           *)
(* Deb822ParsedTokenList object: it is opened on (d, f, m), then owns a     *)
(* private copy of the list (elements carry an identity so that            *)
(* ValueReferences taken earlier keep pointing at "their" value whatever   *)
(* happened to the list in between), is edited inside a with-block, and    *)
(* leaving the block writes the private list to the document iff it is     *)
(* dirty.  The same object may be entered again after leaving.             *)
(*                                                                         *)
(* What must hold (checked by TLC here for all interleavings of two        *)
(* handles up to MaxSteps, and on the real code by replaying simulated     *)
(* behaviours of this module and by validating recorded executions with    *)
(* TraceListViewMulti):                                                    *)
(*   Isolation   a handle's list changes only through calls on THAT handle *)
(*               (another handle on the same field, on another field, on   *)
(*               another document with the same text never moves it)       *)
(*   DocLocal    doc[d][f] changes only when a dirty handle on (d, f)      *)
(*               leaves its with-block; readers never write                *)
(*   IdsUnique   element identities of a handle are distinct               *)
(* Negative control: SharedTokenCache = TRUE (views of fields with the     *)
(* same name and interpretation share one token list, as a cache keyed by  *)
(* the field text would make them) makes TLC report Isolation violated.    *)
(*                                                                         *)
(* Unspecified by the statement, hence `unk` (the next fresh read is       *)
(* adopted, only document-level validity is checked by the harness):       *)
(*   - two writers on one field: a handle that writes although the field   *)
(*     was written by somebody else since it was opened (stale);           *)
(*   - what the OTHER interpretation sees after a write;                   *)
(*   - what is written for an empty list.                                  *)
(* Not generated: use of a ValueReference whose value has been removed,    *)
(* continuing a partially consumed iter_value_references() after an edit.  *)
(***************************************************************************)
EXTENDS Integers, Sequences, FiniteSets, TLC, Json

CONSTANTS Docs, Fields, Handles,
          MaxLen,            \* append is offered while the list is shorter
          MaxSteps,          \* bound of the history (identities grow with every append)
          Extras,            \* TRUE: also append_newline / append_comment / reformat_when_finished
          Emit,              \* TRUE: print one CASE line (the history with expected observations) at MaxSteps
          SharedTokenCache,  \* negative control
          StaleSnapshot      \* negative control: a write-back whose result equals the content the OBJECT was made
                             \* from is skipped ("nothing to write") -- wrong from the second round of one object on

VARIABLES doc, unk, H, held, actor, lastop, res, got, steps, hist
mvars == <<doc, unk, H, held, actor, lastop, res, got, steps, hist>>

Modes == {"sp", "cm"}
Other(m) == IF m = "sp" THEN "cm" ELSE "sp"
NEWW == 9
Dead == [live |-> FALSE, inb |-> FALSE, d |-> 0, f |-> "", m |-> "", el |-> <<>>, nid |-> 1,
         tail |-> "none", dirty |-> FALSE, stale |-> FALSE, orig |-> <<>>]

Vals(e)        == [i \in 1..Len(e) |-> e[i].v]
HasV(e, v)     == \E i \in 1..Len(e) : e[i].v = v
FirstV(e, v)   == CHOOSE i \in 1..Len(e) : e[i].v = v /\ \A j \in 1..(i - 1) : e[j].v # v
HasId(e, n)    == \E i \in 1..Len(e) : e[i].id = n
IdxId(e, n)    == CHOOSE i \in 1..Len(e) : e[i].id = n
DelAt(e, i)    == SubSeq(e, 1, i - 1) \o SubSeq(e, i + 1, Len(e))
Emptied(e, t)  == IF e = <<>> THEN "none" ELSE t

\* the handle h gets the record r; under the negative control every live handle on a field of the same
\* name and interpretation shares the token list
Put(h, r) == H' = [x \in Handles |->
                     IF x = h THEN r
                     ELSE IF SharedTokenCache /\ H[x].live /\ r.live /\ H[x].f = r.f /\ H[x].m = r.m
                          THEN [H[x] EXCEPT !.el = r.el] ELSE H[x]]
Note(h, op) == actor' = h /\ lastop' = op /\ steps' = steps + 1
Same(h, r)  == H' = H /\ res' = r

\* a new view: it shows the document's list (`seen` is adopted when that is unknown)
Open(h, d, f, m, seen) ==
   /\ ~H[h].live
   /\ LET base == IF unk[d][f][m] THEN seen ELSE doc[d][f][m] IN
      /\ Put(h, [live |-> TRUE, inb |-> TRUE, d |-> d, f |-> f, m |-> m,
                 el |-> [i \in 1..Len(base) |-> [id |-> i, v |-> base[i]]], nid |-> Len(base) + 1,
                 tail |-> "none", dirty |-> FALSE, stale |-> FALSE, orig |-> base])
      /\ doc' = [doc EXCEPT ![d][f][m] = base] /\ unk' = [unk EXCEPT ![d][f][m] = FALSE]
   /\ held' = [held EXCEPT ![h] = <<>>] /\ res' = "ok" /\ got' = <<>> /\ Note(h, "open")

InBlock(h) == H[h].live /\ H[h].inb
Edit(h, op, r, rs) == /\ Put(h, r) /\ res' = rs /\ got' = <<>> /\ UNCHANGED <<doc, unk, held>> /\ Note(h, op)

Append1(h, v)  == /\ InBlock(h)
                  /\ Edit(h, "append", [H[h] EXCEPT !.el = Append(@, [id |-> H[h].nid, v |-> v]), !.nid = @ + 1,
                                                    !.tail = "none", !.dirty = TRUE], "ok")
\* remove / replace of an absent value: the list does not change (the exception is not part of the statement)
Remove1(h, v, rs) == /\ InBlock(h)
                     /\ IF HasV(H[h].el, v)
                        THEN LET n == DelAt(H[h].el, FirstV(H[h].el, v)) IN
                             rs = "ok" /\ Edit(h, "remove", [H[h] EXCEPT !.el = n, !.tail = Emptied(n, @), !.dirty = TRUE], "ok")
                        ELSE rs \in {"ok", "ValueError"} /\ Edit(h, "remove", H[h], rs)
Replace1(h, v, w, rs) == /\ InBlock(h)
                         /\ IF HasV(H[h].el, v)
                            THEN rs = "ok" /\ Edit(h, "replace", [H[h] EXCEPT !.el[FirstV(H[h].el, v)].v = w, !.dirty = TRUE], "ok")
                            ELSE rs \in {"ok", "ValueError"} /\ Edit(h, "replace", H[h], rs)
\* references taken now: list(iter_value_references())[i]
RefSet1(h, i, w) == /\ InBlock(h) /\ i \in 1..Len(H[h].el)
                    /\ Edit(h, "refset", [H[h] EXCEPT !.el[i].v = w, !.dirty = TRUE], "ok")
RefRemove1(h, i) == /\ InBlock(h) /\ i \in 1..Len(H[h].el)
                    /\ LET n == DelAt(H[h].el, i) IN
                       Edit(h, "refremove", [H[h] EXCEPT !.el = n, !.tail = Emptied(n, @), !.dirty = TRUE], "ok")
\* the first k references of iter_value_references() are kept (the generator is abandoned half way)
Hold1(h, k) == /\ InBlock(h) /\ k \in 1..Len(H[h].el)
               /\ held' = [held EXCEPT ![h] = [i \in 1..k |-> H[h].el[i].id]]
               /\ H' = H /\ res' = "ok" /\ got' = <<>> /\ UNCHANGED <<doc, unk>> /\ Note(h, "hold")
\* ... and used later, after other edits: they still denote the same element
HeldOK(h, r)   == InBlock(h) /\ r \in 1..Len(held[h]) /\ HasId(H[h].el, held[h][r])
HeldGet1(h, r) == /\ HeldOK(h, r)
                  /\ got' = H[h].el[IdxId(H[h].el, held[h][r])].v
                  /\ H' = H /\ res' = "ok" /\ UNCHANGED <<doc, unk, held>> /\ Note(h, "heldget")
HeldSet1(h, r, w) == /\ HeldOK(h, r)
                     /\ Edit(h, "heldset", [H[h] EXCEPT !.el[IdxId(H[h].el, held[h][r])].v = w, !.dirty = TRUE], "ok")
HeldRemove1(h, r) == /\ HeldOK(h, r)
                     /\ LET n == DelAt(H[h].el, IdxId(H[h].el, held[h][r])) IN
                        Edit(h, "heldremove", [H[h] EXCEPT !.el = n, !.tail = Emptied(n, @), !.dirty = TRUE], "ok")
\* a call (append / replace / reference assignment) that hands in a text which is NOT a single item of the
\* interpretation -- text after an inner separator, blanks or separators at either end, nothing at all -- is
\* refused by some exception and changes nothing, neither here nor in any other view (ListView!ARefuse)
Bad1(h, op, rs) == InBlock(h) /\ op \in {"badappend", "badreplace", "badrefset"} /\ rs # "ok" /\ Edit(h, op, H[h], rs)
Sep1(h)      == InBlock(h) /\ H[h].m = "cm" /\ Edit(h, "sep", [H[h] EXCEPT !.tail = "none", !.dirty = TRUE], "ok")
Nl1(h, rs)   == /\ InBlock(h)
                /\ IF H[h].tail = "none" THEN rs = "ok" /\ Edit(h, "nl", [H[h] EXCEPT !.tail = "nl"], "ok")
                   ELSE rs \in {"ok", "ValueError"} /\ Edit(h, "nl", H[h], rs)
Cmt1(h)      == InBlock(h) /\ Edit(h, "cmt", [H[h] EXCEPT !.tail = "cmt"], "ok")
Reformat1(h) == InBlock(h) /\ Edit(h, "reformat", [H[h] EXCEPT !.dirty = TRUE], "ok")
\* no_reformatting_when_finished / value_formatter(f) / value_formatter(f, force_reformat=True): only the last
\* one marks the list as changed
NoReformat1(h) == InBlock(h) /\ Edit(h, "noreformat", H[h], "ok")
VFmt1(h, force) == InBlock(h) /\ Edit(h, IF force THEN "vfmtf" ELSE "vfmt", [H[h] EXCEPT !.dirty = @ \/ force], "ok")

MayRefuse(h) == H[h].dirty /\ (H[h].el = <<>> \/ H[h].tail = "cmt")
\* leaving the with-block
Leave1(h, rs) ==
   /\ InBlock(h)
   /\ rs \in {"ok", "ValueError"} /\ (rs = "ValueError" => MayRefuse(h))
   /\ LET r == H[h] d == r.d f == r.f m == r.m IN
      IF r.dirty /\ rs = "ok" /\ ~(StaleSnapshot /\ Vals(r.el) = r.orig)
      THEN /\ doc' = [doc EXCEPT ![d][f][m] = Vals(r.el)]
           /\ unk' = [unk EXCEPT ![d][f] = [x \in Modes |-> x # m \/ r.stale \/ r.el = <<>>]]
           /\ H' = [x \in Handles |->
                      IF x = h THEN [r EXCEPT !.inb = FALSE, !.dirty = FALSE, !.stale = FALSE, !.tail = "nl"]
                      ELSE IF H[x].live /\ H[x].d = d /\ H[x].f = f THEN [H[x] EXCEPT !.stale = TRUE] ELSE H[x]]
      ELSE \* nothing is written.  (A refusal for an EMPTY list may come after the final newline was already
           \* appended to the token list -- separators only, formatter fails: the tail is then not known.)
           /\ H' = [H EXCEPT ![h].inb = FALSE,
                             ![h].tail = IF rs = "ValueError" /\ r.el = <<>> /\ @ = "none" THEN "any" ELSE @]
           /\ UNCHANGED <<doc, unk>>
   /\ res' = rs /\ got' = <<>> /\ UNCHANGED held /\ Note(h, "leave")
\* the with-block is left by an exception (or __exit__ is called with one): nothing is written, the object keeps
\* its edits and stays dirty
Abort1(h) == /\ InBlock(h)
             /\ H' = [H EXCEPT ![h].inb = FALSE] /\ res' = "ok" /\ got' = <<>>
             /\ UNCHANGED <<doc, unk, held>> /\ Note(h, "abort")
\* the same object entered again
Reenter1(h) == /\ H[h].live /\ ~H[h].inb
               /\ H' = [H EXCEPT ![h].inb = TRUE] /\ res' = "ok" /\ got' = <<>>
               /\ UNCHANGED <<doc, unk, held>> /\ Note(h, "reenter")
\* the object is forgotten
Drop1(h) == /\ H[h].live /\ ~H[h].inb
            /\ H' = [H EXCEPT ![h] = Dead] /\ held' = [held EXCEPT ![h] = <<>>]
            /\ res' = "ok" /\ got' = <<>> /\ UNCHANGED <<doc, unk>> /\ Note(h, "drop")
\* a fresh view is read and thrown away
Read1(d, f, m, seen) == /\ got' = (IF unk[d][f][m] THEN seen ELSE doc[d][f][m])
                        /\ doc' = [doc EXCEPT ![d][f][m] = got'] /\ unk' = [unk EXCEPT ![d][f][m] = FALSE]
                        /\ H' = H /\ res' = "ok" /\ UNCHANGED held
                        /\ actor' = 0 /\ lastop' = "read" /\ steps' = steps + 1

-----------------------------------------------------------------------------
Base(f) == IF f = "F" THEN << <<1>>, <<2>> >> ELSE << <<3>> >>
Init == /\ doc = [d \in Docs |-> [f \in Fields |-> [m \in Modes |-> Base(f)]]]
        /\ unk = [d \in Docs |-> [f \in Fields |-> [m \in Modes |-> FALSE]]]
        /\ H = [h \in Handles |-> Dead] /\ held = [h \in Handles |-> <<>>]
        /\ actor = 0 /\ lastop = "-" /\ res = "ok" /\ got = <<>> /\ steps = 0 /\ hist = <<>>

AllVals == [h \in Handles |-> IF H'[h].live THEN Vals(H'[h].el) ELSE <<>>]
\* one history entry: the call, what it returns, what every live handle shows afterwards, and what a fresh
\* view of the field concerned shows (funk: that is unspecified)
Log(h, d, f, m, v, w, i) ==
   LET r  == IF h = 0 THEN [d |-> d, f |-> f, m |-> m] ELSE IF H'[h].live THEN H'[h] ELSE H[h] IN
   hist' = IF Emit THEN Append(hist, [op |-> lastop', h |-> h, d |-> r.d, f |-> r.f, m |-> r.m, v |-> v, w |-> w, i |-> i,
                                      res |-> res', got |-> got', all |-> AllVals,
                                      funk |-> unk'[r.d][r.f][r.m], fresh |-> doc'[r.d][r.f][r.m]])
           ELSE hist

Next ==
   /\ steps < MaxSteps
   /\ \/ \E h \in Handles, d \in Docs, f \in Fields, m \in Modes :
            /\ \A x \in Handles : x < h => H[x].live            \* (handles are interchangeable: take the first free one)
            /\ ~unk[d][f][m] /\ Open(h, d, f, m, doc[d][f][m]) /\ Log(h, d, f, m, <<>>, <<>>, 0)
      \/ \E h \in Handles :
            \/ Len(H[h].el) < MaxLen /\ Append1(h, <<NEWW>>) /\ Log(h, 0, "", "", <<NEWW>>, <<>>, 0)
            \/ \E i \in 1..Len(H[h].el) :
                  \/ Remove1(h, H[h].el[i].v, "ok") /\ Log(h, 0, "", "", H[h].el[i].v, <<>>, 0)
                  \/ Replace1(h, H[h].el[i].v, <<NEWW>>, "ok") /\ Log(h, 0, "", "", H[h].el[i].v, <<NEWW>>, 0)
                  \/ RefSet1(h, i, <<NEWW>>) /\ Log(h, 0, "", "", <<>>, <<NEWW>>, i)
                  \/ RefRemove1(h, i) /\ Log(h, 0, "", "", <<>>, <<>>, i)
                  \/ Hold1(h, i) /\ Log(h, 0, "", "", <<>>, <<>>, i)
            \/ \E r \in 1..Len(held[h]) :
                  \/ HeldGet1(h, r) /\ Log(h, 0, "", "", <<>>, <<>>, r)
                  \/ HeldSet1(h, r, <<NEWW>>) /\ Log(h, 0, "", "", <<>>, <<NEWW>>, r)
                  \/ HeldRemove1(h, r) /\ Log(h, 0, "", "", <<>>, <<>>, r)
            \/ (Extras /\ (Nl1(h, IF H[h].tail = "none" THEN "ok" ELSE "ValueError") \/ Cmt1(h) \/ Reformat1(h)) /\ Log(h, 0, "", "", <<>>, <<>>, 0))
            \/ (Extras /\ (NoReformat1(h) \/ VFmt1(h, TRUE) \/ VFmt1(h, FALSE) \/ Abort1(h)) /\ Log(h, 0, "", "", <<>>, <<>>, 0))
            \/ (Bad1(h, "badappend", "ValueError") /\ Log(h, 0, "", "", <<>>, <<>>, 0))
            \/ \E i \in 1..Len(H[h].el) :
                  \/ Bad1(h, "badreplace", "ValueError") /\ Log(h, 0, "", "", H[h].el[i].v, <<>>, 0)
                  \/ Bad1(h, "badrefset", "ValueError") /\ Log(h, 0, "", "", <<>>, <<>>, i)
            \/ Leave1(h, IF MayRefuse(h) THEN "ValueError" ELSE "ok") /\ Log(h, 0, "", "", <<>>, <<>>, 0)
            \/ Reenter1(h) /\ Log(h, 0, "", "", <<>>, <<>>, 0)
            \/ Drop1(h) /\ Log(h, 0, "", "", <<>>, <<>>, 0)
      \/ \E d \in Docs, f \in Fields, m \in Modes :       \* (emitted behaviours carry `fresh` with every entry instead)
            ~Emit /\ ~unk[d][f][m] /\ Read1(d, f, m, doc[d][f][m]) /\ Log(0, d, f, m, <<>>, <<>>, 0)
Spec == Init /\ [][Next]_mvars

-----------------------------------------------------------------------------
\* (an "invariant" that prints: the simulator evaluates it on the states of the behaviour it walks only)
EmitCase  == (Emit /\ steps = MaxSteps) => PrintT(<<"CASE", ToJson([hist |-> hist])>>)
Isolation == [][\A h \in Handles : (H[h].live /\ H'[h].live /\ H'[h].el # H[h].el) => actor' = h]_mvars
DocLocal  == [][\A d \in Docs, f \in Fields :
                  doc'[d][f] # doc[d][f] =>
                     /\ lastop' = "leave" /\ H[actor'].dirty /\ H[actor'].d = d /\ H[actor'].f = f
                     /\ \A m \in Modes : doc'[d][f][m] # doc[d][f][m] => m = H[actor'].m]_mvars
\* every round of a list object is written back: after a dirty handle left its with-block without a refusal the
\* document holds exactly the list the handle shows -- also when that equals what the object showed when it was
\* made or wrote in an earlier round (negative control StaleSnapshot: open, append, leave, reenter, remove, leave)
WriteBack == [][(lastop' = "leave" /\ res' = "ok" /\ H[actor'].inb /\ H[actor'].dirty) =>
                  doc'[H[actor'].d][H[actor'].f][H[actor'].m] = Vals(H[actor'].el)]_mvars
IdsUnique == \A h \in Handles : \A i, j \in 1..Len(H[h].el) : H[h].el[i].id = H[h].el[j].id => i = j
\* a reader that is not dirty never marks anything stale, a write marks every other handle of the field
StaleOnlyAfterWrite == [][\A h \in Handles : (H'[h].live /\ H'[h].stale /\ ~(H[h].live /\ H[h].stale)) => lastop' = "leave" /\ actor' # h]_mvars
=============================================================================
