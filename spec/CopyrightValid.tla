--------------------------- MODULE CopyrightValid ---------------------------
(***************************************************************************)
(* X13 (extra) -- the VALIDATION DECISION TABLE of debian.copyright:       *)
(* what Copyright(sequence, strict), Header(data), FilesParagraph(data,    *)
(* strict), LicenseParagraph(data), FilesParagraph.create,                 *)
(* LicenseParagraph.create and the typed attributes of the three paragraph *)
(* classes accept, refuse (and with which exception), rewrite and warn     *)
(* about.  Pure operators over SHAPES (no state): re-used by               *)
(* CopyrightStruct.tla / TraceCopyrightStruct.tla for the parse events of  *)
(* recorded histories.                                                     *)
(*                                                                         *)
(* Shapes.                                                                 *)
(*   format value  [sch, body, sl]: scheme "https" / "http" / "other",     *)
(*                 body "cur" (host and path of the current format URL) /  *)
(*                 "old" (anything else), sl = number of trailing slashes; *)
(*                 Cur = [https, cur, 1]; NoFmt = field absent             *)
(*   header        [fmt, fs]: value of Format / of the deprecated          *)
(*                 Format-Specification                                    *)
(*   body paragraph [f, c, l]: Files "no" (absent) / "empty" / "ok",       *)
(*                 Copyright present, License present                      *)
(*   input         [empty, hdr, body]: empty = the input has no paragraph  *)
(*                                                                         *)
(* STATEMENT (validation part).                                            *)
(*   * an input without paragraphs, or whose first paragraph has neither   *)
(*     Format nor Format-Specification, is NotMachineReadableError --      *)
(*     whatever `strict`;                                                  *)
(*   * Format-Specification is taken as Format (warning); a format that    *)
(*     differs from the current one only by the http: scheme and / or a    *)
(*     missing final slash is rewritten to the current one (warning); any  *)
(*     other value is kept as it is (warning "not known"); known_format()  *)
(*     / current_format() say whether the value now IS the current one;    *)
(*   * every further paragraph with a Files field is a FilesParagraph,     *)
(*     every other one with a License field a LicenseParagraph, in input   *)
(*     order; a paragraph with neither, a Files paragraph without          *)
(*     Copyright or without License or with an empty Files field is a      *)
(*     format error: MachineReadableFormatError when strict, a logged      *)
(*     warning otherwise (the paragraph without Files and License is left  *)
(*     out, a defective Files paragraph is kept);                          *)
(*   * a document accepted strictly is accepted non-strictly with the same *)
(*     result; a valid document in the current format logs nothing.        *)
(* Both Format and Format-Specification present: unspecified.              *)
(*                                                                         *)
(* Defect switches (FALSE = the statement):                                *)
(*   FSilent      AS BUILT: Copyright.__init__ hands `strict` to the       *)
(*                paragraph constructors POSITIONALLY, where it lands in   *)
(*                `_internal_validate`: non-strict parsing skips the       *)
(*                checks of Files paragraphs instead of logging them       *)
(*                (finding X13-nonstrict-silent)   -> TolerantWarns        *)
(*   FStrictDrops negative control: strict parsing leaves a defective      *)
(*                paragraph out instead of raising -> StrictOnlyValid      *)
(***************************************************************************)
EXTENDS Naturals, Sequences, FiniteSets, TLC, Json

CONSTANTS FSilent, FStrictDrops

VFlags(silent, drops) == [silent |-> silent, drops |-> drops]
VStmt  == VFlags(FALSE, FALSE)
VBuilt == VFlags(TRUE, FALSE)
VCfg   == VFlags(FSilent, FStrictDrops)

NMR  == "NotMachineReadableError"
MRFE == "MachineReadableFormatError"
TERR == "TypeError"

----------------------------------------------------------------------------
\* formats
Fmt(sch, body, sl) == [sch |-> sch, body |-> body, sl |-> sl]
NoFmt    == Fmt("none", "none", 0)
Cur      == Fmt("https", "cur", 1)
Formats  == {Fmt(s, b, k) : s \in {"https", "http", "other"}, b \in {"cur", "old"}, k \in 0..2}
\* what Header.__init__ tries: a final slash when there is none, https for http
Norm(f)    == Fmt(IF f.sch = "http" THEN "https" ELSE f.sch, f.body, IF f.sl = 0 THEN 1 ELSE f.sl)
Fixable(f) == Norm(f) = Cur
AfterFix(f) == IF Fixable(f) THEN Cur ELSE f

Hdr(fmt, fs) == [fmt |-> fmt, fs |-> fs]
HdrEff(h)    == IF h.fs # NoFmt THEN h.fs ELSE h.fmt
HeaderLoad(h) ==
    LET f == HdrEff(h) IN
    [err    |-> IF f = NoFmt THEN NMR ELSE "",
     fmt    |-> IF f = NoFmt THEN NoFmt ELSE AfterFix(f),
     warned |-> f # NoFmt /\ (h.fs # NoFmt \/ f # Cur),
     known  |-> f # NoFmt /\ AfterFix(f) = Cur,
     unspec |-> h.fs # NoFmt /\ h.fmt # NoFmt]

----------------------------------------------------------------------------
\* body paragraphs
P(f, c, l)  == [f |-> f, c |-> c, l |-> l]
BodyShapes  == {P(f, c, l) : f \in {"no", "empty", "ok"}, c \in BOOLEAN, l \in BOOLEAN}
Kind(p)     == IF p.f # "no" THEN "F" ELSE IF p.l THEN "L" ELSE "-"
FilesDefect(p) == p.f # "no" /\ (~p.c \/ ~p.l \/ p.f = "empty")
Defective(p)   == Kind(p) = "-" \/ FilesDefect(p)

Inp(empty, hdr, body) == [empty |-> empty, hdr |-> hdr, body |-> body]
Rej(errs, unspec) == [errs |-> errs, kinds |-> <<>>, keep |-> <<>>, fmt |-> NoFmt, warned |-> FALSE,
                      known |-> FALSE, unspec |-> unspec]

\* Copyright(sequence, strict=strict)
Load(inp, strict, fl) ==
    IF inp.empty THEN Rej({NMR}, FALSE)
    ELSE LET hl   == HeaderLoad(inp.hdr)
             b    == inp.body
             bad  == {i \in DOMAIN b : Defective(b[i])}
             keep == SelectSeq([i \in DOMAIN b |-> i],
                               LAMBDA i : Kind(b[i]) # "-" /\ ~(strict /\ fl.drops /\ Defective(b[i])))
         IN IF hl.err # "" THEN Rej({NMR} \cup (IF strict /\ bad # {} THEN {MRFE} ELSE {}), hl.unspec)
            ELSE IF strict /\ bad # {} /\ ~fl.drops THEN Rej({MRFE}, hl.unspec)
            ELSE [errs   |-> {},
                  kinds  |-> [j \in DOMAIN keep |-> Kind(b[keep[j]])],
                  keep   |-> keep,
                  fmt    |-> hl.fmt,
                  warned |-> hl.warned \/ (~strict /\ \E i \in bad : Kind(b[i]) = "-" \/ ~fl.silent),
                  known  |-> hl.known,
                  unspec |-> hl.unspec]

\* FilesParagraph(data, strict=strict) / LicenseParagraph(data) called by the user
Ctor(errs, warned) == [errs |-> errs, warned |-> warned]
FilesCtor(p, strict) == IF p.f = "no" THEN Ctor({MRFE}, FALSE)
                        ELSE IF FilesDefect(p) THEN (IF strict THEN Ctor({MRFE}, FALSE) ELSE Ctor({}, TRUE))
                        ELSE Ctor({}, FALSE)
LicCtor(p)           == IF ~p.l \/ p.f # "no" THEN Ctor({MRFE}, FALSE) ELSE Ctor({}, FALSE)

----------------------------------------------------------------------------
\* the typed attributes: class -> <<[attr, name, kind, an]>>  (kind: id = plain string, single = one
\* line, lines = _LineBased, words = _SpaceSeparated, lic = License; an = None allowed = optional field)
FD(attr, name, kind, an) == [attr |-> attr, name |-> name, kind |-> kind, an |-> an]
FieldTable == [
    Header |-> << FD("format", "Format", "single", FALSE), FD("upstream_name", "Upstream-Name", "single", TRUE),
                  FD("upstream_contact", "Upstream-Contact", "lines", TRUE), FD("source", "Source", "id", TRUE),
                  FD("disclaimer", "Disclaimer", "id", TRUE), FD("comment", "Comment", "id", TRUE),
                  FD("license", "License", "lic", TRUE), FD("copyright", "Copyright", "id", TRUE),
                  FD("files_excluded", "Files-Excluded", "lines", TRUE),
                  FD("files_included", "Files-Included", "lines", TRUE) >>,
    FilesParagraph |-> << FD("files", "Files", "words", FALSE), FD("copyright", "Copyright", "id", FALSE),
                          FD("license", "License", "lic", FALSE), FD("comment", "Comment", "id", TRUE) >>,
    LicenseParagraph |-> << FD("license", "License", "lic", FALSE), FD("comment", "Comment", "id", TRUE) >> ]
Classes == DOMAIN FieldTable

\* value classes a caller may assign, per kind, and what the conversion makes of them:
\* "raw" (a string to store), "nil" (None: nothing to store), "fail" (the conversion refuses)
ValClasses == [id     |-> <<"none", "str">>,
               single |-> <<"none", "line", "multi">>,
               lines  |-> <<"none", "empty", "one", "many", "blank", "nl">>,
               words  |-> <<"none", "empty", "one", "many", "blank", "ws">>,
               lic    |-> <<"none", "lic">>]
ConvOut(kind, v) == CASE v \in {"none", "empty"}          -> "nil"
                      [] v \in {"multi", "blank", "nl", "ws"} -> "fail"
                      [] OTHER                              -> "raw"
\* obj.attr = v  ->  "stored" | "deleted" | TypeError | MachineReadableFormatError  (errors change nothing)
AttrSet(fd, v) == LET c == ConvOut(fd.kind, v) IN
                  IF c = "fail" THEN MRFE
                  ELSE IF c = "nil" THEN (IF fd.an THEN "deleted" ELSE TERR)
                  ELSE "stored"
IsErr(o) == o \in {MRFE, TERR}
Field(cls, attr) == LET t == FieldTable[cls] IN t[CHOOSE i \in DOMAIN t : t[i].attr = attr]

\* FilesParagraph.create(files, copyright, license): the three assignments; any refusal refuses the call
\* (with the exception of one of the refused parts: which one is not specified)
Create(fv, cv, lv) ==
    LET os == {AttrSet(Field("FilesParagraph", "files"), fv), AttrSet(Field("FilesParagraph", "copyright"), cv),
               AttrSet(Field("FilesParagraph", "license"), lv)}
    IN [errs |-> {o \in os : IsErr(o)}, shape |-> P("ok", TRUE, TRUE)]
\* LicenseParagraph.create(license): a License or TypeError
LicArgs == <<"lic", "none", "str", "tuple">>
LicCreate(lv) == [errs |-> IF lv = "lic" THEN {} ELSE {TERR}, shape |-> P("no", FALSE, TRUE)]

=============================================================================
