--------------------------- MODULE TraceDebtags ---------------------------
(***************************************************************************)
(* C20 -- trace validation: histories recorded from the real debtags.DB    *)
(* (harness/props/c20.py) are checked against the operators of Debtags.    *)
(*                                                                         *)
(* A trace is [events |-> <<event>>] starting from DB(); an event is       *)
(*   [op, exc, db, rdb, ...args]    one public call on the current object  *)
(* where db / rdb are the two dictionaries observed after the call as      *)
(* sequences of <<key, members>> and names are sequences of code points.   *)
(*   op = "q" carries the answers of the query methods instead.            *)
(*                                                                         *)
(* An event is explained when the observed dictionaries are exactly what   *)
(* the implementation-layer operator yields (deviation OFF) and -- when    *)
(* the state before was inverse -- what the REFERENCE relation yields.     *)
(* With IOEnv.DEV = "1" (the harness sets it only while the known finding  *)
(* C20-insert-chars is open) an insert / facet_collection event may also   *)
(* be explained by the named deviation InsertNewTagStoresChars; such a     *)
(* step prints <<"AT", tid, l, 1>> (a deviation marker) and the rest of    *)
(* the history is checked from the observed (deviating) state on.  A       *)
(* non-inverse state can arise in no other way.                            *)
(* Every event also carries the projection of the retained SOURCE of the   *)
(* last copy() / reverse_copy() / pickle round trip (slive, sdb, srdb):    *)
(* it must stay exactly what the collection was when it was copied.        *)
(* The harness also retains the object a SHARING derivation was taken from  *)
(* (e.sact = "retain": the object the call was made on becomes the watched  *)
(* source; "same": the watched object stays; which object it watches is the *)
(* harness' choice, what that object must show is decided here):            *)
(*   reverse()  -- a view on the same two dictionaries (link "rev"; the     *)
(*     view of a view: "same"): after every in-place change made through    *)
(*     the current object the source must be exactly the reverse (the same) *)
(*     collection -- whatever the sizes of the indexes (also EMPTY ones);   *)
(*     read()/qread() on the view bind new dictionaries (link gone);        *)
(*   choose_* / filter_* -- new dictionaries, shared set objects: the       *)
(*     source stays what it was unless an insert may reach a shared set     *)
(*     (insert naming an existing key of the tag index): from then on what  *)
(*     the source shows is unspecified (src.unspec; today it loses the      *)
(*     inverse, the docstrings say "sharing").                              *)
(* op = "back": the history continues on the watched source, the former     *)
(* current object becomes the watched one (edit the original again after    *)
(* its view was edited, inspect the view).                                  *)
(* Branching: a derivation event with keep = TRUE observes the DERIVED      *)
(* object in db / rdb while the object it was taken from stays the current  *)
(* one (cdb / crdb: it must be unchanged); a later "read" / "qread" on the  *)
(* current object re-reads it and later derivations are derivations of the  *)
(* new content.  "qs" carries the query answers of the retained source.     *)
(* The harness calls methods through their deprecated camelCase aliases as  *)
(* well: an alias is the same action, the events do not distinguish them.   *)
(* Failing calls: "read_fail" (input raises after k lines / tag_filter      *)
(* raises while line k+1 is filtered; e.want = the injected exception),    *)
(* "qread_fail" (truncated pickle of the collection e.lines) and "probe"    *)
(* (any other call expected to raise, e.g. insert(pkg, None)): the          *)
(* exception propagates and the object is left consistent -- unchanged or,  *)
(* for reads, a line-prefix / the new collection.  With IOEnv.DEVQ = "1"    *)
(* (open finding C20-qread-nonatomic only) a qread_fail may also leave the  *)
(* new db with the old rdb (NonAtomicQread behaviour, marker 2).          *)
(* "insert_fail": insert(e.a, source) whose caller-supplied tag source      *)
(* hands over the e.k first names of e.seq and then raises (any exception   *)
(* type may come out): the object is what Debtags!IInsertFails says         *)
(* (unchanged), or the package entered consistently with a prefix of those  *)
(* names (IInsertFailsAllowed; with DEV also today's set((pkg)) form,       *)
(* marker 1).                                                               *)
(* Batched: <<"ACCEPTED", tid>> for every trace explained completely.      *)
(***************************************************************************)
EXTENDS Debtags, IOUtils, TLCExt

Traces     == JsonDeserialize(IOEnv.TRACE_FILE)
Diag       == IOEnv.TRACE_DIAG = "1"
DevAllowed == IOEnv.DEV = "1"
DevQAllowed == IOEnv.DEVQ = "1"
FailOps    == {"read_fail", "qread_fail", "probe", "insert_fail"}

Chk(x) == x = TRUE          \* a pure check inside an action (TLC would branch on =>, \/)

VARIABLES tid, l, unsp      \* unsp: what the watched source shows is unspecified from now on

Tr == Traces[tid]

\* observed dictionary: <<<<key, <<member, ...>>>>, ...>>
ObsFn(pairs) == LET ps == ToSet(pairs)
                IN [k \in {x[1] : x \in ps} |-> ToSet((CHOOSE x \in ps : x[1] = k)[2])]
NoDupKeys(pairs) == Cardinality({x[1] : x \in ToSet(pairs)}) = Len(pairs)
JLines(ls)   == [i \in 1..Len(ls) |-> [pkgs |-> ToSet(ls[i].pkgs), tags |-> ToSet(ls[i].tags)]]

RestrictPOps == {"choose", "choose_copy", "filter_p", "filter_p_copy", "filter_pt", "filter_pt_copy"}

\* inputs the statement does not cover (DESIGN D3 / 5 C20): any outcome is accepted
Unspecified(e, pre) ==
   \/ e.op \in {"insert", "insert_fail"} /\ e.a \in DOMAIN pre.db         \* not a fresh package
   \/ e.op \in {"read", "qread"} /\ \E i, j \in 1..Len(e.lines) : i # j /\ ToSet(e.lines[i].pkgs) \cap ToSet(e.lines[j].pkgs) # {}
   \/ e.op = "choose_copy" /\ ~(ToSet(e.s) \subseteq DOMAIN pre.db)     \* KeyError today
   \/ e.op = "facet" /\ ~IFacetDomain(pre)                              \* tags not of the form facet::name

\* the implementation-layer operator for the call (deviation OFF)
Nominal(e, pre) ==
   CASE e.op = "read"           -> IReadClosed(JLines(e.lines), ToSet(e.drop))
     [] e.op = "qread"          -> IReadClosed(JLines(e.lines), {})      \* qread(pickle of that collection)
     [] e.op = "insert"         -> IInsert(pre, e.a, ToSet(e.s), FALSE)
     [] e.op = "reverse"        -> IReverse(pre)
     [] e.op = "reverse_copy"   -> IReverseCopy(pre)
     [] e.op = "copy"           -> ICopy(pre)
     [] e.op = "pickle"         -> ICopy(pre)                            \* qwrite + qread, pickle / deepcopy of the object
     [] e.op = "dumpread"       -> IDumpRead(pre)                        \* dump() / output(db) printed, read() again
     [] e.op = "dumprevread"    -> IDumpReverseRead(pre)                 \* dump_reverse() printed, read() again
     [] e.op = "choose"         -> IChoose(pre, ToSet(e.s))
     [] e.op = "choose_copy"    -> IChooseCopy(pre, ToSet(e.s))
     [] e.op = "filter_p"       -> IFilterP(pre, ToSet(e.s))
     [] e.op = "filter_p_copy"  -> IFilterP(pre, ToSet(e.s))
     [] e.op = "filter_pt"      -> IFilterPT(pre, ToSet(e.s))
     [] e.op = "filter_pt_copy" -> IFilterPT(pre, ToSet(e.s))
     [] e.op = "filter_t"       -> IFilterT(pre, ToSet(e.s))
     [] e.op = "filter_t_copy"  -> IFilterT(pre, ToSet(e.s))
     [] e.op = "facet"          -> IFacetClosed(pre)

\* the reference operator for the call
RefNext(e, a) ==
   CASE e.op = "read"                        -> ARead(JLines(e.lines), ToSet(e.drop))
     [] e.op = "qread"                       -> ARead(JLines(e.lines), {})
     [] e.op = "insert"                      -> AInsert(a, e.a, ToSet(e.s))
     [] e.op \in {"reverse", "reverse_copy"} -> AReverse(a)
     [] e.op \in {"copy", "pickle"}          -> a
     [] e.op = "dumpread"                    -> [P |-> a.P, T |-> AUsedT(a.R), R |-> a.R]
     [] e.op = "dumprevread"                 -> [P |-> a.T, T |-> AUsedP(a.R), R |-> AReverse(a).R]
     [] e.op \in RestrictPOps                -> ARestrictP(a, ToSet(e.s))
     [] e.op \in {"filter_t", "filter_t_copy"} -> ARestrictT(a, ToSet(e.s))
     [] e.op = "facet"                       -> AFacet(a)

\* the named deviation (what the code does today) explains the observation
DevExplains(e, pre, obs) ==
   \/ e.op = "insert" /\ obs = IInsert(pre, e.a, ToSet(e.s), TRUE)
   \/ e.op = "facet"  /\ IFacetDevExplains(pre, obs)

\* the query methods answer like the implementation-layer operators and, on an inverse
\* state, like the reference relation
QueriesOK(e, pre) ==
   LET a == AbsOf(pre) inv == InverseOf(pre) IN
   /\ e.pc = IPkgCount(pre) /\ e.tc = ITagCount(pre)
   /\ inv => (e.pc = APkgCount(a) /\ e.tc = ATagCount(a))
   /\ \A i \in 1..Len(e.qn) :
         LET n == e.qn[i] IN
         /\ ToSet(e.qtags[i]) = ITagsOf(pre, n) /\ ToSet(e.qpkgs[i]) = IPkgsOf(pre, n)
         /\ e.qcard[i] = ICard(pre, n) /\ e.qdisc[i] = IDiscriminance(pre, n)
         /\ e.qhasp[i] = IHasPkg(pre, n) /\ e.qhast[i] = IHasTag(pre, n)
         /\ inv => /\ ToSet(e.qtags[i]) = ATagsOf(a, n) /\ ToSet(e.qpkgs[i]) = APkgsOf(a, n)
                   /\ e.qcard[i] = ACard(a, n) /\ e.qdisc[i] = ADiscriminance(a, n)
                   /\ e.qhasp[i] = AHasPkg(a, n) /\ e.qhast[i] = AHasTag(a, n)
   \* iter_packages / iter_tags / iter_packages_tags / iter_tags_packages: each key once
   /\ ToSet(e.itp) = DOMAIN pre.db /\ Len(e.itp) = Cardinality(DOMAIN pre.db)
   /\ ToSet(e.itt) = DOMAIN pre.rdb /\ Len(e.itt) = Cardinality(DOMAIN pre.rdb)
   /\ NoDupKeys(e.itpt) /\ ObsFn(e.itpt) = pre.db
   /\ NoDupKeys(e.ittp) /\ ObsFn(e.ittp) = pre.rdb

CopyOps == {"copy", "reverse_copy", "pickle", "dumpread", "dumprevread"}
ShareOps == {"choose", "choose_copy", "filter_p", "filter_pt", "filter_t"}      \* share set objects with their source
CopyFormOps == {"filter_p_copy", "filter_pt_copy", "filter_t_copy"}             \* "with a copy of the tagsets": independent
\* (choose_packages_copy is documented as copying but stores self.db[pkg] itself: treated as sharing)

\* ---- the watched source: src = [live, age, db, rdb, kind, link, sd, sr]; unsp = what it shows is unspecified
TSrcNew(pre, kind, link) == [NoSrc EXCEPT !.live = TRUE, !.db = pre.db, !.rdb = pre.rdb, !.kind = kind, !.link = link,
                                         !.sd = link # "none", !.sr = link # "none"]
TMirror(s, obs) == IF s.link = "rev" THEN [s EXCEPT !.db = obs.rdb, !.rdb = obs.db]
                   ELSE IF s.link = "same" THEN [s EXCEPT !.db = obs.db, !.rdb = obs.rdb] ELSE s
\* the watched source s after event e took the current object from pre to obs (same watched object)
TEvolve(s, e, pre, obs) ==
   IF e.op \in {"q", "qs"} \/ e.keep THEN <<s, FALSE>>
   ELSE IF e.op = "insert" /\ e.exc = "" THEN
           IF s.link # "none" THEN <<TMirror(s, obs), FALSE>>
           ELSE <<s, s.kind = "share" /\ ToSet(e.s) \cap DOMAIN pre.rdb # {}>>
   ELSE IF e.exc # "" \/ e.op \in FailOps THEN           \* the call raised: the same object is still the current one
           IF obs = pre THEN <<s, FALSE>> ELSE <<Unlinked(s), s.link # "none">>
   ELSE IF e.op \in {"read", "qread"} THEN <<Unlinked(s), FALSE>>      \* new dictionaries are bound
   ELSE IF e.op = "reverse" THEN <<[s EXCEPT !.link = FlipLink(s.link)], FALSE>>
   ELSE <<[Unlinked(s) EXCEPT !.kind = IF s.link # "none" THEN "share" ELSE s.kind], FALSE>>     \* any other derivation: a new object
KeepOps == CopyOps \cup RestrictPOps \cup {"reverse", "filter_t", "filter_t_copy", "facet"}

\* a failing call: the exception propagates, the object stays consistent
FailureOK(e, pre, obs) ==
   CASE e.op = "read_fail" ->
           /\ e.exc = e.want
           /\ obs \in IReadFailsAllowed(pre, JLines(e.lines), ToSet(e.drop), e.k)
           /\ InverseOf(pre) => /\ InverseOf(obs)
                                /\ AbsOf(obs) \in AReadFailsAllowed(AbsOf(pre), JLines(e.lines), ToSet(e.drop), e.k)
     [] e.op = "qread_fail" ->
           /\ e.exc # ""
           /\ \/ obs \in {pre, IReadClosed(JLines(e.lines), {})}
              \/ DevQAllowed /\ obs = IQReadFails(pre, IReadClosed(JLines(e.lines), {}), e.k, TRUE)
     [] e.op = "insert_fail" ->                 \* the tag source raised after e.k names: error type unspecified
           /\ e.exc # ""
           /\ e.k \in 0..Len(e.seq)
           /\ obs \in IInsertFailsAllowed(pre, e.a, e.seq, e.k, DevAllowed)
           /\ (InverseOf(pre) /\ obs \in IInsertFailsAllowed(pre, e.a, e.seq, e.k, FALSE)) =>
                  (InverseOf(obs) /\ AbsOf(obs) \in AInsertFailsAllowed(AbsOf(pre), e.a, e.seq, e.k))
     [] e.op = "probe" ->                       \* error type unspecified; a call that succeeds is unspecified too
           IF InverseOf(pre) THEN InverseOf(obs) ELSE obs = pre
DevQStep(e, pre, obs) == e.op = "qread_fail" /\ obs \notin {pre, IReadClosed(JLines(e.lines), {})}
DevIStep(e, pre, obs) == e.op = "insert_fail" /\ ~Unspecified(e, pre) /\ obs \notin IInsertFailsAllowed(pre, e.a, e.seq, e.k, FALSE)

TInit == /\ tid \in 1..Len(Traces)
         /\ l = 1
         /\ P = {} /\ T = {} /\ R = {} /\ db = NoDict /\ rdb = NoDict
         /\ sabs = AEmpty /\ src = NoSrc /\ al = NoAlias(IEmpty) /\ rv = NoView /\ ab = NoBound
         /\ unsp = FALSE

TStep == /\ l <= Len(Tr.events)
         /\ LET e   == Tr.events[l]
                pre == Impl
                obs == [db |-> ObsFn(e.db), rdb |-> ObsFn(e.rdb)]
            IN /\ NoDupKeys(e.db) /\ NoDupKeys(e.rdb)
               /\ IF e.op = "back" THEN Chk(src.live /\ e.exc = "" /\ ~e.keep /\ (unsp \/ obs = [db |-> src.db, rdb |-> src.rdb]))
                  ELSE IF Unspecified(e, pre) THEN TRUE
                  ELSE IF e.op \in FailOps THEN FailureOK(e, pre, obs)
                  ELSE /\ e.exc = ""                                     \* no call of the domain raises
                       /\ IF e.op = "q" THEN obs = pre /\ QueriesOK(e, pre)
                          ELSE IF e.op = "qs" THEN obs = pre /\ src.live /\ QueriesOK(e, [db |-> src.db, rdb |-> src.rdb])
                          ELSE LET nom    == Nominal(e, pre)
                                   viaDev == DevAllowed /\ obs # nom /\ DevExplains(e, pre, obs)
                               IN /\ (obs = nom \/ viaDev)
                                  \* directly against the reference relation
                                  /\ (InverseOf(pre) /\ obs = nom) =>
                                        (InverseOf(obs) /\ AbsOf(obs) = RefNext(e, AbsOf(pre)))
               \* keep: the derived object was observed; the object it was taken from stays current, unchanged
               /\ e.keep => /\ e.op \in KeepOps /\ [db |-> ObsFn(e.cdb), rdb |-> ObsFn(e.crdb)] = pre
                            /\ (Unspecified(e, pre) \/ QueriesOK(e, obs))      \* the query methods of the derived object
               /\ LET cur2 == IF e.keep THEN pre ELSE obs IN SetImpl(cur2) /\ SetAbs(AbsOf(cur2))
               \* the source of a copy is independent of the copy: nothing done later changes it;
               \* the source of a view follows the view; the source of a set-sharing restriction stays
               \* what it was until a shared set may have been reached
               /\ LET retain == e.slive /\ e.sact = "retain"
                       ev     == TEvolve(src, e, pre, obs)
                       want   == IF e.op = "back" THEN [src EXCEPT !.db = pre.db, !.rdb = pre.rdb]
                                 ELSE IF ~e.slive THEN NoSrc
                                 ELSE IF retain THEN (IF e.op \in CopyOps \cup CopyFormOps THEN TSrcNew(pre, "copy", "none")
                                                      ELSE IF e.op = "reverse" THEN TSrcNew(pre, "share", "rev")
                                                      ELSE TSrcNew(pre, "share", "none"))
                                 ELSE ev[1]
                       un     == IF e.op = "back" THEN unsp
                                 ELSE IF ~e.slive \/ retain THEN FALSE
                                 ELSE unsp \/ ev[2]
                       seen   == [want EXCEPT !.db = ObsFn(e.sdb), !.rdb = ObsFn(e.srdb)]
                   IN /\ Chk(retain => (e.exc = "" /\ ~e.keep /\ e.op \in CopyOps \cup CopyFormOps \cup ShareOps \cup {"reverse"}))
                      /\ Chk((e.slive /\ ~retain /\ e.op # "back") => src.live)
                      /\ Chk(e.op = "back" => e.slive)
                      /\ Chk(e.slive => (NoDupKeys(e.sdb) /\ NoDupKeys(e.srdb)))
                      /\ Chk((e.slive /\ ~un) => (seen = want))
                      \* directly against the reference relation: the original of a view is its reverse
                      /\ Chk((e.slive /\ ~un /\ want.link # "none" /\ InverseOf(IF e.keep THEN pre ELSE obs)) =>
                                LET c == AbsOf(IF e.keep THEN pre ELSE obs)
                                IN InverseOf(seen) /\ AbsOf(seen) = (IF want.link = "rev" THEN AReverse(c) ELSE c))
                      /\ src' = (IF e.slive THEN seen ELSE NoSrc)
                      /\ unsp' = un
               /\ sabs' = AbsOf(src') /\ al' = al /\ rv' = rv /\ ab' = ab
               \* deviation marker, printed only for a step that is explained completely
               /\ ((~Unspecified(e, pre) /\ e.op \notin (FailOps \cup {"q", "qs", "back"}) /\ DevAllowed /\ obs # Nominal(e, pre))
                      => PrintT(<<"AT", tid, l, 1>>))
               /\ (DevQStep(e, pre, obs) => PrintT(<<"AT", tid, l, 2>>))
               /\ (DevIStep(e, pre, obs) => PrintT(<<"AT", tid, l, 1>>))
         /\ l' = l + 1 /\ UNCHANGED tid
         /\ (Diag => PrintT(<<"AT", tid, l, 0>>))
         /\ (l' = Len(Tr.events) + 1 => PrintT(<<"ACCEPTED", tid>>))

TSpec == TInit /\ [][TStep]_<<vars, tid, l, unsp>>
=============================================================================
