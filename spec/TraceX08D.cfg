CONSTANTS
  FdSpan = 0
  FdJulian = FALSE
  FdEmit = FALSE
  FdCaseDays = {}
  FdCaseSods = {}
  FdCaseOffs = {}
SPECIFICATION TSpec
CHECK_DEADLOCK FALSE
