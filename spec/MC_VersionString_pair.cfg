\* C14 object store with two objects: every pair (obj, kept) reachable by Copy and assignments,
\* closed up to Len(full_version) <= MaxLen (thorough: 7); CopyIndependent, KeptConsistent
CONSTANTS
  Alphabet = {}
  MaxLen = 7
  StartStrings <- LtsStart
  AssignValues <- LtsValues
  Emit = FALSE
  DollarAnchor = FALSE
  UnicodeDigits = FALSE
  NoRollback = FALSE
  StaleKey = FALSE
  CopySharesParts = FALSE
SPECIFICATION LtsSpec
INVARIANT KeyFresh
INVARIANT ObjConsistent
INVARIANT KeptConsistent
PROPERTY AssignOrRollback
PROPERTY CopyIndependent
VIEW PairView
CHECK_DEADLOCK FALSE
