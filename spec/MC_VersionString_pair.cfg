\* C14 object store with two objects: every pair (obj, kept) reachable by Copy and assignments,
\* closed up to Len(full_version) <= MaxLen (thorough: 5); CopyIndependent, KeptConsistent
CONSTANTS
  Alphabet = {}
  MaxLen = 5
  StartStrings <- LtsStart
  AssignValues <- LtsValues
  Emit = FALSE
  DollarAnchor = FALSE
  UnicodeDigits = FALSE
  NoRollback = FALSE
  StaleKey = FALSE
  CopySharesParts = FALSE
SPECIFICATION LtsSpec
INVARIANT KeyFresh
INVARIANT ObjConsistent
INVARIANT KeptConsistent
PROPERTY AssignOrRollback
PROPERTY CopyIndependent
VIEW PairView
CHECK_DEADLOCK FALSE
