------------------------- MODULE TraceCopyrightDoc -------------------------
(***************************************************************************)
(* C17 -- trace validation: executions recorded from the real              *)
(* debian.copyright code (harness/props/c17.py) are checked against the    *)
(* operators of CopyrightDoc.  Lines are abstracted by the independent     *)
(* classifier of the harness to [ind, b, id] (payload words interned to    *)
(* small integers per trace), so documents and texts far beyond the model  *)
(* checked bounds (0..6 paragraphs, texts of up to 8 lines) are validated. *)
(*                                                                         *)
(* kind = "codec": one format_multiline_lines -> parse_multiline_as_lines  *)
(*   execution  [ls, enc, out, exc, out2, out3, kept]: out2 = a second     *)
(*   format+parse of the same list and out3 = a second parse of the same   *)
(*   encoded string, both made AFTER the caller changed the list that the  *)
(*   first call returned; kept = the input list was left unchanged;        *)
(*   sout = parse_multiline(format_multiline('\n'.join(ls))), ssame =       *)
(*   format_multiline gave the text format_multiline_lines gave            *)
(*   1 FormatLines(ls) = enc           DIAGNOSTIC (<<"REJECT", tid, "enc">>)*)
(*   2 inside the domain of the law (CodecDomain): no exception and        *)
(*     out = ParseLines(FormatLines(ls)) -- which CopyrightDoc's CodecLaw  *)
(*     proves to be ls -- and the same for out2, out3; kept.  Outside the  *)
(*     domain the same comparison is DIAGNOSTIC (<<"REJECT", tid,          *)
(*     "normal">>).                                                        *)
(*                                                                         *)
(* kind = "reject": a text that is not a (valid) machine-readable file, given *)
(*   to Copyright(..., strict=True) in every input form: the exception      *)
(*   raised is the one Load gives for the text (NotMachineReadableError:    *)
(*   no paragraph / first paragraph without Format;                        *)
(*   MachineReadableFormatError: a paragraph with neither Files nor        *)
(*   License, a Files paragraph without Copyright or License).             *)
(*                                                                         *)
(* kind = "doc": one build -> dump -> strict re-parse -> dump execution    *)
(*   [start, hdr, ops, calls, order, dump, load, warn, same, edits, load2, *)
(*    same2, load3]                                                        *)
(*   start  "api": ops are the add_*_paragraph calls in call order;        *)
(*          "parsed": the document was obtained by parsing a text whose    *)
(*          paragraphs are ops in that order (any interleaving)            *)
(*   calls  the other calls made while the document was built, in order:    *)
(*          CopyrightDoc!EditRec records (i = index into ops, 0 = header)   *)
(*          with raised = the call raised an exception, exc = its class.    *)
(*          The document the code holds is ApplyCalls(hdr + ops, calls): a  *)
(*          call the specification says is REJECTED (Rejects) must have     *)
(*          raised and changes nothing; every other call must not raise.    *)
(*          acc = the call did not raise: for a call the format does not    *)
(*          settle (CopyrightDoc!MayReject: a value with a look-alike of     *)
(*          white space inside) BOTH outcomes are explained -- refused and  *)
(*          nothing changed, or carried out and the value is part of the    *)
(*          document that must survive the round trips.  kind "fault": the  *)
(*          caller's object failed during the call -- it raised, nothing    *)
(*          changed, and the steps after it are explained as usual          *)
(*   order  the paragraphs of the built object, as indexes into ops        *)
(*   dump   its dump() as abstract physical lines [f, x] (f = field name   *)
(*          of a field start, "" otherwise)                                *)
(*   load   [err, hdr, paras]: what Copyright(lines, strict=True) and the  *)
(*          getters of the paragraphs returned (err = exception name or    *)
(*          "none"); warn = number of warnings logged; same = the second   *)
(*          dump() equals the first                                        *)
(*   1 order = what AddPara gives for ops (start = "api")      DIAGNOSTIC  *)
(*   2 DumpDoc(document in the observed order) = dump          DIAGNOSTIC  *)
(*   3 Load(dump) = load  (the reader of the specification explains what   *)
(*     the code read from its own output)                      DIAGNOSTIC  *)
(*   4 RoundTrip: load = [err |-> "none", hdr, paragraphs in the observed  *)
(*     order], no warning                                                  *)
(*   5 Stable: same                                                        *)
(*   6 the re-parsed document was then changed by `edits` (calls as above,  *)
(*     accepted and rejected ones, add_*_paragraph; i = position in the     *)
(*     document; CopyrightDoc!ApplyCalls), dumped and                       *)
(*     strictly re-parsed: load2 = [err |-> "none", hdr, edited document], *)
(*     same2 = the dump of that re-parse equals the dump it was read from  *)
(*     (nothing of the first round trip may leak: CopyrightDoc's memo)     *)
(*   7 load3 = the FIRST dump parsed once more, after the first parse      *)
(*     result was edited: it still gives the unedited document             *)
(* <<"ACCEPTED", tid>> is printed for a trace that passes the non-         *)
(* diagnostic steps; diagnostic mismatches print <<"REJECT", tid, what>>   *)
(* (reported as spec drift) and the trace goes on.                         *)
(***************************************************************************)
EXTENDS CopyrightDoc, IOUtils, TLCExt

Traces == JsonDeserialize(IOEnv.TRACE_FILE)
Diag   == IOEnv.TRACE_DIAG = "1"

VARIABLES tid, l
tvars == <<vars, tid, l>>

Tr == Traces[tid]

TInit == /\ tid \in 1..Len(Traces)
         /\ l = 1
         /\ lst = <<>> /\ paras = <<>> /\ hist = <<>> /\ big = FALSE /\ hk = "trace" /\ ed = <<>> /\ rej = <<>>

Advance == /\ l' = l + 1
           /\ UNCHANGED <<vars, tid>>
           /\ (Diag => PrintT(<<"AT", tid, l>>))
Note(ok, what) == IF ok THEN TRUE ELSE PrintT(<<"REJECT", tid, what>>)

\* ---- codec traces
CEnc == /\ Tr.kind = "codec" /\ l = 1
        /\ Note(FormatLines(Tr.ls) = Tr.enc, "enc")
        /\ Advance
CDec == /\ Tr.kind = "codec" /\ l = 2
        /\ LET explained == /\ Tr.exc = "" /\ Tr.kept
                             /\ Tr.out = ParseLines(FormatLines(Tr.ls))
                             /\ Tr.out2 = Tr.out /\ Tr.out3 = Tr.out
                             \* the string variants format_multiline / parse_multiline on '\n'.join(ls)
                             /\ (StrDomain(Tr.ls) => (Tr.sout = Join(Tr.ls) /\ Tr.ssame))
           IN IF CodecDomain(Tr.ls) THEN explained ELSE Note(explained, "normal")
        /\ Advance
        /\ PrintT(<<"ACCEPTED", tid>>)

\* ---- document traces
\* the calls of the build phase apply to the paragraphs in call order (before `order` places them)
Doc1    == ApplyCalls(DocOf(Tr.hdr, Tr.ops), Tr.calls)
Ops     == Doc1.paras
Hdr1    == Doc1.hdr
Built   == [i \in 1..Len(Tr.order) |-> Ops[Tr.order[i]]]          \* the document the code holds
Doc2    == ApplyCalls(DocOf(Hdr1, Built), Tr.edits)               \* ... after the edits of the re-parsed document
ApiOrder == LET ps == Build([i \in 1..Len(Ops) |-> [Ops[i] EXCEPT !.lic = Lic(EmptyLn, <<i>>)]])
            IN [i \in 1..Len(ps) |-> ps[i].lic.text[1]]           \* (paragraphs tagged with their index)
\* every call raised exactly when the specification says it is rejected (judged in the state it was made in)
CallsFold(D, cs) == FoldLeft(LAMBDA acc, c : [d   |-> ApplyCall(acc.d, c),
                                             ok  |-> acc.ok /\ (c.raised = Rejects(acc.d, c)),
                                             cls |-> acc.cls /\ (Rejects(acc.d, c) => c.exc = RejectExc(acc.d, c)),
                                             \* a refused call that was carried out: the document then holds a
                                             \* value outside the domain (the harness takes the trace as unspecified)
                                             \* (but a fault of the caller's object that was swallowed is a violation)
                                             un  |-> acc.un \/ (Rejects(acc.d, c) /\ ~c.raised /\ c.kind # "fault")],
                             [d |-> D, ok |-> TRUE, cls |-> TRUE, un |-> FALSE], cs)

\* (a header read from the deprecated field name Format-Specification has its Format field re-added last)
ExpectedDump == LET hf == HeaderFields(Hdr1)
                IN DumpFields(IF Tr.fmtlast THEN Tail(hf) \o <<hf[1]>> ELSE hf)
                   \o Flat([i \in 1..Len(Built) |-> <<SepLn>> \o DumpFields(ParaFields(Built[i]))])

DBuild == /\ Tr.kind = "doc" /\ l = 1
          /\ Note(Tr.order = (IF Tr.start = "api" THEN ApiOrder ELSE [i \in 1..Len(Ops) |-> i]), "order")
          /\ Note(CallsFold(DocOf(Tr.hdr, Tr.ops), Tr.calls).cls /\ CallsFold(DocOf(Hdr1, Built), Tr.edits).cls, "exception class")
          /\ Note(~CallsFold(DocOf(Tr.hdr, Tr.ops), Tr.calls).un /\ ~CallsFold(DocOf(Hdr1, Built), Tr.edits).un, "refused call carried out")
          /\ Advance
DDump  == /\ Tr.kind = "doc" /\ l = 2
          /\ Note([i \in 1..Len(Tr.dump) |->
                     IF Tr.dump[i].f = "" THEN RLine(Tr.dump[i].x) ELSE FLine(Tr.dump[i].f, Tr.dump[i].x)]
                  = ExpectedDump, "dump")
          /\ Advance
DLoad  == /\ Tr.kind = "doc" /\ l = 3
          /\ Note(Load([i \in 1..Len(Tr.dump) |->
                     IF Tr.dump[i].f = "" THEN RLine(Tr.dump[i].x) ELSE FLine(Tr.dump[i].f, Tr.dump[i].x)])
                  = Tr.load, "load")
          /\ Advance
DRound == /\ Tr.kind = "doc" /\ l = 4
          /\ Tr.warn = 0
          /\ CallsFold(DocOf(Tr.hdr, Tr.ops), Tr.calls).ok
          /\ RoundTripOf(Hdr1, Built, Tr.load)
          /\ Advance
DSame  == /\ Tr.kind = "doc" /\ l = 5
          /\ Tr.same
          /\ Advance
DEdit  == /\ Tr.kind = "doc" /\ l = 6
          /\ CallsFold(DocOf(Hdr1, Built), Tr.edits).ok
          /\ RoundTripOf(Doc2.hdr, Doc2.paras, Tr.load2)
          /\ Tr.same2
          /\ Advance
DAgain == /\ Tr.kind = "doc" /\ l = 7
          /\ RoundTripOf(Hdr1, Built, Tr.load3)
          /\ Advance
          /\ PrintT(<<"ACCEPTED", tid>>)

\* ---- rejected inputs: every input form of Copyright() must raise what Load predicts for the text
\*      [dump, err]: abstract physical lines, name of the exception raised ("none" when accepted)
RLoad == /\ Tr.kind = "reject" /\ l = 1
         /\ Load([i \in 1..Len(Tr.dump) |->
                    IF Tr.dump[i].f = "" THEN RLine(Tr.dump[i].x) ELSE FLine(Tr.dump[i].f, Tr.dump[i].x)]).err = Tr.err
         /\ Advance
         /\ PrintT(<<"ACCEPTED", tid>>)

TNext == RLoad \/ CEnc \/ CDec \/ DBuild \/ DDump \/ DLoad \/ DRound \/ DSame \/ DEdit \/ DAgain
TSpec == TInit /\ [][TNext]_tvars
=============================================================================
