CONSTANTS
  MtMode = "hist"
  MtDefects = {"writeback"}
  MtEmit = "none"
SPECIFICATION MtSpec
INVARIANT MtTypeOK
INVARIANT ResultIsCurrent
CHECK_DEADLOCK FALSE
