------------------------------ MODULE UtilCont ------------------------------
(***************************************************************************)
(* X15 (extra) -- the generic containers of debian._util used directly:    *)
(* LinkedListNode, LinkedList, OrderedSet, _CaseInsensitiveString and      *)
(* default_field_sort_key.                                                 *)
(*                                                                         *)
(* STATEMENT.  Nodes form CHAINS (doubly linked sequences); a LinkedList   *)
(* owns one chain.  After every history of public calls, including calls   *)
(* that raise, each list is one sequence of distinct nodes: walking        *)
(* next_node from head_node gives the sequence, walking previous_node from *)
(* tail_node gives its reverse, len() is its length, bool() tells whether  *)
(* it is non-empty, every node's previous_node / next_node are its         *)
(* neighbours in the sequence (None at the ends), and no node belongs to   *)
(* two chains.  A refused call (IndexError / ValueError / KeyError /       *)
(* TypeError / assertion) changes nothing; an iterable that raises in the  *)
(* middle of extend() leaves the items delivered so far appended (or       *)
(* nothing: both outcomes are accepted, see `alt` in UtilContMC).  A node  *)
(* taken out of a chain (remove_node, pop, node.remove) is detached: both  *)
(* its links are None and no chain reaches it.  An iteration (iter_nodes,  *)
(* iter / reversed of a list, node.iter_next / iter_previous) is a CURSOR  *)
(* on the node it yielded last: the next step yields the neighbour that    *)
(* node has at that time, so removing any OTHER node, inserting anywhere   *)
(* and assigning values during the iteration are safe.  copy, deepcopy,    *)
(* every pickle protocol and __getstate__ / __setstate__ give a list (set) *)
(* with equal values (items) in the same order that shares no node with    *)
(* the original.  An OrderedSet is a sequence of pairwise different items  *)
(* (different = dict-key different) in order of first insertion with the   *)
(* first spelling kept; order_first/last/before/after move one item.  A    *)
(* _CaseInsensitiveString compares equal to every str with the same        *)
(* lower() and hashes like its lower(), str() gives back the original      *)
(* spelling, lower() / default_field_sort_key the lower-case str.          *)
(*                                                                         *)
(* DOMAIN (everything else is unspecified and never generated).  The node  *)
(* level mutators (node.remove, node.insert_before / insert_after, link_   *)
(* nodes) are used on FREE chains only (not owned by a list; "we trade     *)
(* encapsulation ... assume well-behaved calls"); link_nodes(p, q) joins   *)
(* the last node p of one free chain to the first node q of another (None  *)
(* for either is a no-op); the node handed to remove_node / insert_* as    *)
(* existing node belongs to that list (or the list is empty: refused);     *)
(* a new node handed to node.insert_* is detached.  The return value of    *)
(* pop() is not specified.  After the node an iteration stands on has      *)
(* been taken out, or its list has been cleared / re-initialised, the      *)
(* iteration is void (never resumed); the nodes a list held when it was    *)
(* cleared are not used any more.  Iteration of an OrderedSet during       *)
(* mutation is not specified, nor is order_before / order_after of an      *)
(* ABSENT item relative to itself (ValueError or KeyError).  Plain str     *)
(* that are not lower-case are not mixed with _CaseInsensitiveString in    *)
(* one set / dict; hash() is only specified to agree where two objects     *)
(* are the same dict key.                                                  *)
(*                                                                         *)
(* MODEL.  One record `st`:                                                *)
(*   lst[l]  the node sequence of list l (node ids are positive integers)  *)
(*   ch      the set of free chains (non-empty sequences; <<x>> = node x   *)
(*           is detached)                                                  *)
(*   val[x]  the value of node x ("-" = no such node)                      *)
(*   its[i]  iterator i: [k |-> kind, cur |-> node yielded last, on]       *)
(*           kinds fn / bn (nodes forward / backward), fv / bv (values)    *)
(*   os[s]   the item sequence of ordered set s; an item is [n, s, k]:     *)
(*           n = lower-case class (a rank), s = spelling, k = "I" (a       *)
(*           _CaseInsensitiveString), "P" (plain hashable), "U" a key that *)
(*           cannot be hashed: s = "C" unhashable (TypeError), "B1" / "B2" *)
(*           a caller-supplied key whose __hash__ raises the caller's      *)
(*           exception at its first / second call (notes/SIZE_STRESS.md    *)
(*           part 5; B2 passes the membership test of add() and fails in   *)
(*           the table assignment: the roll-back path of OrderedSet.add)   *)
(* and ONE pure operator UCall(st, fl, c) = [st |-> state after, r |->     *)
(* result] with one branch per public call (c.op).  It serves the closed   *)
(* model (UtilContMC), the emission of EDGE lines that the harness replays *)
(* into the real classes, and the validation of recorded histories         *)
(* (TraceUtilCont).  Fresh node ids are part of the call (c.f): the model  *)
(* checker takes the smallest free ids, a recorded history names the ids   *)
(* the recorder gave to the objects the code returned.                     *)
(*                                                                         *)
(* Defect switches fl (all FALSE = the statement):                         *)
(*   sole    insert_node_before / insert_node_after accept a new node that *)
(*           is the only node of a list (AS BUILT: "already inserted" is   *)
(*           decided from the node's links only); result "corrupt"         *)
(*   empick  an EMPTY list / set pickled with protocol 0 or 1 comes back   *)
(*           as an object whose attributes were never set (AS BUILT:       *)
(*           __getstate__ returns a falsy [], copyreg drops it and         *)
(*           __setstate__ is never called); result "broken"                *)
(* Both are findings on the pinned tree (KNOWN in harness/props/x15.py):   *)
(* every EDGE line carries the statement's outcome and the as-built one.   *)
(***************************************************************************)
EXTENDS Naturals, Sequences, FiniteSets, SequencesExt, TLC, Json

\* ---- results
R(t, x)   == [t |-> t, x |-> x]
ROk       == R("ok", 0)
Err(k)    == R("err", k)
RNode(x)  == R("node", x)              \* 0 = None
RVal(v)   == R("val", v)               \* "none" = None
RBool(b)  == R("bool", IF b THEN 1 ELSE 0)
RStop     == R("stop", 0)
REq(r1, r2) == r1.t = r2.t /\ r1.x = r2.x
Out(st, r) == [st |-> st, r |-> r]

NoV    == "-"
NoneV  == "none"
NoItem == [n |-> 0, s |-> "", k |-> ""]
ItOff  == [k |-> "", cur |-> 0, on |-> FALSE]

Flags(sole, empick) == [sole |-> sole, empick |-> empick]
StmtFlags  == Flags(FALSE, FALSE)
BuiltFlags == Flags(TRUE, TRUE)

\* a call: every field is always present
NoCall == [op |-> "-", l |-> 0, m |-> 0, x |-> 0, y |-> 0, v |-> "", vs |-> <<>>, f |-> <<>>,
           i |-> 0, k |-> "", a |-> NoItem, b |-> NoItem, as |-> <<>>]

EmptyState(nl, ns, nn, ni) ==
    [lst |-> [l \in 1..nl |-> <<>>], ch |-> {}, val |-> [x \in 1..nn |-> NoV],
     its |-> [i \in 1..ni |-> ItOff], os |-> [s \in 1..ns |-> <<>>]]

----------------------------------------------------------------------------
\* ---- sequences of nodes
First0(s)     == IF s = <<>> THEN 0 ELSE s[1]
Last0(s)      == IF s = <<>> THEN 0 ELSE s[Len(s)]
PosIn(s, x)   == CHOOSE i \in 1..Len(s) : s[i] = x
PrevIn(s, x)  == LET i == PosIn(s, x) IN IF i = 1 THEN 0 ELSE s[i - 1]
NextIn(s, x)  == LET i == PosIn(s, x) IN IF i = Len(s) THEN 0 ELSE s[i + 1]
Without(s, x) == SelectSeq(s, LAMBDA z : z # x)
InsAt(s, i, x) == SubSeq(s, 1, i - 1) \o <<x>> \o SubSeq(s, i, Len(s))     \* x becomes element i
NoDup(s)      == Cardinality(ToSet(s)) = Len(s)

Lists(st)      == DOMAIN st.lst
AllChains(st)  == {st.lst[l] : l \in Lists(st)} \cup st.ch
Live(st)       == UNION {ToSet(s) : s \in AllChains(st)}
OwnerOf(st, x) == IF \E l \in Lists(st) : x \in ToSet(st.lst[l])
                  THEN CHOOSE l \in Lists(st) : x \in ToSet(st.lst[l]) ELSE 0
FreeChain(st, x) == CHOOSE s \in st.ch : x \in ToSet(s)
ChainOf(st, x) == IF OwnerOf(st, x) # 0 THEN st.lst[OwnerOf(st, x)] ELSE FreeChain(st, x)
IsFree(st, x)  == x \in Live(st) /\ OwnerOf(st, x) = 0
Detached(st, x) == <<x>> \in st.ch

\* values: ids beyond the table extend it (recorded histories number nodes 1, 2, 3 ...)
SetV(val, x, v) == IF x <= Len(val) THEN [val EXCEPT ![x] = v] ELSE Append(val, v)
SetVs(val, f, vs) == FoldLeft(LAMBDA acc, i : SetV(acc, f[i], vs[i]), val, [i \in 1..Len(f) |-> i])
ValsOf(st, s)  == [i \in 1..Len(s) |-> st.val[s[i]]]
FreshOK(st, f, n) == LET live == Live(st) IN
                     /\ Len(f) = n /\ NoDup(f)
                     /\ \A i \in 1..Len(f) : f[i] >= 1 /\ f[i] \notin live
                     /\ (\A i \in 1..Len(f) : f[i] <= Len(st.val)) \/ (\A i \in 1..Len(f) : f[i] = Len(st.val) + i)

\* iterators standing on one of the nodes X are void from now on
VoidIts(its, X) == [i \in DOMAIN its |-> IF its[i].on /\ its[i].cur \in X THEN ItOff ELSE its[i]]

\* ---- what must be observable on the real objects in state st
ListShape(st, l) == LET s == st.lst[l] IN
    [fwd |-> s, bwd |-> Reverse(s), size |-> Len(s), head |-> First0(s), tail |-> Last0(s),
     truth |-> IF s = <<>> THEN 0 ELSE 1]
Links(st) == UNION {{<<s[i], IF i = 1 THEN 0 ELSE s[i - 1], IF i = Len(s) THEN 0 ELSE s[i + 1]>> : i \in 1..Len(s)}
                    : s \in AllChains(st)}
Shape(st) == [lists |-> [l \in Lists(st) |-> ListShape(st, l)], links |-> Links(st),
              sets  |-> [s \in DOMAIN st.os |-> [fwd |-> st.os[s], rev |-> Reverse(st.os[s]), len |-> Len(st.os[s])]]]

----------------------------------------------------------------------------
\* ---- strings and items: [n, s, k]
SEq(a, b)   == IF a.k = "I" \/ b.k = "I" THEN a.k # "U" /\ b.k # "U" /\ a.n = b.n
               ELSE a.n = b.n /\ a.s = b.s /\ a.k = b.k
HashC(a)    == IF a.k = "I" THEN <<a.n, "L">> ELSE <<a.n, a.s>>
Match(a, b) == HashC(a) = HashC(b) /\ SEq(a, b)                \* the same dict key
SLower(a)   == [n |-> a.n, s |-> "L", k |-> "P"]
SStr(a)     == [n |-> a.n, s |-> a.s, k |-> "P"]
\* stable sort by lower-case class
SortByKey(q) == LET ns == {q[i].n : i \in 1..Len(q)}
                    order == SetToSortSeq(ns, LAMBDA u, w : u < w)
                IN FoldLeft(LAMBDA acc, n : acc \o SelectSeq(q, LAMBDA it : it.n = n), <<>>, order)

\* keys that cannot be hashed: the error they cause, and whether already the first hash() fails
UErr(a)     == [t |-> "err", x |-> IF a.s = "C" THEN "TypeError" ELSE "Boom"]
Fails1(a)   == a.k = "U" /\ a.s # "B2"
OHas(q, a)  == \E i \in 1..Len(q) : Match(q[i], a)
OIdx(q, a)  == CHOOSE i \in 1..Len(q) : Match(q[i], a)
ORm(q, a)   == SelectSeq(q, LAMBDA it : ~Match(it, a))
OUnique(q)  == \A i, j \in 1..Len(q) : Match(q[i], q[j]) => i = j
\* add() one after the other; stops at the first item that cannot be hashed: [q |-> items so far, ok, e |-> that item]
OAddAll(q, as) == FoldLeft(LAMBDA acc, it : IF ~acc.ok THEN acc
                                            ELSE IF it.k = "U" THEN [q |-> acc.q, ok |-> FALSE, e |-> it]
                                            ELSE IF OHas(acc.q, it) THEN acc
                                            ELSE [q |-> Append(acc.q, it), ok |-> TRUE, e |-> acc.e],
                           [q |-> q, ok |-> TRUE, e |-> NoItem], as)

----------------------------------------------------------------------------
\* ---- node level
UNode(st, c) == LET y == c.f[1] IN
    Out([st EXCEPT !.ch = @ \cup {<<y>>}, !.val = SetV(@, y, c.v)], RNode(y))
UDrop(st, c) == Out([st EXCEPT !.ch = @ \ {<<c.x>>}, !.val = SetV(@, c.x, NoV)], ROk)
UNRemove(st, c) == LET s == FreeChain(st, c.x)
                       rest == Without(s, c.x)
                   IN Out([st EXCEPT !.ch = (@ \ {s}) \cup {<<c.x>>} \cup (IF rest = <<>> THEN {} ELSE {rest}),
                                     !.its = VoidIts(@, {c.x})], RVal(st.val[c.x]))
UNWalk(st, c) == LET s == ChainOf(st, c.x)
                     p == PosIn(s, c.x)
                 IN Out(st, R("nodes", CASE c.k = "n"  -> SubSeq(s, p, Len(s))
                                         [] c.k = "ns" -> SubSeq(s, p + 1, Len(s))
                                         [] c.k = "p"  -> Reverse(SubSeq(s, 1, p))
                                         [] c.k = "ps" -> Reverse(SubSeq(s, 1, p - 1))))
ULinkOK(st, c) == /\ c.x = 0 \/ (IsFree(st, c.x) /\ Last0(FreeChain(st, c.x)) = c.x)
                  /\ c.y = 0 \/ (IsFree(st, c.y) /\ First0(FreeChain(st, c.y)) = c.y)
                  /\ (c.x # 0 /\ c.y # 0) => FreeChain(st, c.x) # FreeChain(st, c.y)
UNLink(st, c) == IF c.x = 0 \/ c.y = 0 THEN Out(st, ROk)
                 ELSE LET s == FreeChain(st, c.x) t == FreeChain(st, c.y) IN
                      Out([st EXCEPT !.ch = (@ \ {s, t}) \cup {s \o t}], ROk)
\* x.insert_before(y) / x.insert_after(y) on a free chain
UNInsOK(st, c) == /\ IsFree(st, c.x)
                  /\ \/ c.y = c.x \/ Detached(st, c.y)
                     \/ (c.op = "ninsbefore" /\ c.y # 0 /\ c.y = PrevIn(FreeChain(st, c.x), c.x))
                     \/ (c.op = "ninsafter" /\ c.y # 0 /\ c.y = NextIn(FreeChain(st, c.x), c.x))
UNIns(st, c) == LET s == FreeChain(st, c.x)
                    p == PosIn(s, c.x) + (IF c.op = "ninsafter" THEN 1 ELSE 0)
                IN IF ~Detached(st, c.y) \/ c.y = c.x THEN Out(st, Err("Refused"))
                   ELSE Out([st EXCEPT !.ch = (@ \ {s, <<c.y>>}) \cup {InsAt(s, p, c.y)}], ROk)

\* ---- list level
UDetach(st, l, x) == [st EXCEPT !.lst[l] = Without(@, x), !.ch = @ \cup {<<x>>}, !.its = VoidIts(@, {x})]
UNewOK(st, l)   == (l \in Lists(st) /\ st.lst[l] = <<>>) \/ l = Len(st.lst) + 1
PutList(st, l, s) == IF l \in Lists(st) THEN [st EXCEPT !.lst[l] = s] ELSE [st EXCEPT !.lst = Append(@, s)]
\* LinkedList(values); c.k = "boom": the iterable raises after delivering c.vs -- no object comes into being
ULNew(st, c)    == IF c.k = "boom" THEN Out(st, Err("Boom"))
                   ELSE Out([PutList(st, c.l, c.f) EXCEPT !.val = SetVs(@, c.f, c.vs)], ROk)
ULPop(st, c)    == LET s == st.lst[c.l] IN
                   IF s = <<>> THEN Out(st, Err("IndexError")) ELSE Out(UDetach(st, c.l, s[Len(s)]), ROk)
ULRemoveOK(st, c) == st.lst[c.l] = <<>> \/ c.x \in ToSet(st.lst[c.l])
ULRemove(st, c) == IF st.lst[c.l] = <<>> THEN Out(st, Err("Refused")) ELSE Out(UDetach(st, c.l, c.x), ROk)
ULPush(st, c)   == LET y == c.f[1] IN
                   Out([st EXCEPT !.lst[c.l] = IF c.op = "lathead" THEN <<y>> \o @ ELSE Append(@, y),
                                  !.val = SetV(@, y, c.v)], RNode(y))
ULInsOK(st, c)  == st.lst[c.l] = <<>> \/ c.x \in ToSet(st.lst[c.l])
After(c)        == IF c.op \in {"linsafter", "linsnodeafter"} THEN 1 ELSE 0
ULIns(st, c)    == LET s == st.lst[c.l] y == c.f[1] IN
                   IF s = <<>> THEN Out(st, Err("ValueError"))
                   ELSE Out([st EXCEPT !.lst[c.l] = InsAt(s, PosIn(s, c.x) + After(c), y), !.val = SetV(@, y, c.v)], RNode(y))
ULInsNode(st, fl, c) ==
    LET s == st.lst[c.l] IN
    IF s = <<>> THEN Out(st, Err("ValueError"))
    ELSE IF Len(ChainOf(st, c.y)) >= 2 THEN Out(st, Err("ValueError"))
    ELSE IF c.y = c.x THEN Out(st, Err("Refused"))
    ELSE IF OwnerOf(st, c.y) # 0 THEN (IF fl.sole THEN Out(st, R("corrupt", c.y)) ELSE Out(st, Err("ValueError")))
    ELSE Out([st EXCEPT !.lst[c.l] = InsAt(s, PosIn(s, c.x) + After(c), c.y), !.ch = @ \ {<<c.y>>}], RNode(c.y))
\* extend(values): c.k = "boom" -- the iterable raises after delivering all of c.vs
ULExtend(st, c) == Out([st EXCEPT !.lst[c.l] = @ \o c.f, !.val = SetVs(@, c.f, c.vs)],
                       IF c.k = "boom" THEN Err("Boom") ELSE ROk)
\* clear(): the list is empty afterwards; what becomes of the nodes it held is not specified (they are forgotten)
UClearL(st, l)  == LET s == st.lst[l] IN
                   [st EXCEPT !.lst[l] = <<>>, !.its = VoidIts(@, ToSet(s)),
                              !.val = [x \in DOMAIN @ |-> IF x \in ToSet(s) THEN NoV ELSE @[x]]]
ULSetState(st, c) == Out([UClearL(st, c.l) EXCEPT !.lst[c.l] = c.f, !.val = SetVs(@, c.f, c.vs)], ROk)
\* a copy (c.k: copy deepcopy pickle0..pickle5 state) of list l as list m
UCopyOK(st, c)  == c.m # c.l /\ UNewOK(st, c.m)
ULCopy(st, fl, c) == IF fl.empick /\ c.k \in {"pickle0", "pickle1"} /\ st.lst[c.l] = <<>> THEN Out(st, R("broken", 0))
                     ELSE Out([PutList(st, c.m, c.f) EXCEPT !.val = SetVs(@, c.f, ValsOf(st, st.lst[c.l]))], ROk)

\* ---- iterators (cursor semantics)
Fwd(k)     == k \in {"fn", "fv"}
Yield(st, k, x) == IF k \in {"fn", "bn"} THEN RNode(x) ELSE RVal(st.val[x])
ItKind(k)  == CASE k = "ln" -> "fn" [] k = "lv" -> "fv" [] k = "lr" -> "bv"
                [] k \in {"nn", "nns"} -> "fn" [] k \in {"np", "nps"} -> "bn"
ItStart(st, c) == CASE c.k \in {"ln", "lv"} -> First0(st.lst[c.l])
                    [] c.k = "lr"  -> Last0(st.lst[c.l])
                    [] c.k \in {"nn", "np"} -> c.x
                    [] c.k = "nns" -> NextIn(ChainOf(st, c.x), c.x)
                    [] c.k = "nps" -> PrevIn(ChainOf(st, c.x), c.x)
PutIt(st, i, it) == IF i \in DOMAIN st.its THEN [st EXCEPT !.its[i] = it] ELSE [st EXCEPT !.its = Append(@, it)]
UItOpen(st, c) == LET x == ItStart(st, c) k == ItKind(c.k) IN
                  IF x = 0 THEN Out(PutIt(st, c.i, ItOff), RStop)
                  ELSE Out(PutIt(st, c.i, [k |-> k, cur |-> x, on |-> TRUE]), Yield(st, k, x))
UItNext(st, c) == LET it == st.its[c.i]
                      s  == ChainOf(st, it.cur)
                      x  == IF Fwd(it.k) THEN NextIn(s, it.cur) ELSE PrevIn(s, it.cur)
                  IN IF x = 0 THEN Out([st EXCEPT !.its[c.i] = ItOff], RStop)
                     ELSE Out([st EXCEPT !.its[c.i].cur = x], Yield(st, it.k, x))

\* ---- ordered sets
Sets(st)        == DOMAIN st.os
UONewOK(st, s)  == (s \in Sets(st) /\ st.os[s] = <<>>) \/ s = Len(st.os) + 1
PutSet(st, s, q) == IF s \in Sets(st) THEN [st EXCEPT !.os[s] = q] ELSE [st EXCEPT !.os = Append(@, q)]
\* OrderedSet(iterable) / extend(iterable); c.k = "boom": the iterable raises after delivering c.as
UONew(st, c)    == LET o == OAddAll(<<>>, c.as) IN
                   IF ~o.ok THEN Out(st, UErr(o.e))
                   ELSE IF c.k = "boom" THEN Out(st, Err("Boom"))
                   ELSE Out(PutSet(st, c.l, o.q), ROk)
UOAdd(st, c)    == LET q == st.os[c.l] IN
                   IF c.a.k = "U" THEN Out(st, UErr(c.a))
                   ELSE IF OHas(q, c.a) THEN Out(st, ROk) ELSE Out([st EXCEPT !.os[c.l] = Append(q, c.a)], ROk)
UORemove(st, c) == LET q == st.os[c.l] IN
                   IF Fails1(c.a) THEN Out(st, UErr(c.a))
                   ELSE IF ~OHas(q, c.a) THEN Out(st, Err("KeyError")) ELSE Out([st EXCEPT !.os[c.l] = ORm(q, c.a)], ROk)
UOExtend(st, c) == LET o == OAddAll(st.os[c.l], c.as) IN
                   Out([st EXCEPT !.os[c.l] = o.q], IF ~o.ok THEN UErr(o.e) ELSE IF c.k = "boom" THEN Err("Boom") ELSE ROk)
UOHas(st, c)    == IF Fails1(c.a) THEN Out(st, UErr(c.a)) ELSE Out(st, RBool(OHas(st.os[c.l], c.a)))
UOEnd(st, c)    == LET q == st.os[c.l] IN
                   IF Fails1(c.a) THEN Out(st, UErr(c.a))
                   ELSE IF ~OHas(q, c.a) THEN Out(st, Err("KeyError"))
                   ELSE LET it == q[OIdx(q, c.a)] r == ORm(q, c.a) IN
                        Out([st EXCEPT !.os[c.l] = IF c.op = "ofirst" THEN <<it>> \o r ELSE Append(r, it)], ROk)
UORel(st, c)    == LET q == st.os[c.l] IN
                   IF SEq(c.a, c.b) THEN Out(st, Err("ValueError"))
                   ELSE IF Fails1(c.b) THEN Out(st, UErr(c.b))
                   ELSE IF ~OHas(q, c.b) THEN Out(st, Err("KeyError"))
                   ELSE IF Fails1(c.a) THEN Out(st, UErr(c.a))
                   ELSE IF ~OHas(q, c.a) THEN Out(st, Err("KeyError"))
                   ELSE LET it == q[OIdx(q, c.a)]
                            r  == ORm(q, c.a)
                            p  == OIdx(r, c.b) + (IF c.op = "oafter" THEN 1 ELSE 0)
                        IN Out([st EXCEPT !.os[c.l] = InsAt(r, p, it)], ROk)
\* a copy (c.k as for lists) of set c.l: the result is the item sequence of the new set; the state does not change
\* (the harness mutates the copy afterwards: the original must stay as it is)
UOCopy(st, fl, c) == IF fl.empick /\ c.k \in {"pickle0", "pickle1"} /\ st.os[c.l] = <<>> THEN Out(st, R("broken", 0))
                     ELSE Out(st, R("items", st.os[c.l]))
UOSetState(st, c) == Out([st EXCEPT !.os[c.l] = OAddAll(<<>>, c.as).q], ROk)

----------------------------------------------------------------------------
\* the domain of the statement: calls outside it are never generated / never recorded
InDomain(st, c) ==
    CASE c.op = "node"      -> FreshOK(st, c.f, 1)
      [] c.op = "drop"      -> Detached(st, c.x) /\ \A i \in DOMAIN st.its : ~(st.its[i].on /\ st.its[i].cur = c.x)
      [] c.op \in {"nvalue", "nsetvalue", "nprev", "nnext", "nwalk"} -> c.x \in Live(st)
      [] c.op = "nremove"   -> IsFree(st, c.x)
      [] c.op = "nlink"     -> ULinkOK(st, c)
      [] c.op \in {"ninsbefore", "ninsafter"} -> UNInsOK(st, c)
      [] c.op = "lnew"      -> UNewOK(st, c.l) /\ FreshOK(st, c.f, Len(c.vs))        \* (c.k = "boom": the ids stay unused)
      [] c.op \in {"lbool", "llen", "lhead", "ltailnode", "ltail", "lnodes", "lvalues", "lrev", "lgetstate",
                   "lpop", "lclear"} -> c.l \in Lists(st)
      [] c.op = "lremove"   -> c.l \in Lists(st) /\ c.x \in Live(st) /\ ULRemoveOK(st, c)
      [] c.op \in {"lathead", "lappend"} -> c.l \in Lists(st) /\ FreshOK(st, c.f, 1)
      [] c.op \in {"linsbefore", "linsafter"} -> c.l \in Lists(st) /\ c.x \in Live(st) /\ ULInsOK(st, c) /\ FreshOK(st, c.f, 1)
      [] c.op \in {"linsnodebefore", "linsnodeafter"} ->
             c.l \in Lists(st) /\ c.x \in Live(st) /\ c.y \in Live(st) /\ ULInsOK(st, c)
      [] c.op \in {"lextend", "lsetstate"} -> c.l \in Lists(st) /\ FreshOK(st, c.f, Len(c.vs))
      [] c.op = "lcopy"     -> c.l \in Lists(st) /\ UCopyOK(st, c) /\ FreshOK(st, c.f, Len(st.lst[c.l]))
      [] c.op = "itopen"    -> /\ c.i \in 1..(Len(st.its) + 1)
                               /\ IF c.k \in {"ln", "lv", "lr"} THEN c.l \in Lists(st) ELSE c.x \in Live(st)
      [] c.op = "itnext"    -> c.i \in DOMAIN st.its /\ st.its[c.i].on
      [] c.op = "onew"      -> UONewOK(st, c.l)
      [] c.op \in {"oadd", "oappend", "oremove", "oextend", "ohas", "olen", "oiter", "orev", "ofirst", "olast",
                   "ogetstate", "ocopy"} -> c.l \in Sets(st)
      \* re-ordering an ABSENT item relative to itself is not specified (ValueError or KeyError)
      [] c.op \in {"obefore", "oafter"} -> c.l \in Sets(st) /\ (SEq(c.a, c.b) => OHas(st.os[c.l], c.a))
      [] c.op = "osetstate" -> c.l \in Sets(st) /\ \A j \in 1..Len(c.as) : c.as[j].k # "U"
      [] c.op \in {"seq", "sne", "shash", "slower", "sstr", "skey", "spickle", "dget", "dkeep", "sorted"} -> TRUE
      [] OTHER -> FALSE

UCall(st, fl, c) ==
    CASE c.op = "node"      -> UNode(st, c)
      [] c.op = "drop"      -> UDrop(st, c)
      [] c.op = "nvalue"    -> Out(st, RVal(st.val[c.x]))
      [] c.op = "nsetvalue" -> Out([st EXCEPT !.val[c.x] = c.v], ROk)
      [] c.op = "nprev"     -> Out(st, RNode(PrevIn(ChainOf(st, c.x), c.x)))
      [] c.op = "nnext"     -> Out(st, RNode(NextIn(ChainOf(st, c.x), c.x)))
      [] c.op = "nwalk"     -> UNWalk(st, c)
      [] c.op = "nremove"   -> UNRemove(st, c)
      [] c.op = "nlink"     -> UNLink(st, c)
      [] c.op \in {"ninsbefore", "ninsafter"} -> UNIns(st, c)
      [] c.op = "lnew"      -> ULNew(st, c)
      [] c.op = "lbool"     -> Out(st, RBool(st.lst[c.l] # <<>>))
      [] c.op = "llen"      -> Out(st, R("int", Len(st.lst[c.l])))
      [] c.op = "lhead"     -> Out(st, RNode(First0(st.lst[c.l])))
      [] c.op = "ltailnode" -> Out(st, RNode(Last0(st.lst[c.l])))
      [] c.op = "ltail"     -> Out(st, RVal(IF st.lst[c.l] = <<>> THEN NoneV ELSE st.val[Last0(st.lst[c.l])]))
      [] c.op = "lnodes"    -> Out(st, R("nodes", st.lst[c.l]))
      [] c.op \in {"lvalues", "lgetstate"} -> Out(st, R("vals", ValsOf(st, st.lst[c.l])))
      [] c.op = "lrev"      -> Out(st, R("vals", Reverse(ValsOf(st, st.lst[c.l]))))
      [] c.op = "lpop"      -> ULPop(st, c)
      [] c.op = "lremove"   -> ULRemove(st, c)
      [] c.op \in {"lathead", "lappend"} -> ULPush(st, c)
      [] c.op \in {"linsbefore", "linsafter"} -> ULIns(st, c)
      [] c.op \in {"linsnodebefore", "linsnodeafter"} -> ULInsNode(st, fl, c)
      [] c.op = "lextend"   -> ULExtend(st, c)
      [] c.op = "lclear"    -> Out(UClearL(st, c.l), ROk)
      [] c.op = "lsetstate" -> ULSetState(st, c)
      [] c.op = "lcopy"     -> ULCopy(st, fl, c)
      [] c.op = "itopen"    -> UItOpen(st, c)
      [] c.op = "itnext"    -> UItNext(st, c)
      [] c.op = "onew"      -> UONew(st, c)
      [] c.op \in {"oadd", "oappend"} -> UOAdd(st, c)
      [] c.op = "oremove"   -> UORemove(st, c)
      [] c.op = "oextend"   -> UOExtend(st, c)
      [] c.op = "ohas"      -> UOHas(st, c)
      [] c.op = "olen"      -> Out(st, R("int", Len(st.os[c.l])))
      [] c.op \in {"oiter", "ogetstate"} -> Out(st, R("items", st.os[c.l]))
      [] c.op = "orev"      -> Out(st, R("items", Reverse(st.os[c.l])))
      [] c.op \in {"ofirst", "olast"} -> UOEnd(st, c)
      [] c.op \in {"obefore", "oafter"} -> UORel(st, c)
      [] c.op = "ocopy"     -> UOCopy(st, fl, c)
      [] c.op = "osetstate" -> UOSetState(st, c)
      \* the string algebra (no state)
      [] c.op = "seq"       -> Out(st, RBool(SEq(c.a, c.b)))
      [] c.op = "sne"       -> Out(st, RBool(~SEq(c.a, c.b)))
      [] c.op = "shash"     -> Out(st, RBool(HashC(c.a) = HashC(c.b)))     \* 1: the hashes MUST agree; 0: not specified
      [] c.op \in {"slower", "skey"} -> Out(st, R("item", SLower(c.a)))
      [] c.op = "sstr"      -> Out(st, R("item", SStr(c.a)))
      [] c.op = "spickle"   -> Out(st, R("item", c.a))
      [] c.op = "dget"      -> Out(st, RBool(Match(c.a, c.b)))              \* {a: 1}.get(b) finds the entry
      [] c.op = "dkeep"     -> Out(st, R("items", IF Match(c.a, c.b) THEN <<c.a>> ELSE <<c.a, c.b>>))   \* d = {a: 1}; d[b] = 2; list(d)
      [] c.op = "sorted"    -> Out(st, R("items", SortByKey(c.as)))

Queries == {"nvalue", "nprev", "nnext", "nwalk", "lbool", "llen", "lhead", "ltailnode", "ltail", "lnodes", "lvalues",
            "lrev", "lgetstate", "olen", "oiter", "orev", "ohas", "ogetstate", "ocopy",
            "seq", "sne", "shash", "slower", "skey", "sstr", "spickle", "dget", "dkeep", "sorted"}
\* calls that are not atomic under an exception by design (the items delivered so far stay)
Piecewise == {"lextend", "oextend"}

----------------------------------------------------------------------------
\* ---- well-formedness of a state (an invariant of every behaviour)
StateOK(st) ==
    /\ \A s \in AllChains(st) : NoDup(s)
    /\ \A s \in st.ch : s # <<>>
    /\ \A s, t \in st.ch : s # t => ToSet(s) \cap ToSet(t) = {}
    /\ \A l \in Lists(st) : \A s \in st.ch : ToSet(st.lst[l]) \cap ToSet(s) = {}
    /\ \A l, m \in Lists(st) : l # m => ToSet(st.lst[l]) \cap ToSet(st.lst[m]) = {}
    /\ \A x \in Live(st) : x \in DOMAIN st.val /\ st.val[x] # NoV
    /\ \A i \in DOMAIN st.its : st.its[i].on => st.its[i].cur \in Live(st)
    /\ \A s \in Sets(st) : OUnique(st.os[s])
=============================================================================
