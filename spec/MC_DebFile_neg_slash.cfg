CONSTANTS
  Universe <- FullUniverse
  MaxLen = 3
  AnyOrder = FALSE
  InitMatrix = TRUE
  ScriptUniverse = {}
  FileNames = {"f1"}
  Blobs = {11}
  Decompressors = {"gz", "bz2", "xz", "lzma"}
  AcceptFirstCandidate = FALSE
  InfoOptional = FALSE
  NormalizeSlash = FALSE
  Emit = FALSE
  EmitProbe = FALSE
SPECIFICATION Spec
INVARIANT SpellingInvariant
PROPERTY QueriesPure
VIEW DView
CHECK_DEADLOCK FALSE
