CONSTANTS
  WsSeparates = TRUE
  NoText = 0
  TrimFirst = TRUE
  CommentEndsValue = FALSE
  LeadingBlankSkipped = TRUE
  ArmorHeadersSkipped = TRUE
  GpgMvLeadOK = TRUE
  Keys = {}
  MaxPara = 0
  MaxFields = 0
  MaxCont = 0
  MaxTotal = 0
  ShapeMode = 0
  ArmorHdrs = {}
  SigBools = {TRUE, FALSE}
  BigSel = {}
  ArmorMaxFields = 3
  Emit = TRUE
  MaxObjs = 3
  MaxIters = 2
  Kinds = {"heavy", "del"}
  SharedResults = FALSE
  SharedIterObject = FALSE
  FaultPos = {}
  FaultSharesStorage = FALSE
SPECIFICATION CSpec
INVARIANT ReturnedFresh
INVARIANT SameNamesDistinct
PROPERTY FreshIdentity
PROPERTY NoSpontaneousChange
PROPERTY FaultsChangeNothing
CHECK_DEADLOCK FALSE
