CONSTANTS
  Universe <- FullUniverse
  MaxLen = 15
  AnyOrder = FALSE
  InitMatrix = FALSE
  ScriptUniverse = {}
  FileNames = {}
  Blobs = {}
  Decompressors = {"gz", "bz2", "xz", "lzma"}
  AcceptFirstCandidate = FALSE
  InfoOptional = TRUE
  NormalizeSlash = TRUE
  Emit = FALSE
  EmitProbe = FALSE
SPECIFICATION Spec
INVARIANT AcceptIffWellFormed
PROPERTY QueriesPure
VIEW DView
CHECK_DEADLOCK FALSE
