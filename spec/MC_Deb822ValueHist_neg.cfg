\* C08 histories, negative controls: c08.py sets MemoMode = "value" / "keyvalue" or RejectStoresEmpty = TRUE
\* and requires HistoryFree violated
CONSTANTS
  Alphabet = {}
  MaxLen = 0
  LemmaLen = 0
  GpgLen = 0
  StrictDroppedInGpgClasses = FALSE
  PosStrictMissedByPrepass = FALSE
  ZoneWhatIf = FALSE
  Emit = FALSE
  NoIndentRule = FALSE
  AllowEndLF = FALSE
  ValidateLFOnly = FALSE
  ReaderNoWsRule = FALSE
  MemoMode = "none"
  RejectStoresEmpty = FALSE
  UseN = TRUE
  WithBuild = FALSE
  TrustSourceClass = FALSE
  ParseLeavesUnchecked = FALSE
  WithFault = TRUE
  DumpMemoPartial = FALSE
  UseExt = FALSE
  AppendFastPath = FALSE
  EmitH = FALSE
SPECIFICATION HSpec
VIEW HView
PROPERTY HistoryFree
INVARIANT HistSound
INVARIANT DumpWhole
CHECK_DEADLOCK FALSE
