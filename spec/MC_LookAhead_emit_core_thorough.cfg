CONSTANTS
  NC = 8
  Chunk = 5
  Classes = {0, 1}
  Scripts <- MCScripts
  ShortLen = 3
  LongLens = {6, 11}
  LongErr = TRUE
  ArgK = {0, 1, 2, 3, 5, 6, 7}
  Lims <- LimsSix
  Preds <- PredsThree
  MaxGens = 0
  Latch = TRUE
  UseClosed = FALSE
  Bug = "none"
  Emit = TRUE
SPECIFICATION ISpec
VIEW IView
