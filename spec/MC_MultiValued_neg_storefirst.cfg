\* C12 -- NEGATIVE CONTROL: a rejected size_field_behavior value is stored before it is validated; the next dump of a paragraph with a structured field raises: DumpTotal must be violated
CONSTANTS
  Tables <- DocTables
  Modes <- ModesNegStoreFirst
  IterateAllFields = FALSE
  SplitEverySpace = FALSE
  CacheWidths = FALSE
  SharedEqualRecords = FALSE
  ClassLevelOption = FALSE
  StoreBeforeValidate = TRUE
  ReorderStoresPlainKeys = FALSE
  RefusedUnlinksFirst = FALSE
  Emit = FALSE
  EmitOff = 0
SPECIFICATION Spec
INVARIANT DumpTotal
PROPERTY OtherIsOther
CHECK_DEADLOCK FALSE
