------------------------------- MODULE DebFile -------------------------------
(***************************************************************************)
(* C07 -- DebFile returns exactly what was packed and rejects malformed    *)
(* packages (debian/debfile.py on top of debian/arfile.py).                *)
(*                                                                         *)
(* A configuration is the SEQUENCE of ar member names of a package (mem)   *)
(* plus its abstract content pkg = [c, d, m]:                              *)
(*   c : control part,  file name -> blob id ("control", "md5sums" and a   *)
(*       subset of the five maintainer scripts),                           *)
(*   d : data part,     file name -> blob id,                              *)
(*   m : the md5sums list, file name -> sum id.                            *)
(* Names are opaque strings; the only string operation is concatenation    *)
(* (candidate names "control.tar" \o "." \o ext), so the same operators    *)
(* classify arbitrary member names in trace validation.  A path given to   *)
(* a query is a sequence of tokens: <<n>>, <<".", "/", n>>, <<"/", n>>;    *)
(* tar members are stored as <<".", "/", n>> like dpkg-deb does (D5).      *)
(*                                                                         *)
(* Two layers in one module:                                               *)
(*  * statement level: WellFormed(S) (has debian-binary, exactly one       *)
(*    control candidate, exactly one data candidate) and the packed maps;  *)
(*  * code level: DOpen transcribes DebFile.__init__ (set of names; check  *)
(*    order info, control, data; "missing" / "too many"; member ORDER      *)
(*    plays no role), DTgz transcribes DebPart.tgz (extension gate, lazy   *)
(*    decompression: a missing decompressor shows up as DebError on the    *)
(*    first query, not in Open), DNorm transcribes __normalize_member,     *)
(*    DHas / DGet / DScripts / DMd5 / DCtl the query methods.              *)
(*  `zst` is not in PART_EXTS of this tree: "control.tar.zst" is a foreign *)
(*  name.  Because a tree that learns zst stays within the statement, the  *)
(*  member lists whose verdict depends on it are flagged unspec in the     *)
(*  CASE lines (DUnspecOpen) -- executed, either outcome accepted.         *)
(*                                                                         *)
(* Configurations (all closed: explored to a fixed point):                 *)
(*  MC_DebFile_sets          all 2^15 subsets of the 15-name universe      *)
(*  MC_DebFile_sets_quick    all 2^13 subsets of the 13-name QuickUniverse *)
(*  MC_DebFile_orders(_quick) all injective member sequences of length     *)
(*                           <= 4 (<= 3) over the universe                 *)
(*  MC_DebFile_orders_mid    all injective sequences of length <= 5 over   *)
(*                           the 9-name MidUniverse                        *)
(*  MC_DebFile_content(_emit) one valid package x every content: 32 script *)
(*                           subsets x partial maps {f1,f2,f3} ({f1,f2})   *)
(*                           -> {11,12} x md5 subsets; PROBE lines         *)
(*  MC_DebFile_matrix        the 5 x 5 compression matrix x every content  *)
(*                           over one file name; PROBE lines               *)
(*  MC_DebFile_nodecomp      xz/lzma decompressor unavailable              *)
(* Invariants: AcceptIffWellFormed, PartsAreCandidates, OrderIrrelevant,   *)
(* SpellingInvariant, ContentExact, ExtGateDead, LazyDecompress; action    *)
(* property QueriesPure.                                                   *)
(*                                                                         *)
(* Negative controls tried (each makes TLC report the named invariant):    *)
(*  AcceptFirstCandidate = TRUE  (take the first of several candidates)    *)
(*      -> AcceptIffWellFormed violated by <<debian-binary, control.tar,   *)
(*         control.tar.gz, data.tar>> (MC_DebFile_neg_first.cfg)           *)
(*  InfoOptional = TRUE  (debian-binary not required)                      *)
(*      -> AcceptIffWellFormed violated (MC_DebFile_neg_info.cfg)          *)
(*  NormalizeSlash = FALSE  ("/n" not normalised)                          *)
(*      -> SpellingInvariant violated (MC_DebFile_neg_slash.cfg)           *)
(*                                                                         *)
(* Queries are stateless here; DebFileCache.tla adds the history layer      *)
(* (two open packages, explicit caches, mutation of returned dictionaries, *)
(* re-open of a rewritten path) and checks that every answer in every      *)
(* history equals the stateless one defined in this module.                *)
(*                                                                         *)
(* Output for the harness: one CASE line per evaluated Open (member list,  *)
(* expected verdict, chosen parts, unspec flag) when Emit; one PROBE line  *)
(* per accepted package (content + the complete table of expected query    *)
(* results) when EmitProbe.                                                *)
(***************************************************************************)
EXTENDS Naturals, Sequences, FiniteSets, TLC, Json

CONSTANTS Universe,              \* sequence of member names a configuration may use (its order = canonical order)
          MaxLen,                \* at most this many ar members
          AnyOrder,              \* TRUE: members appended in any order; FALSE: in Universe order only (= all subsets)
          InitMatrix,            \* TRUE: start from the 25 complete packages <<debian-binary, control.tar*, data.tar*>>
          ScriptUniverse,        \* maintainer scripts the content may contain (all subsets are explored)
          FileNames, Blobs,      \* data file names and blob ids (all partial maps are explored)
          Decompressors,         \* compression formats tarfile can open on this system
          AcceptFirstCandidate,  \* negative control
          InfoOptional,          \* negative control
          NormalizeSlash,        \* FALSE = negative control
          Emit, EmitProbe

VARIABLES mem,      \* sequence of ar member names
          dst,      \* "building" | "ok" | "DebError"
          pkg,      \* abstract content [c, d, m]
          prts,     \* [ctrl, data]: member names chosen by Open
          res       \* result of the last call (output only)

dvars == <<mem, dst, pkg, prts, res>>
DView == <<mem, dst, pkg, prts>>

InfoPart     == "debian-binary"
CtrlBase     == "control.tar"
DataBase     == "data.tar"
PartExtSet   == {"gz", "bz2", "xz", "lzma"}           \* PART_EXTS
MaintScripts == {"preinst", "postinst", "prerm", "postrm", "config"}
ControlFile  == "control"
Md5File      == "md5sums"
PartIds      == {"control", "data"}
Spellings    == {"plain", "dot", "slash"}

DRange(seq) == {seq[i] : i \in 1..Len(seq)}

\* values for the constant Universe (cfg files cannot write tuples: Universe <- FullUniverse)
FullUniverse == <<"debian-binary",
                  "control.tar", "control.tar.gz", "control.tar.bz2", "control.tar.xz", "control.tar.lzma",
                  "data.tar", "data.tar.gz", "data.tar.bz2", "data.tar.xz", "data.tar.lzma",
                  "_gpgorigin", "control.tar.zst", "data.tar.gz.bak", "control.tar.Z">>
\* quick tier: the same without two of the four foreign names (2^13 subsets)
QuickUniverse == <<"debian-binary",
                   "control.tar", "control.tar.gz", "control.tar.bz2", "control.tar.xz", "control.tar.lzma",
                   "data.tar", "data.tar.gz", "data.tar.bz2", "data.tar.xz", "data.tar.lzma",
                   "_gpgorigin", "control.tar.zst">>
OneUniverse  == <<"debian-binary", "control.tar.gz", "data.tar.xz">>
\* two candidates per part and the four foreign names: long member orders stay enumerable
MidUniverse  == <<"debian-binary", "control.tar", "control.tar.xz", "data.tar", "data.tar.gz",
                  "_gpgorigin", "control.tar.zst", "data.tar.gz.bak", "control.tar.Z">>

----------------------------------------------------------------------------
(* statement level *)
DCand(base, exts) == {base} \cup {base \o "." \o x : x \in exts}
\* candidate names of the two parts: [c |-> control candidates, d |-> data candidates]
\* (constant-level definitions: TLC evaluates them once)
Cands    == [c |-> DCand(CtrlBase, PartExtSet), d |-> DCand(DataBase, PartExtSet)]
CandsZst == [c |-> DCand(CtrlBase, PartExtSet \cup {"zst"}), d |-> DCand(DataBase, PartExtSet \cup {"zst"})]
ExactlyOne(S)     == \E x \in S : \A y \in S : y = x
WellFormed(S)     == /\ InfoPart \in S
                     /\ ExactlyOne(S \cap Cands.c)
                     /\ ExactlyOne(S \cap Cands.d)

----------------------------------------------------------------------------
(* code level: DebFile.__init__ *)
DFirstIn(seq, S) == seq[CHOOSE i \in 1..Len(seq) : seq[i] \in S /\ \A j \in 1..(i - 1) : seq[j] \notin S]

\* compressed_part_name(basename)
DPart(seq, cands) ==
    LET hits == DRange(seq) \cap cands IN
    IF hits = {} THEN [err |-> "missing", name |-> ""]
    ELSE IF Cardinality(hits) > 1 /\ ~AcceptFirstCandidate THEN [err |-> "toomany", name |-> ""]
    ELSE [err |-> "", name |-> DFirstIn(seq, hits)]

DOpen(seq, cs) ==
    LET cp == DPart(seq, cs.c)      \* compressed_part_name(CTRL_PART)
        dp == DPart(seq, cs.d)      \* compressed_part_name(DATA_PART)
        bad(w) == [st |-> "DebError", why |-> w, ctrl |-> "", data |-> ""]
    IN IF InfoPart \notin DRange(seq) /\ ~InfoOptional THEN bad("no-info")
       ELSE IF cp.err # "" THEN bad(cp.err \o "-control")
       ELSE IF dp.err # "" THEN bad(dp.err \o "-data")
       ELSE [st |-> "ok", why |-> "", ctrl |-> cp.name, data |-> dp.name]

\* the verdict would change in a tree that treats zst like the other four extensions
DUnspecOpen(seq) == DOpen(seq, Cands).st # DOpen(seq, CandsZst).st

----------------------------------------------------------------------------
(* code level: DebPart *)
AllCands == Cands.c \cup Cands.d
CompOf   == [name \in AllCands |-> IF name \in {CtrlBase, DataBase} THEN ""
                                    ELSE CHOOSE x \in PartExtSet : name = CtrlBase \o "." \o x \/ name = DataBase \o "." \o x]
DComp(name) == CompOf[name]
\* tgz(): extension gate, then tarfile.open(mode='r:*'); ReadError/CompressionError -> DebError
DTgz(name) == IF name \notin AllCands THEN "DebError"
              ELSE IF DComp(name) \notin (Decompressors \cup {""}) THEN "DebError"
              ELSE "tar"

DSpell(sp, n) == CASE sp = "plain" -> <<n>>
                   [] sp = "dot"   -> <<".", "/", n>>
                   [] sp = "slash" -> <<"/", n>>
\* __normalize_member
DNorm(path) == IF Len(path) >= 2 /\ path[1] = "." /\ path[2] = "/" THEN SubSeq(path, 3, Len(path))
               ELSE IF Len(path) >= 1 /\ path[1] = "/" /\ NormalizeSlash THEN Tail(path)
               ELSE path

DMapOf(pk, p)   == IF p = "control" THEN pk.c ELSE pk.d
DNameOf(prt, p) == IF p = "control" THEN prt.ctrl ELSE prt.data
\* the tarball as dpkg-deb writes it (D5): every member is './name'; TarFile.getnames()
DTarNames(fmap) == {<<".", "/", n>> : n \in DOMAIN fmap}
\* './' + normalised name
DLookup(path)   == <<".", "/">> \o DNorm(path)

\* has_file: './' + fname in self.tgz().getnames()
DHas(pk, prt, p, path) ==
    IF DTgz(DNameOf(prt, p)) # "tar" THEN [err |-> "DebError", found |-> FALSE]
    ELSE [err |-> "", found |-> DLookup(path) \in DTarNames(DMapOf(pk, p))]

\* get_file / get_content: self.tgz().extractfile('./' + fname).read(); KeyError from tarfile when absent
DGet(pk, prt, p, path) ==
    IF DTgz(DNameOf(prt, p)) # "tar" THEN [err |-> "DebError", found |-> FALSE, blob |-> 0]
    ELSE LET k == DLookup(path) IN
         IF k \notin DTarNames(DMapOf(pk, p)) THEN [err |-> "", found |-> FALSE, blob |-> 0]
         ELSE [err |-> "", found |-> TRUE, blob |-> DMapOf(pk, p)[k[3]]]

\* DebControl.scripts(): for each of MAINT_SCRIPTS, has_file then get_content
DScripts(pk, prt) ==
    IF DTgz(prt.ctrl) # "tar" THEN [err |-> "DebError", map |-> <<>>]
    ELSE LET have == {s \in MaintScripts : DHas(pk, prt, "control", <<s>>).found} IN
         [err |-> "", map |-> [s \in have |-> DGet(pk, prt, "control", <<s>>).blob]]

\* DebControl.md5sums(): DebError without the md5sums file, else the parsed list
DMd5(pk, prt) ==
    IF DTgz(prt.ctrl) # "tar" THEN [err |-> "DebError", map |-> <<>>]
    ELSE IF ~DHas(pk, prt, "control", <<Md5File>>).found THEN [err |-> "DebError", map |-> <<>>]
    ELSE [err |-> "", map |-> pk.m]

\* DebControl.debcontrol(): Deb822(get_content('control'))
DCtl(pk, prt) ==
    LET g == DGet(pk, prt, "control", <<ControlFile>>) IN
    IF g.err # "" THEN [err |-> g.err, blob |-> 0]
    ELSE IF ~g.found THEN [err |-> "absent", blob |-> 0]
    ELSE [err |-> "", blob |-> g.blob]

----------------------------------------------------------------------------
(* contents explored by the closed configurations *)
CtrlBlob == [control |-> 1, md5sums |-> 2, preinst |-> 3, postinst |-> 4, prerm |-> 5, postrm |-> 6, config |-> 7]
DataMaps == UNION {[D -> Blobs] : D \in SUBSET FileNames}
Contents == UNION { UNION { { [c |-> [n \in {ControlFile, Md5File} \cup S |-> CtrlBlob[n]],
                                d |-> f,
                                m |-> [n \in M |-> f[n] + 100]] : M \in SUBSET (DOMAIN f) }
                            : f \in DataMaps }
                    : S \in SUBSET ScriptUniverse }
QNames   == FileNames \cup {ControlFile, Md5File} \cup MaintScripts \cup {"absent"}

InitChoices == IF InitMatrix
               THEN {<<InfoPart, cn, dn>> : cn \in Cands.c, dn \in Cands.d}
               ELSE {<<>>}

RankOf  == [n \in DRange(Universe) |-> CHOOSE i \in 1..Len(Universe) : Universe[i] = n]
Rank(n) == RankOf[n]

\* the complete table of query results of an accepted package (same operators as the actions)
DProbe(pk, prt) ==
    [has |-> [p \in PartIds |-> [sp \in Spellings |-> [n \in QNames |-> DHas(pk, prt, p, DSpell(sp, n)).found]]],
     get |-> [p \in PartIds |-> [sp \in Spellings |-> [n \in QNames |->
                 LET g == DGet(pk, prt, p, DSpell(sp, n)) IN IF g.found THEN g.blob ELSE 0]]],
     scripts |-> DScripts(pk, prt).map,
     md5 |-> DMd5(pk, prt).map,
     ctl |-> DCtl(pk, prt).blob]

----------------------------------------------------------------------------
Init == /\ mem \in InitChoices
        /\ dst = "building"
        /\ pkg \in Contents
        /\ prts = [ctrl |-> "", data |-> ""]
        /\ res = [op |-> "init"]

Add(n) == /\ dst = "building"
          /\ Len(mem) < MaxLen
          /\ n \notin DRange(mem)                                   \* D5: distinct ar member names
          /\ IF AnyOrder \/ mem = <<>> THEN TRUE ELSE Rank(n) > Rank(mem[Len(mem)])
          /\ mem' = Append(mem, n)
          /\ UNCHANGED <<dst, pkg, prts, res>>

Open == /\ dst = "building"
        /\ LET r == DOpen(mem, Cands) IN
             /\ dst' = r.st
             /\ prts' = [ctrl |-> r.ctrl, data |-> r.data]
             /\ res' = [op |-> "open", st |-> r.st, why |-> r.why]
             /\ (Emit => PrintT(<<"CASE", ToJson([mem |-> mem, st |-> r.st, why |-> r.why, ctrl |-> r.ctrl,
                                                  data |-> r.data, unspec |-> DUnspecOpen(mem)])>>))
             /\ ((EmitProbe /\ r.st = "ok") =>
                    PrintT(<<"PROBE", ToJson([mem |-> mem, ctrl |-> r.ctrl, data |-> r.data, pkg |-> pkg,
                                              probe |-> DProbe(pkg, [ctrl |-> r.ctrl, data |-> r.data])])>>))
        /\ UNCHANGED <<mem, pkg>>

Query(r) == dst = "ok" /\ res' = r /\ UNCHANGED <<mem, dst, pkg, prts>>

HasFile(p, sp, n)    == Query(DHas(pkg, prts, p, DSpell(sp, n)))
GetContent(p, sp, n) == Query(DGet(pkg, prts, p, DSpell(sp, n)))
Scripts              == Query(DScripts(pkg, prts))
Md5sums              == Query(DMd5(pkg, prts))
DebControl           == Query(DCtl(pkg, prts))

\* (the guards dst = ... are repeated in front of the quantifiers only to keep TLC from enumerating
\*  the bound variables in states where the actions are disabled anyway)
Next == \/ dst = "building" /\ Len(mem) < MaxLen /\ \E n \in DRange(Universe) : Add(n)
        \/ Open
        \/ dst = "ok" /\ \E p \in PartIds, sp \in Spellings, n \in QNames : HasFile(p, sp, n) \/ GetContent(p, sp, n)
        \/ Scripts \/ Md5sums \/ DebControl

Spec == Init /\ [][Next]_dvars

----------------------------------------------------------------------------
(* properties *)
Opened == dst # "building"

\* the statement: rejected exactly when a part is missing or offered more than once
AcceptIffWellFormed == Opened => ((dst = "ok") <=> WellFormed(DRange(mem)))

PartsAreCandidates == dst = "ok" => /\ DRange(mem) \cap Cands.c = {prts.ctrl}
                                    /\ DRange(mem) \cap Cands.d = {prts.data}

\* member order plays no role
DSorted(seq) == SortSeq(seq, LAMBDA x, y : Rank(x) < Rank(y))
OrderIrrelevant == Opened => LET r == DOpen(mem, Cands) s == DOpen(DSorted(mem), Cands) IN
                               r.st = s.st /\ r.ctrl = s.ctrl /\ r.data = s.data

\* the extension gate of tgz() can never fire for a part Open has chosen
ExtGateDead == dst = "ok" => prts.ctrl \in AllCands /\ prts.data \in AllCands

AllDecomp == PartExtSet \subseteq Decompressors

\* 'n', './n' and '/n' are answered identically
SpellingInvariant == dst = "ok" =>
    \A p \in PartIds, n \in QNames, s2 \in Spellings \ {"plain"} :
        /\ DHas(pkg, prts, p, DSpell("plain", n)) = DHas(pkg, prts, p, DSpell(s2, n))
        /\ DGet(pkg, prts, p, DSpell("plain", n)) = DGet(pkg, prts, p, DSpell(s2, n))

\* every query returns what was packed (and nothing from the other part)
ContentExact == (dst = "ok" /\ AllDecomp) =>
    /\ \A p \in PartIds, sp \in Spellings, n \in QNames :
          LET fm == DMapOf(pkg, p) IN
          /\ DHas(pkg, prts, p, DSpell(sp, n)) = [err |-> "", found |-> n \in DOMAIN fm]
          /\ DGet(pkg, prts, p, DSpell(sp, n)) = IF n \in DOMAIN fm THEN [err |-> "", found |-> TRUE, blob |-> fm[n]]
                                                                    ELSE [err |-> "", found |-> FALSE, blob |-> 0]
    /\ DScripts(pkg, prts) = [err |-> "", map |-> [s \in DOMAIN pkg.c \cap MaintScripts |-> pkg.c[s]]]
    /\ DMd5(pkg, prts) = [err |-> "", map |-> pkg.m]
    /\ DCtl(pkg, prts) = [err |-> "", blob |-> pkg.c[ControlFile]]

\* a part whose decompressor is missing is accepted by Open and fails with DebError on every query
LazyDecompress == dst = "ok" =>
    \A p \in PartIds : DComp(DNameOf(prts, p)) \notin (Decompressors \cup {""}) =>
        \A sp \in Spellings, n \in QNames : /\ DHas(pkg, prts, p, DSpell(sp, n)).err = "DebError"
                                            /\ DGet(pkg, prts, p, DSpell(sp, n)).err = "DebError"

\* queries never change the package
QueriesPure == [][dst = "ok" => UNCHANGED <<mem, dst, pkg, prts>>]_dvars
=============================================================================
