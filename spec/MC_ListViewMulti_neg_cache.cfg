CONSTANTS
  Docs = {1, 2}
  Fields = {"F"}
  Handles = {1, 2}
  MaxLen = 3
  MaxSteps = 4
  Extras = FALSE
  Emit = FALSE
  SharedTokenCache = TRUE
  StaleSnapshot = FALSE
SPECIFICATION Spec
PROPERTY Isolation
CHECK_DEADLOCK FALSE
