CONSTANTS
  PK <- MC_PK2
  FT <- MC_FT2
  Colon = 0
  ReadDrops <- MC_Drops1
  ReReadKeys <- MC_ReRead2
  InsertNewTagStoresChars = FALSE
  NonAtomicRead = FALSE
  NonAtomicQread = FALSE
  ReverseViewCached = FALSE
  AliasBoundToFirstObject = FALSE
  ShallowCopy = FALSE
  ViewReplacesEmptyIndex = FALSE
  WatchParts = FALSE
  SrcSteps = 0
  Emit = FALSE
  NonAtomicInsert <- MC_True
SPECIFICATION Spec
INVARIANT TypeOK
INVARIANT Inverse
