\* C07 payload layer, negative control: Md5TextSplitsLikeStr = TRUE
SPECIFICATION Spec
CONSTANTS
  Alphabet = {"x", "b", "v", "s", "u", "n", "r"}
  CoreAlphabet = {"x", "b", "s", "u", "n"}
  ShortLen = 4
  MaxLen = 4
  CtlSplitsLikeStr = FALSE
  Md5StripsLine = FALSE
  Md5TextSplitsLikeStr = TRUE
  EmitShapes = FALSE
INVARIANTS Md5Exact
CHECK_DEADLOCK FALSE
