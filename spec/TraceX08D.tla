----------------------------- MODULE TraceX08D -----------------------------
(***************************************************************************)
(* X08 (b) -- trace validation: histories of debian.changelog.format_date  *)
(* calls recorded in a worker process are checked against ChangelogDate.   *)
(*                                                                         *)
(* A trace is a sequence of events                                         *)
(*   [days, sod, off, lt, res]                                             *)
(* one call format_date(days * 86400 + sod [+ fraction], lt) made while    *)
(* the process time zone had the fixed offset off (minutes; time zone,     *)
(* "now" and the calling convention change between the calls of a          *)
(* history); day numbers and offsets are biased (FdDayBias, FdOffBias)     *)
(* like in the cfg files.  res is the returned text cut into its fields by *)
(* the RFC 2822 date-time syntax ([wd, d, mon, y, hh, mm, ss, sign, zh,    *)
(* zm]; [bad |-> TRUE] when the text does not have that syntax or the call *)
(* raised).  Every event must be FdFields of ITS arguments: a memoised     *)
(* result, a time zone or flag taken from an earlier call cannot be        *)
(* explained.  <<"ACCEPTED", tid>> per explained trace.                    *)
(***************************************************************************)
EXTENDS ChangelogDate, IOUtils, TLCExt

Traces == JsonDeserialize(IOEnv.TRACE_FILE)
Diag   == IOEnv.TRACE_DIAG = "1"

VARIABLES tid, l
tvars == <<fvars, tid, l>>

Tr == Traces[tid]
Chk(P) == P = TRUE

TInit == /\ tid \in 1..Len(Traces) /\ l = 1
         /\ fz = 0 /\ fdate = <<1970, 1, 1>> /\ fwd = 4 /\ fdir = 1 /\ fleft = 0

TStep == /\ l <= Len(Tr)
         /\ LET e == Tr[l] IN
               \* (an instant whose printed year is outside 1000..9999 is unspecified)
               Chk(IF FdInDomain(e.days - FdDayBias, e.sod, e.off - FdOffBias, e.lt)
                   THEN e.res = FdFields(e.days - FdDayBias, e.sod, e.off - FdOffBias, e.lt) ELSE TRUE)
         /\ l' = l + 1 /\ UNCHANGED <<fvars, tid>>
         /\ (Diag => PrintT(<<"AT", tid, l>>))
         /\ (l + 1 = Len(Tr) + 1 => PrintT(<<"ACCEPTED", tid>>))

TSpec == TInit /\ [][TStep]_tvars
=============================================================================
