CONSTANTS
  FSilent = FALSE
  FStrictDrops = TRUE
  MaxBody = 1
  EmitBody = 1
  Emit = FALSE
SPECIFICATION VSpec
INVARIANT StrictOnlyValid
CHECK_DEADLOCK FALSE
