\* C13 spec-level negative controls: small space; c13.py switches ONE of the four constants to TRUE
\* and requires TLC to report the invariant named in PkgRelation.tla
CONSTANTS
  MaxConj = 2
  MaxAlt = 2
  MaxAtoms = 6
  MaxArch = 1
  MaxGroups = 1
  MaxTerms = 1
  OpIds = {4}
  CtxKinds = {"full"}
  Emit = FALSE
  RestrictionsFirst = FALSE
  IgnoreNegation = FALSE
  PipeFirst = FALSE
  FormatInKeyOrder = FALSE
  SplitLimit = 0
  LimitedSplits = {}
  KeyOrders <- AllKeyOrders
SPECIFICATION Spec
INVARIANT TypeOK
INVARIANT FormatIgnoresKeyOrder
INVARIANT TokensWellFormed
INVARIANT Inverse
INVARIANT NoWarning
INVARIANT Stable
CHECK_DEADLOCK FALSE
