------------------------------ MODULE ReproView ------------------------------
(***************************************************************************)
(* X10 (extra) -- the CONFIGURED DICT VIEWS of a paragraph held by the     *)
(* format-preserving parser (debian._deb822_repro.parsing):                *)
(*   Deb822ParagraphElement.configured_view(discard_comments_on_read,      *)
(*       auto_map_initial_line_whitespace, auto_resolve_ambiguous_fields,  *)
(*       preserve_field_comments_on_field_updates,                         *)
(*       auto_map_final_newline_in_multiline_values),                      *)
(*   as_interpreted_dict_view, set_field_to_simple_value,                  *)
(*   set_field_from_raw_string, get_kvpair_element and the comment_element *)
(*   / value_element setters of Deb822KeyValuePairElement.                 *)
(* C05 covers the DEFAULT dict interface (locality, read-back); this       *)
(* module covers the flag matrix.  ReproDoc.tla is EXTENDed read-only: the *)
(* document (parts = paragraphs / separators), the key resolution          *)
(* operators (ROcc RHas RCount RResolve RKeyErr RRest ...) and GoodKeys    *)
(* are re-used; the field instance is refined:                             *)
(*     [n |-> name rank, s |-> spelling, c |-> comment, v |-> value text]  *)
(* TEXT is a sequence of pieces <<kind, id>>:                              *)
(*   "L" blanks between the colon and the first word  (id 1 = one space)   *)
(*   "F" the content of the first line (no blanks at its ends)             *)
(*   "T" blanks behind the first line's content                            *)
(*   "N" a newline                                                          *)
(*   "V" a block of continuation lines (without the last newline)          *)
(*   "C" a block of comment lines (without the last newline)               *)
(*   "B" a continuation line made of blanks only (not valid deb822)        *)
(* a stored value is the exact text behind the colon; a comment is a       *)
(* sequence of comment pieces, each a block of complete lines ("C" as in   *)
(* the file / as given, "H" '#..' with the newline supplied, "S" '# body'  *)
(* with '# ' and newline supplied, "E" the empty comment line '#').        *)
(* A view is a record of five booleans [dc ws ar pc nl], View(k) decodes   *)
(* the number k in 0..31.                                                  *)
(*                                                                         *)
(* The ACTIONS are transcribed from the code (one operator per call, the   *)
(* branches of _convert_value_to_str, __setitem__, the raw setters).  The  *)
(* STATEMENT is declarative and checked by TLC against the actions:        *)
(*   ReadAgree   what a view shows = NlMap(nl, WsMap(ws, DcMap(dc, raw)))  *)
(*               -- each flag changes exactly its own aspect               *)
(*   RoundTrip   a successful view[key] = x re-reads through the same view *)
(*               as that view shows the raw text x (+ the newline)         *)
(*   Supplies / Rejects  which missing parts a setter supplies, and that   *)
(*               text the raw format cannot hold is a ValueError           *)
(*   CommentKept the field's own comment survives a write iff pc           *)
(*   ArResolves  an ar view never raises the ambiguity error on a lookup   *)
(*   Frame / XErrAtomic  everything else in the document stays identical;   *)
(*               a failing call changes nothing                            *)
(* plus the ASSUMEd algebra (SymmetricGetSet ...) over a universe of texts.*)
(* Bugs = [blank, cont] switches in the two divergences of the real code   *)
(* (open findings): TLC reports Rejects / ArResolves violated              *)
(* (MC_ReproView_find_*.cfg).  Neg switches in negative controls.          *)
(***************************************************************************)
EXTENDS ReproDoc

CONSTANTS WViews,     \* views (numbers 0..31) offered to writes / deletes
          RViews,     \* views offered to the single-view read actions
          XVals,      \* texts offered to view[key] = x
          RawVals,    \* texts offered to set_field_from_raw_string / value_element
          SimpleVals, \* texts offered to set_field_to_simple_value
          CLists,     \* comment lists offered as field_comment
          Modes,      \* comment modes offered to the raw setters
          MaxW,       \* number of mutating calls explored
          XOps,       \* names of the actions offered
          Bugs,       \* design under check: [blank |-> BOOLEAN, cont |-> BOOLEAN]
          Neg         \* "" or the name of a negative control

VARIABLES nw, last
xvars == <<doc, res, nw, last>>

N  == <<"N", 0>>
L1 == <<"L", 1>>
NewC == 90            \* the comment block built by hand for the comment_element setter
NoBugs  == [blank |-> FALSE, cont |-> FALSE]
AllBugs == [blank |-> TRUE, cont |-> TRUE]

View(k) == [dc |-> (k \div 16) % 2 = 1, ws |-> (k \div 8) % 2 = 1, ar |-> (k \div 4) % 2 = 1,
            pc |-> (k \div 2) % 2 = 1, nl |-> k % 2 = 1]
AllViewNos == 0..31

\* ------------------------------------------------------------------ text
HasK(t, k)  == \E j \in 1..Len(t) : t[j][1] = k
NPos(t)     == IF HasK(t, "N")
               THEN CHOOSE j \in 1..Len(t) : t[j][1] = "N" /\ \A h \in 1..(j - 1) : t[h][1] # "N"
               ELSE 0
First(t)    == IF NPos(t) = 0 THEN t ELSE SubSeq(t, 1, NPos(t) - 1)        \* the first line
After(t)    == IF NPos(t) = 0 THEN <<>> ELSE SubSeq(t, NPos(t) + 1, Len(t)) \* what follows its newline
HasNl(t)    == NPos(t) # 0
Strip(f)    == SelectSeq(f, LAMBDA q : q[1] = "F")
EndsN(t)    == t # <<>> /\ t[Len(t)] = N
Front(t)    == SubSeq(t, 1, Len(t) - 1)
Complete(t) == IF EndsN(t) THEN t ELSE t \o <<N>>
RECURSIVE DropC(_)     \* comment lines removed (each with its newline)
DropC(t) == IF t = <<>> THEN <<>>
            ELSE IF t[1][1] = "C"
                 THEN DropC(IF Len(t) >= 2 /\ t[2] = N THEN SubSeq(t, 3, Len(t)) ELSE Tail(t))
                 ELSE <<t[1]>> \o DropC(Tail(t))
Multi(t)    == HasK(t, "V")           \* more than one value line

\* ---- what a view shows, transcribed from _convert_value_to_str
NLines(t) == 1 + Cardinality({j \in 1..Len(t) : t[j][1] = "V"})
ReadImpl(t, w) ==
   IF NLines(t) = 1
   THEN (IF w.ws THEN Strip(t) ELSE t)
   ELSE LET body == IF w.ws \/ w.dc
                    THEN (IF w.ws THEN Strip(First(t)) ELSE First(t)) \o <<N>>
                         \o (IF w.dc THEN DropC(After(t)) ELSE After(t))
                    ELSE t
        IN IF w.nl /\ EndsN(body) THEN Front(body) ELSE body

\* ---- the same, declaratively (docstring of configured_view): three independent maps
DcMap(on, t)    == IF on THEN DropC(t) ELSE t
WsMap(on, m, t) == IF ~on THEN t
                   ELSE IF m THEN Strip(First(t)) \o <<N>> \o After(t)   \* "the newline is preserved / needed"
                   ELSE Strip(t)                                         \* "all space including newline is pruned"
NlMap(on, m, t) == IF on /\ m /\ EndsN(t) THEN Front(t) ELSE t           \* "... in multiline values"
ReadSpec(t, w)  == NlMap(w.nl, Multi(t), WsMap(w.ws, Multi(t), DcMap(w.dc, t)))
\* negative control StrictNl: the final newline of a single-line value hidden iff nl
ReadStrict(t, w) == LET r == WsMap(w.ws, Multi(t), DcMap(w.dc, t))
                    IN IF w.nl /\ EndsN(r) THEN Front(r) ELSE IF ~w.nl /\ ~Multi(t) /\ w.ws /\ EndsN(t) THEN r \o <<N>> ELSE r
Read(t, w) == IF Neg = "ReadKeepsComments" /\ ~w.ws THEN ReadImpl(t, [w EXCEPT !.dc = FALSE]) ELSE ReadImpl(t, w)

\* ---- what view[key] = x hands to the raw setter, transcribed from __setitem__
StoreRaw(x, w) ==
   LET x1 == IF w.ws
             THEN (IF ~HasNl(x) THEN <<L1>> \o Strip(x) \o <<N>>         \* set_field_to_simple_value
                   ELSE <<L1>> \o Strip(First(x)) \o <<N>> \o After(x))
             ELSE x
   IN IF EndsN(x1) THEN [e |-> "", t |-> x1]
      ELSE IF w.nl THEN [e |-> "", t |-> x1 \o <<N>>]
      ELSE [e |-> "ValueError", t |-> <<>>]

\* ---- set_field_from_raw_string: every line ends in a newline, the last line of several is not a
\* comment, the text parses as ONE field.  b = the open finding: trailing blank-only lines end the
\* paragraph for the parser and are silently cut off (with comment lines directly in front of them)
BPos(t) == IF HasK(t, "B") THEN CHOOSE j \in 1..Len(t) : t[j][1] = "B" /\ \A h \in 1..(j - 1) : t[h][1] # "B" ELSE 0
OnlyBlankFrom(t, k) == \A j \in k..Len(t) : t[j][1] \in {"B", "N"}
RECURSIVE DropTailC(_)
DropTailC(t) == IF Len(t) >= 2 /\ t[Len(t)] = N /\ t[Len(t) - 1][1] = "C" THEN DropTailC(SubSeq(t, 1, Len(t) - 2)) ELSE t
Bad == [e |-> "ValueError", t |-> <<>>]
RawCheck(t, b) ==
   IF ~EndsN(t) THEN Bad
   ELSE IF Len(t) >= 3 /\ t[Len(t) - 1][1] = "C" THEN Bad
   ELSE IF BPos(t) = 0 THEN [e |-> "", t |-> t]
   ELSE IF b /\ OnlyBlankFrom(t, BPos(t)) THEN [e |-> "", t |-> DropTailC(SubSeq(t, 1, BPos(t) - 1))]
   ELSE Bad
\* a text a field can hold
ValidRaw(t) == RawCheck(t, FALSE).e = ""

\* ---- field_comment given as a list of strings: items <<form, body>>
\*   "x" '#...\n' used exactly;  "h" '#...' + blanks, no newline: blanks cut, newline supplied;
\*   "s" no '#', with newline / "p" no '#', no newline: '# ' + body + newline;  "e" '' -> '#';  "bad" embedded newline
NormItem(it) == IF it[1] = "x" THEN <<"C", it[2]>>
                ELSE IF it[1] = "h" THEN <<"H", it[2]>>
                ELSE IF it[1] = "e" THEN <<"E", 0>>
                ELSE <<"S", it[2]>>
NormList(cl) == [j \in 1..Len(cl) |-> NormItem(cl[j])]

\* ------------------------------------------------------------------ outcomes of the calls (pure)
PPos(d)       == RSeqOf([j \in Idx(d) |-> j], {j \in Idx(d) : d[j].t = "p"})
PAt(d, p)     == d[PPos(d)[p]]
PSet(d, p, fs) == [d EXCEPT ![PPos(d)[p]].fs = fs]
RV(e, t)      == [e |-> e, t |-> t]
O(r, d)       == [r |-> r, d |-> d]
Err(e, d)     == O(RV(e, <<>>), d)
Done(d)       == O(RV("ok", <<>>), d)
Amb(fs, key)  == key.i = NoIdx /\ RCount(fs, key.n) >= 2
Tgt(fs, key)  == RResolve(fs, key)[1]
\* the last field of a file may lack its newline; it gets one before anything is placed behind it
EnsureNl(fs)  == IF fs = <<>> \/ EndsN(fs[Len(fs)].v) THEN fs ELSE [fs EXCEPT ![Len(fs)].v = @ \o <<N>>]

\* plain name: the first occurrence is replaced (spelling kept) and the others disappear;
\* (name, i): that occurrence; absent: appended with the given spelling
XAssign(fs, key, s, v, keep, c) ==
   IF ~RHas(fs, key.n) THEN Append(EnsureNl(fs), [n |-> key.n, s |-> s, c |-> c, v |-> v])
   ELSE LET occ  == ROcc(fs, key.n)
            tgt  == IF key.i = NoIdx THEN occ[1] ELSE occ[key.i + 1]
            drop == IF key.i = NoIdx THEN RSet(occ) \ {tgt} ELSE {}
            fs1  == [fs EXCEPT ![tgt].v = v, ![tgt].c = IF keep THEN @ ELSE c]
        IN RSeqOf(fs1, Idx(fs) \ drop)

\* set_field_from_raw_string(key, t, preserve_original_field_comment, field_comment)
\*   mode "default" both omitted (ambiguity resolved automatically, comment kept)
\*        "keep"    preserve=True (an ambiguous name raises)   "drop" preserve=False
\*        "list"    field_comment=cl                            "conflict" both given
RawSetOut(d, p, key, t, s, mode, cl, b) ==
   LET P == PAt(d, p)
       fs == P.fs
       chk == RawCheck(t, b.blank)
       keep == IF Neg = "KeepsAlways" THEN TRUE ELSE mode \in {"default", "keep"}
   IN IF mode = "conflict" THEN Err("ValueError", d)
      ELSE IF mode = "list" /\ (\E j \in 1..Len(cl) : cl[j][1] = "bad") THEN Err("ValueError", d)
      ELSE IF ~P.dup /\ key.i > 0 THEN Err("KeyError", d)
      ELSE IF Amb(fs, key) /\ mode = "keep" THEN Err("Ambiguous", d)
      ELSE IF chk.e # "" THEN Err("ValueError", d)
      ELSE IF ~RHas(fs, key.n) /\ key.i > 0 THEN Err("KeyError", d)
      ELSE IF RHas(fs, key.n) /\ key.i # NoIdx /\ RResolve(fs, key) = <<>> THEN Err("IndexError", d)
      ELSE Done(PSet(d, p, XAssign(fs, key, s, chk.t, keep, IF mode = "list" THEN NormList(cl) ELSE <<>>)))

\* set_field_to_simple_value: no newline allowed; one blank, the stripped text, a newline
SimpleSetOut(d, p, key, x, s, mode, cl, b) ==
   IF HasNl(x) THEN Err("ValueError", d)
   ELSE RawSetOut(d, p, key, <<L1>> \o Strip(x) \o <<N>>, s, mode, cl, b)

\* view[key] = x
VSetOut(d, p, w, key, x, s, b) ==
   LET r == StoreRaw(x, w)
       mode == IF w.pc THEN (IF w.ar THEN "default" ELSE "keep") ELSE "drop"
   IN IF r.e # "" THEN Err(r.e, d) ELSE RawSetOut(d, p, key, r.t, s, mode, <<>>, b)

\* view[key]
GetOut(d, p, w, key) ==
   LET P == PAt(d, p)
       fs == P.fs
   IN IF ~P.dup /\ key.i > 0 THEN Err("KeyError", d)
      ELSE IF ~RHas(fs, key.n) THEN Err("KeyError", d)
      ELSE IF Amb(fs, key) /\ ~w.ar THEN Err("Ambiguous", d)
      ELSE IF RResolve(fs, key) = <<>> THEN Err("IndexError", d)
      ELSE O(RV("val", Read(fs[Tgt(fs, key)].v, w)), d)

\* name in view   (b.cont = the open finding: the ambiguity error also on views that resolve)
HasOut(d, p, w, n, b) ==
   LET fs == PAt(d, p).fs
       key == [n |-> n, i |-> NoIdx]
   IN IF ~RHas(fs, n) THEN O(RV("false", <<>>), d)
      ELSE IF Amb(fs, key) /\ (~w.ar \/ b.cont) THEN Err("Ambiguous", d)
      ELSE O(RV("true", <<>>), d)

\* paragraph.get_kvpair_element(key, use_get): never resolves an ambiguity
KvOut(d, p, key, ug) ==
   LET P == PAt(d, p)
       fs == P.fs
   IN IF ~P.dup /\ key.i > 0 THEN Err("KeyError", d)
      ELSE IF ~RHas(fs, key.n) THEN (IF ug THEN Err("none", d) ELSE Err("KeyError", d))
      ELSE IF Amb(fs, key) THEN Err("Ambiguous", d)
      ELSE IF RResolve(fs, key) = <<>> THEN (IF ug THEN Err("none", d) ELSE Err("IndexError", d))
      ELSE O(RV("kv", <<<<"P", Tgt(fs, key)>>>>), d)

\* del view[key]
DelOut(d, p, key) ==
   LET P == PAt(d, p)
       e == RKeyErr(P, key)
   IN IF e # "" THEN Err(e, d) ELSE Done(PSet(d, p, RRest(P.fs, RSet(RResolve(P.fs, key)))))

\* kvpair.comment_element = ...   (j = position of the field; "move" takes the comment of field j2)
CmtOut(d, p, j, src, j2) ==
   LET fs == PAt(d, p).fs
   IN IF src = "bad" THEN Err("ValueError", d)
      ELSE IF src = "none" THEN Done(PSet(d, p, [fs EXCEPT ![j].c = <<>>]))
      ELSE IF src = "new" THEN Done(PSet(d, p, [fs EXCEPT ![j].c = <<<<"C", NewC>>>>]))
      ELSE Done(PSet(d, p, [fs EXCEPT ![j].c = fs[j2].c, ![j2].c = <<>>]))
\* kvpair.value_element = the value element of a field parsed elsewhere
ValOut(d, p, j, t) == Done(PSet(d, p, [PAt(d, p).fs EXCEPT ![j].v = t]))

\* ------------------------------------------------------------------ actions
Same == O(RV("same", <<>>), <<>>)
XEdge(op, args, alt) ==
   Emit => PrintT(<<"EDGE", ToJson([from |-> doc, nw |-> nw, op |-> op, args |-> args, res |-> res', to |-> doc',
                                    alt |-> IF alt = O(res', doc') THEN Same ELSE alt])>>)
Step(o, mut, l) == /\ doc' = o.d
                   /\ res' = o.r
                   /\ nw' = IF mut THEN nw + 1 ELSE nw
                   /\ last' = [l EXCEPT !.old = IF mut THEN doc ELSE last.old]   \* the document before the last write
KeyA(key) == <<key.n, key.i>>
Lst(op, p, key, w, x) == [op |-> op, p |-> p, key |-> key, w |-> w, x |-> x, old |-> <<>>]
NoKey == [n |-> 0, i |-> NoIdx]
NoView == View(31)

\* negative control StaleView: a view other than the writer's answers from a copy taken before the last write
Stale(k) == Neg = "StaleView" /\ last.old # <<>> /\ last.op = "set" /\ last.w # View(k)
VGet(p, k, key) ==
   /\ Step(IF Stale(k) THEN O(GetOut(last.old, p, View(k), key).r, doc) ELSE GetOut(doc, p, View(k), key),
           FALSE, Lst("get", p, key, View(k), <<>>))
   /\ XEdge("get", <<p, k, KeyA(key)>>, Same)
\* emission only: the results of one key through all 32 views in one line
VReads(p, key) ==
   /\ Emit
   /\ Step(O(RV("all", [k \in 1..32 |-> GetOut(doc, p, View(k - 1), key).r]), doc), FALSE, Lst("reads", p, key, NoView, <<>>))
   /\ XEdge("reads", <<p, KeyA(key)>>, Same)
VHas(p, k, n) ==
   /\ Step(HasOut(doc, p, View(k), n, Bugs), FALSE, Lst("has", p, [n |-> n, i |-> NoIdx], View(k), <<>>))
   /\ XEdge("has", <<p, k, n>>, HasOut(doc, p, View(k), n, AllBugs))
VKv(p, key, ug) ==
   /\ Step(KvOut(doc, p, key, ug), FALSE, Lst("kv", p, key, NoView, <<>>))
   /\ XEdge("kv", <<p, KeyA(key), ug>>, Same)
VSet(p, k, key, x, s) ==
   /\ Step(VSetOut(doc, p, View(k), key, x, s, Bugs), TRUE, Lst("set", p, key, View(k), x))
   /\ XEdge("set", <<p, k, KeyA(key), s, x>>, VSetOut(doc, p, View(k), key, x, s, AllBugs))
RawSet(p, key, t, s, mode, cl) ==
   /\ Step(RawSetOut(doc, p, key, t, s, mode, cl, Bugs), TRUE, [Lst("raw", p, key, NoView, t) EXCEPT !.w = mode])
   /\ XEdge("raw", <<p, KeyA(key), s, t, mode, cl>>, RawSetOut(doc, p, key, t, s, mode, cl, AllBugs))
SimpleSet(p, key, x, s, mode, cl) ==
   /\ Step(SimpleSetOut(doc, p, key, x, s, mode, cl, Bugs), TRUE, [Lst("simple", p, key, NoView, x) EXCEPT !.w = mode])
   /\ XEdge("simple", <<p, KeyA(key), s, x, mode, cl>>, Same)
VDel(p, k, key) ==
   /\ Step(DelOut(doc, p, key), TRUE, Lst("del", p, key, View(k), <<>>))
   /\ XEdge("del", <<p, k, KeyA(key)>>, Same)
CmtSet(p, j, src, j2) ==
   /\ Step(CmtOut(doc, p, j, src, j2), TRUE, Lst("cmt", p, NoKey, NoView, <<>>))
   /\ XEdge("cmt", <<p, j, src, j2>>, Same)
ValSet(p, j, t) ==
   /\ Step(ValOut(doc, p, j, t), TRUE, Lst("val", p, NoKey, NoView, t))
   /\ XEdge("val", <<p, j, t>>, Same)

\* ------------------------------------------------------------------ domain (what the statement speaks about)
XPara(p)   == Para(p)
KeyBad(p, key) == LET P == XPara(p) IN
                     \/ ~P.dup /\ key.i > 0
                     \/ ~RHas(P.fs, key.n) /\ key.i > 0
                     \/ RHas(P.fs, key.n) /\ key.i # NoIdx /\ RResolve(P.fs, key) = <<>>
\* a view that does not resolve ambiguities: what `view[name] = x` does to an ambiguous name is only
\* documented for pc (the raw setter's preserve=True: the error); without pc, and for del: unspecified
SetDomain(p, w, key, x) ==
   /\ ~(Amb(XPara(p).fs, key) /\ ~w.ar /\ ~w.pc)
   /\ ~(KeyBad(p, key) /\ (StoreRaw(x, w).e # "" \/ ~ValidRaw(StoreRaw(x, w).t)))      \* one cause of failure per call
   /\ ~(Amb(XPara(p).fs, key) /\ ~w.ar /\ (StoreRaw(x, w).e # "" \/ ~ValidRaw(StoreRaw(x, w).t)))
DelDomain(p, w, key) == ~(Amb(XPara(p).fs, key) /\ ~w.ar) /\ DelOK(p, key)
RawDomain(p, key, t, mode, cl) ==
   LET causes == (IF KeyBad(p, key) \/ (Amb(XPara(p).fs, key) /\ mode = "keep") THEN 1 ELSE 0)
                 + (IF ~ValidRaw(t) THEN 1 ELSE 0)
                 + (IF mode = "conflict" \/ (mode = "list" /\ \E j \in 1..Len(cl) : cl[j][1] = "bad") THEN 1 ELSE 0)
   IN causes <= 1

HViews == IF Emit THEN {0, 31} ELSE RViews       \* membership only depends on ar
\* the spelling given by the caller only matters for a field that is not there yet
SpellsFor(p, key) == IF RHas(Para(p).fs, key.n) THEN {"U"} ELSE SetSpells

XInit == doc \in Start /\ res = RV("ok", <<>>) /\ nw = 0 /\ last = Lst("init", 0, NoKey, NoView, <<>>)

XNext ==
   \E p \in 1..NParas :
      \* observations; the context paragraphs never change (Frame), so they are only offered in the start document
      \/ /\ Para(p).id = 0 \/ nw = 0
         /\ \/ \E key \in GoodKeys(p) :
                  \/ ("reads" \in XOps /\ VReads(p, key))
                  \/ ("get" \in XOps /\ \E k \in RViews : VGet(p, k, key))
                  \/ ("kv" \in XOps /\ \E ug \in BOOLEAN : VKv(p, key, ug))
            \/ ("has" \in XOps /\ \E n \in Names, k \in HViews : VHas(p, k, n))
      \/ /\ Para(p).id = 0            \* paragraphs with id 1 are context: read, never edited
         /\ nw < MaxW
         /\ \/ \E key \in GoodKeys(p) :
                  \/ ("set" \in XOps /\ \E k \in WViews, x \in XVals, s \in SpellsFor(p, key) :
                          SetDomain(p, View(k), key, x) /\ VSet(p, k, key, x, s))
                  \/ ("del" \in XOps /\ \E k \in WViews : DelDomain(p, View(k), key) /\ VDel(p, k, key))
                  \/ ("raw" \in XOps /\ \E t \in RawVals, s \in SpellsFor(p, key), mode \in Modes, cl \in CLists :
                          /\ (mode = "list" \/ cl = <<>>)
                          /\ RawDomain(p, key, t, mode, cl)
                          /\ RawSet(p, key, t, s, mode, cl))
                  \/ ("simple" \in XOps /\ \E x \in SimpleVals, s \in SpellsFor(p, key), mode \in Modes, cl \in CLists :
                          /\ (mode = "list" \/ cl = <<>>)
                          /\ RawDomain(p, key, IF HasNl(x) THEN <<>> ELSE <<N>>, mode, cl)
                          /\ SimpleSet(p, key, x, s, mode, cl))
            \/ \E j \in Idx(Para(p).fs) :
                  \/ ("cmt" \in XOps /\ \E src \in {"none", "new", "bad"} : CmtSet(p, j, src, j))
                  \/ ("cmt" \in XOps /\ \E j2 \in Idx(Para(p).fs) : j2 # j /\ Para(p).fs[j2].c # <<>> /\ CmtSet(p, j, "move", j2))
                  \/ ("val" \in XOps /\ \E t \in RawVals : ValidRaw(t) /\ ValSet(p, j, t))

XSpec == XInit /\ [][XNext]_xvars
XView == <<doc, nw>>

\* ------------------------------------------------------------------ the statement
AllInst(d) == UNION {{d[j].fs[i] : i \in Idx(d[j].fs)} : j \in Idx(d)}
ErrNames == {"KeyError", "IndexError", "ValueError", "Ambiguous"}

\* every stored value is text a field can hold (only the very last field may lack its newline)
StoredValid == \A j \in Idx(doc) : \A i \in Idx(doc[j].fs) :
                  LET v == doc[j].fs[i].v
                  IN ValidRaw(Complete(v)) /\ (EndsN(v) \/ (j = Len(doc) /\ i = Len(doc[j].fs)))
\* code and docstring agree on what every view shows of every stored value
ReadAgree == \A f \in AllInst(doc) : \A k \in AllViewNos :
                Read(f.v, View(k)) = (IF Neg = "StrictNl" THEN ReadStrict(f.v, View(k)) ELSE ReadSpec(f.v, View(k)))
\* a view that discards comments never shows one; without discarding, without mapping, it shows the raw text
ReadShape == \A f \in AllInst(doc) : \A k \in AllViewNos :
                LET w == View(k) r == Read(f.v, w)
                IN /\ (w.dc => ~HasK(r, "C"))
                   /\ (~w.dc /\ ~w.ws /\ ~w.nl => r = f.v)
                   /\ (w.ws => ~HasK(r, "L") /\ ~HasK(r, "T"))
                   /\ (w.nl /\ Multi(f.v) => ~EndsN(r) \/ r = <<N>>)

\* the instance a successful write produced
Written(l) == LET fs == PAt(doc', l.p).fs
              IN IF ~RHas(PAt(doc, l.p).fs, l.key.n) THEN fs[Len(fs)] ELSE fs[Tgt(fs, l.key)]
Before(l)  == LET fs == PAt(doc, l.p).fs IN fs[Tgt(fs, l.key)]
RoundTrip == [][(last'.op = "set" /\ res'.e = "ok") =>
                   ReadSpec(Written(last').v, last'.w) = ReadSpec(Complete(last'.x), last'.w)]_xvars
\* the first blank / the final newline are supplied iff the flag is on (a single-line value written with
\* ws goes through set_field_to_simple_value, which supplies both); everything else is stored as given
Supplies == [][(last'.op = "set" /\ res'.e = "ok") =>
                  LET l == last' v == Written(l).v x == l.x
                  IN /\ (l.w.ws => First(v) = <<L1>> \o Strip(First(x)))
                     /\ (~l.w.ws => First(v) = First(x))
                     /\ After(v) = After(Complete(x))
                     /\ (~EndsN(x) => l.w.nl \/ (l.w.ws /\ ~HasNl(x)))]_xvars
\* text the raw format cannot hold is rejected
Rejects == [][(last'.op \in {"set", "raw"} /\ ~KeyBad(last'.p, last'.key)) =>
                  LET t == IF last'.op = "raw" THEN last'.x ELSE StoreRaw(last'.x, last'.w).t
                  IN (HasK(last'.x, "B") \/ (last'.op = "set" /\ StoreRaw(last'.x, last'.w).e # "") \/ ~ValidRaw(t))
                       => res'.e \in {"ValueError", "Ambiguous"}]_xvars
\* the field's own comment is kept iff pc
CommentKept == [][(last'.op = "set" /\ res'.e = "ok" /\ RHas(PAt(doc, last'.p).fs, last'.key.n)) =>
                     Written(last').c = (IF last'.w.pc THEN Before(last').c ELSE <<>>)]_xvars
\* a view that resolves ambiguities never raises the ambiguity error on a lookup
ArResolves == [][(last'.op \in {"get", "has"} /\ last'.w.ar) => res'.e # "Ambiguous"]_xvars
\* ... and one that does not, raises it for every plain duplicated name
ArRefuses == [][(last'.op \in {"get", "has"} /\ ~last'.w.ar /\ Amb(PAt(doc, last'.p).fs, last'.key)) => res'.e = "Ambiguous"]_xvars
\* a failing call changes nothing; a read changes nothing
XErrAtomic == [][(res'.e \in ErrNames \/ last'.op \in {"get", "reads", "has", "kv"}) => doc' = doc]_xvars
\* locality: a write through a view touches only the fields of that name in that paragraph
Canon(fs) == [j \in Idx(fs) |-> [fs[j] EXCEPT !.v = Complete(@)]]
Others(fs, n) == SelectSeq(fs, LAMBDA f : f.n # n)
Frame == [][(last'.op \in {"set", "raw", "simple", "del"}) =>
              LET l == last' pp == PPos(doc)[l.p]
              IN /\ Len(doc') = Len(doc)
                 /\ \A j \in Idx(doc) : j # pp => doc'[j] = doc[j]
                 /\ Canon(Others(doc'[pp].fs, l.key.n)) = Canon(Others(doc[pp].fs, l.key.n))
                 /\ (l.key.i # NoIdx /\ res'.e = "ok" /\ l.op # "del" /\ RHas(doc[pp].fs, l.key.n) =>
                        \A h \in Idx(doc[pp].fs) : h # Tgt(doc[pp].fs, l.key) => doc'[pp].fs[h] = doc[pp].fs[h])]_xvars
\* views never copy: what any view shows is a function of the CURRENT document and its own flags, whoever wrote last
SpecGetOut(d, p, w, key) ==
   LET P == PAt(d, p) fs == P.fs
   IN IF (~P.dup /\ key.i > 0) \/ ~RHas(fs, key.n) THEN RV("KeyError", <<>>)
      ELSE IF Amb(fs, key) /\ ~w.ar THEN RV("Ambiguous", <<>>)
      ELSE IF RResolve(fs, key) = <<>> THEN RV("IndexError", <<>>)
      ELSE RV("val", ReadSpec(fs[Tgt(fs, key)].v, w))
ViewsShare == [][last'.op = "get" => res' = SpecGetOut(doc, last'.p, last'.w, last'.key)]_xvars
XNoEmptyPara == NoEmptyPara

\* ------------------------------------------------------------------ algebra over a universe of texts
UF == {<<>>, <<<<"F", 1>>>>, <<<<"L", 1>>, <<"F", 1>>>>, <<<<"L", 2>>, <<"F", 1>>, <<"T", 2>>>>, <<<<"F", 1>>, <<"T", 1>>>>, <<<<"L", 2>>>>}
UR == {<<>>, <<<<"V", 1>>>>, <<<<"V", 1>>, N, <<"V", 2>>>>, <<<<"C", 1>>, N, <<"V", 1>>>>, <<<<"V", 1>>, N, <<"C", 1>>, N, <<"V", 2>>>>}
UStored == {f \o <<N>> \o (IF r = <<>> THEN <<>> ELSE r \o <<N>>) : f \in UF, r \in UR}      \* valid stored values
UInput  == UStored \cup {Front(t) : t \in UStored}                                              \* with / without the final newline
ASSUME UniverseValid == \A t \in UStored : ValidRaw(t)
\* code and docstring agree on the whole universe
ASSUME ReadAgreeU == \A t \in UStored \cup {Front(u) : u \in UStored \ {<<N>>}} : \A k \in AllViewNos :
                        (t # <<>>) => ReadImpl(t, View(k)) = ReadSpec(t, View(k))
\* what a view shows can be written back through the same view and is shown again; without ws the
\* stored text is exactly the old one, with ws it differs at most in the blanks of the first line
ASSUME SymmetricGetSet ==
   \A t \in UStored : \A k \in AllViewNos :
      LET w == View(k) r == ReadSpec(t, w) s == StoreRaw(r, w)
      IN /\ s.e = ""
         /\ ValidRaw(s.t)
         /\ ReadSpec(s.t, w) = r
         /\ (~w.dc /\ ~w.ws => s.t = t)
         /\ (~w.dc /\ w.ws => s.t = <<L1>> \o Strip(First(t)) \o <<N>> \o After(t))
\* a write that succeeds re-reads as the view shows the completed raw text
ASSUME RoundTripU ==
   \A x \in UInput : \A k \in AllViewNos :
      LET w == View(k) s == StoreRaw(x, w)
      IN (s.e = "" /\ ValidRaw(s.t)) => ReadSpec(s.t, w) = ReadSpec(Complete(x), w)
\* the flags are independent: dc only removes comment lines, ws only touches the first line (and the newline
\* of a single line), nl only the final newline of a multi-line value
ASSUME FlagsIndependent ==
   \A t \in UStored : \A k \in AllViewNos :
      LET w == View(k)
      IN /\ ReadSpec(t, [w EXCEPT !.dc = TRUE]) = DropC(ReadSpec(t, [w EXCEPT !.dc = FALSE]))
         /\ After(ReadSpec(t, [w EXCEPT !.ws = TRUE])) = After(ReadSpec(t, [w EXCEPT !.ws = FALSE]))
         /\ First(ReadSpec(t, [w EXCEPT !.ws = TRUE])) = Strip(First(ReadSpec(t, [w EXCEPT !.ws = FALSE])))
         /\ (Multi(t) => ReadSpec(t, [w EXCEPT !.nl = TRUE]) = Front(ReadSpec(t, [w EXCEPT !.nl = FALSE])))
         /\ (~Multi(t) => ReadSpec(t, [w EXCEPT !.nl = TRUE]) = ReadSpec(t, [w EXCEPT !.nl = FALSE]))
         /\ ReadSpec(t, [w EXCEPT !.ar = ~w.ar, !.pc = ~w.pc]) = ReadSpec(t, w)
=============================================================================
