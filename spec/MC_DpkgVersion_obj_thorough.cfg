\* C03 thorough: object-level layer (mutable Version objects): closed state space of two objects over
\* epoch absent/0, revision absent/0, upstream <= 2 characters over 0 1 (24 start versions), objects reach every in-domain string of <= 6 characters;
\* every assignment of full_version / epoch / upstream_version / debian_revision to object 1, including the
\* boundary-moving values (upstream "x-y" "d:y", revision "x-0", None with '-' / ':' in the upstream part)
\* and a second object DERIVED from a live one (Derive21 / Derive12; kin) that stays in use: Independent, Related
CONSTANTS
  HashOnString = FALSE
  TildeOrderZero = FALSE
  StaleKey = FALSE
  NoResplit = FALSE
  PartialOnReject = FALSE
  SharedOnCopy = FALSE
  Boundary = TRUE
  MaxFull = 6
  Epochs <- E_two
  Revs <- R_two
  UpChars = {48, 49}
  MaxUp = 2
  Seps = FALSE
  Triples = FALSE
  EmitStride = 0
  EmitOffset = 0
  CheckPos = FALSE
SPECIFICATION OSpec
INVARIANT KeyFresh
INVARIANT Agree
INVARIANT Antisym
INVARIANT HashConsistent
INVARIANT HashImpl
INVARIANT Related
PROPERTY Independent
CHECK_DEADLOCK FALSE
