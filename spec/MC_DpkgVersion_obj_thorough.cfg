\* C03 thorough: object-level layer (mutable Version objects): closed state space of two objects over
\* epoch absent/0, revision absent/0, upstream <= 2 characters over 0 1 a ~ (80 versions, 6400 states),
\* every assignment of full_version / epoch / upstream_version / debian_revision to object 1
CONSTANTS
  HashOnString = FALSE
  TildeOrderZero = FALSE
  StaleKey = FALSE
  NoResplit = FALSE
  Boundary = TRUE
  Epochs <- E_two
  Revs <- R_two
  UpChars = {48, 49, 97, 126}
  MaxUp = 2
  Seps = FALSE
  Triples = FALSE
  EmitStride = 0
  EmitOffset = 0
SPECIFICATION OSpec
INVARIANT KeyFresh
INVARIANT Agree
INVARIANT Antisym
INVARIANT HashConsistent
INVARIANT HashImpl
CHECK_DEADLOCK FALSE
