CONSTANTS
  RlKeyMode = "position"
  RlCopies = FALSE
  RlAsk = {"buzz", "wheezy", "buster", "sid", "unstable", "", "Sid", "BUZZ", "sid "}
  RlMaxObjs = 4
  RlEmit = TRUE
SPECIFICATION RlSpec
INVARIANT RlTypeOK
INVARIANT VersionsAgree
INVARIANT OrderIsPosition
INVARIANT OrderLaws
INVARIANT InternUnique
INVARIANT LiveOrder
INVARIANT EmitPairs
CHECK_DEADLOCK FALSE
