\* C15 quick: <= 3 editing calls on the empty changelog and on every changelog parsed from a text of
\* <= 4 lines with <= 1 mutation (24 classes), both allow_empty_author settings
CONSTANTS
  Mode = "edit"
  Classes <- AllClasses
  AEAs = {TRUE, FALSE}
  MaxLines = 4
  MaxBlocks = 1
  MaxBody = 2
  MaxLead = 1
  MaxSep = 1
  Budget = 1
  MaxEdits = 3
  Bug = "none"
  Emit = TRUE
SPECIFICATION Spec
INVARIANT BookkeepingOK
INVARIANT NormalForm
INVARIANT NormalFormEdited
INVARIANT EmitEdit
CHECK_DEADLOCK FALSE
