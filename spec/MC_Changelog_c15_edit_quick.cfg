\* C15 quick: <= 2 editing calls on the empty changelog and on every changelog parsed from a text of
\* <= 3 lines with <= 1 mutation (3 representative classes), both allow_empty_author settings
CONSTANTS
  Mode = "edit"
  Classes = {"Junk", "EndNoDetails", "EndOneSpace"}
  AEAs = {TRUE, FALSE}
  MaxLines = 3
  MaxBlocks = 1
  MaxBody = 1
  MaxLead = 0
  MaxSep = 1
  Budget = 1
  MaxEdits = 2
  Bug = "none"
  Emit = TRUE
SPECIFICATION Spec
INVARIANT BookkeepingOK
INVARIANT NormalForm
INVARIANT NormalFormEdited
INVARIANT EmitEdit
CHECK_DEADLOCK FALSE
