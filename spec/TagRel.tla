------------------------------- MODULE TagRel -------------------------------
(***************************************************************************)
(* X12 (extra) -- the query and I/O layer of debian.debtags as RELATION    *)
(* ALGEBRA over finite relations between names.  Pure operators only (no   *)
(* variables): TagQuery.tla (object histories: values, sharing classes and *)
(* the aliasing of set objects), TagCases.tla (tables of answers) and      *)
(* TraceTagQuery.tla (validation of recorded executions) all use them.     *)
(*                                                                         *)
(* A MAP is a function from a finite set of names (its keys) to sets of    *)
(* names: the package -> tags dictionary, the tag -> packages dictionary,  *)
(* or any dictionary handed to the module functions reverse() / output().  *)
(* A COLLECTION (debtags.DB) is a record [f, b] of two maps: f = db        *)
(* (package -> tags), b = rdb (tag -> packages).  A collection filled by   *)
(* read() is CONSISTENT: b = MConv(f), the converse relation; reverse()    *)
(* swaps the maps (an untagged package becomes a key of b without pairs),  *)
(* a caller that mutates a set it was handed changes one map only: the     *)
(* operators below are therefore defined on ANY pair of maps.              *)
(*                                                                         *)
(* A text line of the tag database is [pkgs, tags]: two SEQUENCES of names *)
(* (a name may be written twice); a line without package (blank line) is   *)
(* skipped.  How a line is spelled (white space after the colon, missing   *)
(* colon for an untagged package, "\r\n", missing final newline, several   *)
(* packages of equal tag set on one line) is a matter of the concrete      *)
(* syntax and does not change [pkgs, tags]: harness/debtags_x12.py rotates *)
(* over the spellings.  The text WRITTEN for a map is one line             *)
(*      key ": " v1 ", " v2 ... "\n"                                       *)
(* per key, keys and values each exactly once, in any order (OutputOK).    *)
(*                                                                         *)
(* Unspecified (see the STATEMENT in harness/props/x12.py):                *)
(*   * a package named on two data lines of one input (ReadOK);            *)
(*   * tags_of_packages / packages_of_tags of two or more names whose sets *)
(*     differ: the docstrings say "all" (intersection), the code unites;   *)
(*     BOTH readings are offered (mode "u" / "i") and either is accepted,  *)
(*     likewise ideal_tagset, which is built on packages_of_tags;          *)
(*   * correlations() when a tag is carried by every package while another *)
(*     tag exists (the score divides by the number of packages WITHOUT the *)
(*     pivot: CorrDefined), relevance of a tag the full collection lacks;  *)
(*   * choose_packages_copy of an absent package (KeyError as built, where *)
(*     choose_packages skips it);                                          *)
(*   * facet_collection on tags that are not of the form facet::name, and  *)
(*     the tag -> packages map of its result (built by DB.insert: open     *)
(*     finding C20-insert-chars) -- the result is tracked "fwd" only.      *)
(***************************************************************************)
EXTENDS Integers, Sequences, FiniteSets, SequencesExt, TLC

----------------------------------------------------------------------------
\* maps
NoMap        == <<>>
MAt(m, k)    == IF k \in DOMAIN m THEN m[k] ELSE {}
MVals(m)     == UNION {m[k] : k \in DOMAIN m}
MPairs(m)    == UNION {{<<k, v>> : v \in m[k]} : k \in DOMAIN m}
\* the converse relation as a map: module function reverse(db); keys without pairs vanish
MConv(m)     == [v \in MVals(m) |-> {k \in DOMAIN m : v \in m[k]}]
MOnly(m, S)  == [k \in (DOMAIN m) \cap S |-> m[k]]
MPut(m, k, s) == [x \in (DOMAIN m) \cup {k} |-> IF x = k THEN s ELSE m[x]]
\* a JSON object {key: [values]} as a map
MOfJson(j)   == [k \in DOMAIN j |-> ToSet(j[k])]

Coll(f, b)   == [f |-> f, b |-> b]
NoColl       == Coll(NoMap, NoMap)
Consistent(d) == d.b = MConv(d.f)

----------------------------------------------------------------------------
\* reading: parse_tags, read_tag_database, read_tag_database_reversed, read_tag_database_both_ways, DB.read
LinePk(ln)   == ToSet(ln.pkgs)
LineTg(ln)   == ToSet(ln.tags)
DataLines(lines) == {i \in 1..Len(lines) : lines[i].pkgs # <<>>}
\* parse_tags yields one (set of packages, set of tags) per data line, in order
ParseTags(lines) == [i \in 1..Cardinality(DataLines(lines)) |->
                        LET ln == SelectSeq(lines, LAMBDA x : x.pkgs # <<>>)[i]
                        IN [pkgs |-> LinePk(ln), tags |-> LineTg(ln)]]
ReadOK(lines) == \A i, j \in DataLines(lines) : i # j => LinePk(lines[i]) \cap LinePk(lines[j]) = {}
\* package -> tags; `drop` = the tags a tag_filter rejects ({} without filter)
RdFwd(lines, drop) ==
   LET I == DataLines(lines)
       P == UNION {LinePk(lines[i]) : i \in I}
   IN [p \in P |-> LineTg(lines[CHOOSE i \in I : p \in LinePk(lines[i])]) \ drop]
RdBwd(lines, drop)  == MConv(RdFwd(lines, drop))
RdBoth(lines, drop) == Coll(RdFwd(lines, drop), RdBwd(lines, drop))

\* writing: the lines output(m) prints, as entries [k |-> key, v |-> sequence of values]
EntryKeys(es)  == {es[i].k : i \in 1..Len(es)}
OutputOK(m, es) ==
   /\ Len(es) = Cardinality(DOMAIN m)                        \* one line per key
   /\ EntryKeys(es) = DOMAIN m
   /\ \A i \in 1..Len(es) : /\ ToSet(es[i].v) = m[es[i].k]
                            /\ Len(es[i].v) = Cardinality(m[es[i].k])     \* every value once
\* a key list (iter_packages, iter_tags): every key once
KeysOK(S, ks)  == ToSet(ks) = S /\ Len(ks) = Cardinality(S)
\* the lines of a written map, read again
LinesOf(m)     == LET ks == SetToSeq(DOMAIN m) IN [i \in 1..Len(ks) |-> [pkgs |-> <<ks[i]>>, tags |-> SetToSeq(m[ks[i]])]]

----------------------------------------------------------------------------
\* predicates handed to filter_packages_tags: they see (package, tags)
\* pred = [k |-> kind, s |-> sequence of names, n |-> number]
PTHolds(pred, pkg, tags) ==
   CASE pred.k = "has"     -> pred.s[1] \in tags                  \* lambda pt: t in pt[1]
     [] pred.k = "hasnt"   -> pred.s[1] \notin tags               \* lambda pt: t not in pt[1]
     [] pred.k = "sup"     -> ToSet(pred.s) \subseteq tags        \* lambda pt: query.issubset(pt[1])
     [] pred.k = "pkgin"   -> pkg \in ToSet(pred.s)               \* lambda pt: pt[0] in S
     [] pred.k = "atleast" -> Cardinality(tags) >= pred.n         \* lambda pt: len(pt[1]) >= n

----------------------------------------------------------------------------
\* derivations: collection -> collection
DerivOps  == {"reverse", "copy", "reverse_copy", "choose", "choose_copy", "filter_p", "filter_p_copy",
              "filter_pt", "filter_pt_copy", "filter_t", "filter_t_copy", "facet", "dump_read", "rdump_read"}
\* ... documented as SHARING the sets of the receiver / as returning an independent collection
SharingOps == {"reverse", "choose", "filter_p", "filter_pt", "filter_t"}
\* ... that look at the package -> tags map only (the result is complete even when b is not tracked)
FwdOps     == {"choose", "choose_copy", "filter_p", "filter_p_copy", "filter_pt", "filter_pt_copy", "dump_read"}

DKeepPk(d, S) == LET f == MOnly(d.f, S) IN Coll(f, MConv(f))
DKeepTg(d, S) == LET b == MOnly(d.b, S) IN Coll(MConv(b), b)
\* ft: tag -> facet (a table: how a tag is cut at its first colon is concrete syntax)
DFacet(ft, d) == LET f == [k \in DOMAIN d.f |-> {ft[t] : t \in d.f[k]}] IN Coll(f, MConv(f))
FacetOK(ft, d) == MVals(d.f) \subseteq DOMAIN ft

\* c = [op, s (sequence of names: chosen / accepted keys), pred]
Derive(ft, d, c) ==
   CASE c.op = "reverse"                       -> Coll(d.b, d.f)
     [] c.op = "reverse_copy"                  -> Coll(d.b, d.f)
     [] c.op = "copy"                          -> d
     [] c.op \in {"choose", "choose_copy"}     -> DKeepPk(d, ToSet(c.s))
     [] c.op \in {"filter_p", "filter_p_copy"} -> DKeepPk(d, ToSet(c.s))      \* s: the keys the filter accepts
     [] c.op \in {"filter_pt", "filter_pt_copy"} -> DKeepPk(d, {k \in DOMAIN d.f : PTHolds(c.pred, k, d.f[k])})
     [] c.op \in {"filter_t", "filter_t_copy"} -> DKeepTg(d, ToSet(c.s))
     [] c.op = "facet"                         -> DFacet(ft, d)
     [] c.op = "dump_read"                     -> RdBoth(LinesOf(d.f), {})   \* the text of dump() read again
     [] c.op = "rdump_read"                    -> RdBoth(LinesOf(d.b), {})   \* the text of dump_reverse() read again
DeriveOK(ft, d, c) ==
   CASE c.op = "choose_copy" -> ToSet(c.s) \subseteq DOMAIN d.f
     [] c.op = "facet"       -> FacetOK(ft, d)
     [] OTHER                -> TRUE

\* how much of a collection the specification determines: "full", "fwd" (f only), "none"
TrkAfter(tk, op) ==
   IF tk = "none" THEN "none"
   ELSE IF op = "facet" THEN "fwd"
   ELSE IF tk = "full" THEN "full"
   ELSE IF op \in FwdOps THEN "full"           \* tk = "fwd"
   ELSE IF op = "copy" THEN "fwd"
   ELSE "none"

\* what was written is read back: relation and key sets survive
LawDumpRead(d)  == Derive(NoMap, d, [op |-> "dump_read"]).f = d.f
LawRDumpRead(d) == Derive(NoMap, d, [op |-> "rdump_read"]).f = d.b

----------------------------------------------------------------------------
\* a caller mutates a set it was handed (tags_of_package / packages_of_tag / an item of the iter_ methods):
\* how \in {"add", "discard", "clear"}; an absent key hands out a fresh empty set: nothing changes
MutSet(s, how, e) == CASE how = "add" -> s \cup {e} [] how = "discard" -> s \ {e} [] how = "clear" -> {}
Mutate(d, side, k, how, e) ==
   IF side = "f" THEN (IF k \in DOMAIN d.f THEN Coll(MPut(d.f, k, MutSet(d.f[k], how, e)), d.b) ELSE d)
   ELSE (IF k \in DOMAIN d.b THEN Coll(d.f, MPut(d.b, k, MutSet(d.b[k], how, e))) ELSE d)

----------------------------------------------------------------------------
\* queries
Min2(x, y)    == IF x <= y THEN x ELSE y
QCard(d, t)   == Cardinality(MAt(d.b, t))
QDiscr(d, t)  == Min2(QCard(d, t), Cardinality(DOMAIN d.f) - QCard(d, t))
\* tags_of_packages / packages_of_tags: mode "u" (as built: union) or "i" (as documented: "all")
Combine(m, S, mode) == IF mode = "u" THEN UNION {MAt(m, k) : k \in S}
                       ELSE {v \in UNION {MAt(m, k) : k \in S} : \A k \in S : v \in MAt(m, k)}

\* ideal_tagset(tags): scores are compared exactly: score(x) = (x - 15)^2 / x for x > 0
ScoreLT(x, y) == (x - 15) * (x - 15) * y < (y - 15) * (y - 15) * x       \* score(x) < score(y)
ScoreOK(x)    == (x - 15) * (x - 15) < 3 * x                             \* score(x) < 3
\* mult: every package stands for `mult` packages of equal tag set (blow-up of a small case)
QIdealM(d, ts, mode, mult) ==
   LET n       == Len(ts)
       cardAt  == [i \in 1..n |-> mult * Cardinality(Combine(d.b, {ts[j] : j \in 1..i}, mode))]
       zeros   == {i \in 1..n : cardAt[i] = 0}
       stop    == IF zeros = {} THEN n + 1 ELSE CHOOSE i \in zeros : \A j \in zeros : i <= j
       good    == {i \in 1..(stop - 1) : ScoreOK(cardAt[i])}
       \* the loop keeps the FIRST prefix that reaches the lowest score
       best    == CHOOSE i \in good : \A j \in good : /\ ~ ScoreLT(cardAt[j], cardAt[i])
                                                      /\ (j < i => ScoreLT(cardAt[i], cardAt[j]))
   IN IF good = {} THEN (IF n = 0 THEN {} ELSE {ts[1]}) ELSE {ts[j] : j \in 1..best}
QIdeal(d, ts, mode) == QIdealM(d, ts, mode, 1)

\* correlations(): for every pivot tag and every other tag met on a package carrying the pivot:
\* [p, t, n1/d1 - n2/d2]: share of the packages with the pivot that carry t, minus the share among the others
With(d, pv)     == {k \in DOMAIN d.f : pv \in d.f[k]}
CorrTags(d, pv) == (UNION {d.f[k] : k \in With(d, pv)}) \ {pv}
CorrDefined(d)  == \A pv \in DOMAIN d.b : CorrTags(d, pv) # {} => (DOMAIN d.f) \ With(d, pv) # {}
QCorr(d) == UNION {{ LET w  == With(d, pv)
                         wo == (DOMAIN d.f) \ w
                     IN [p |-> pv, t |-> t,
                         n1 |-> Cardinality({k \in w : t \in d.f[k]}),  d1 |-> Cardinality(w),
                         n2 |-> Cardinality({k \in wo : t \in d.f[k]}), d2 |-> Cardinality(wo)]
                     : t \in CorrTags(d, pv)} : pv \in DOMAIN d.b}
\* an observed score num/den (lowest terms not required) equals n1/d1 - n2/d2
CorrScoreIs(c, num, den) == num * (c.d1 * c.d2) = (c.n1 * c.d2 - c.n2 * c.d1) * den

\* relevance_index_function(full, sub)(tag) = sub.card(tag)^2 / full.card(tag)
RelDefined(full, t) == QCard(full, t) > 0
QRel(full, sub, t)  == [n |-> QCard(sub, t) * QCard(sub, t), d |-> QCard(full, t)]

\* the queries that read the tag -> packages map (not answered for a collection tracked "fwd")
BwdQueries == {"has_tag", "packages_of_tag", "packages_of_tags", "card", "discriminance", "iter_tags",
               "iter_tags_packages", "tag_count", "ideal_tagset", "correlations", "dump_reverse", "relevance"}
=============================================================================
