----------------------------- MODULE ArMember -----------------------------
(***************************************************************************)
(* C06 -- ar members are exact, isolated, file-like views of the archive.  *)
(*                                                                         *)
(* Two layers.  The abstract layer is ArMemberRef (independent (data, pos) *)
(* per member with io.BytesIO semantics, plus the index).  This module     *)
(* adds the implementation layer transcribed from lib/debian/arfile.py:    *)
(*                                                                         *)
(*  arch   the archive as ONE flat sequence of cells [own, i, b]:          *)
(*         global header ("!<arch>" "\n"), then per member k a header      *)
(*         (two cells: the fields of header k, and the magic ending in a   *)
(*         newline like "`\n"), the data cells [own |-> k, i |-> j, b |->  *)
(*         byte], and a pad newline after an odd size.  own = 0 marks      *)
(*         structure cells.                                                *)
(*  fp     positions of the file objects: fp[0] is the object the index    *)
(*         walk reads (and, in mode "shared", the ONE object all members   *)
(*         share); fp[m] is member m's private object in mode "byname"     *)
(*         (ArFile(filename=...): re-opened lazily, -1 = not open).        *)
(*  pc, table, byname   ArFile.__collect_members / ArMember.from_file:     *)
(*         Global (check "!<arch>\n"), Header (read 60 bytes = 2 cells;    *)
(*         nothing -> done; short / bad magic -> error; else append the    *)
(*         member with offset = fp.tell(), members_dict[name] = member),   *)
(*         Skip (seek size, +1 if odd).                                    *)
(*  cur    ArMember.__cur (absolute); __offset/__end come from table.      *)
(*                                                                         *)
(* Every member action is  abstract action /\ implementation update, the   *)
(* latter following the statements of read / readline / readlines / seek / *)
(* tell (fp.seek(cur); underlying read/readline; clamp; cur = fp.tell()).  *)
(* The index steps stutter in the abstract layer except the last one       *)
(* (Header at end of file), which is AOpen.                                *)
(*                                                                         *)
(* Checked by TLC (closed state space => histories of any length):         *)
(*   Refines     tell() of every member = abstract position (invariant),   *)
(*   SameResult  every call returns exactly the cells the BytesIO layer    *)
(*               returns (the result half of DESIGN's `Refines`; results   *)
(*               are outputs hidden by the VIEW, so this is an action      *)
(*               property, checked on every transition),                   *)
(*   Isolation   every returned cell belongs to the called member,         *)
(*   IndexExact  the member table equals the abstract index, offsets are   *)
(*               the true data offsets, byname = last member of the name.  *)
(*                                                                         *)
(* Negative controls (design decisions switched to a defect; tried, TLC    *)
(* reports the violation; run by harness/props/c06.py):                    *)
(*   ClampReadline = FALSE  readline as before commit f810caf (underlying  *)
(*                  readline unclamped, b'' when it overran): Refines /    *)
(*                  SameResult violated by a single readline() on a last   *)
(*                  line without newline;                                  *)
(*   PadOdd = FALSE         index walk forgets the pad byte: IndexExact;   *)
(*   SeekFirst = FALSE      calls do not fp.seek(cur) first: SameResult /  *)
(*                  Isolation violated through the shared file position    *)
(*                  by interleaving two members.                           *)
(*                                                                         *)
(* Iteration: __iter__ as repaired in commit 225a5e1 (`while line: yield   *)
(* line; line = self.readline()`) is IterYieldsAll = TRUE and refines the  *)
(* reference (every remaining line).  Negative control, run in every       *)
(* check: IterYieldsAll = FALSE (the old `if line: yield line`, ONE line   *)
(* per iterator) makes TLC report Refines / SameResult violated by a       *)
(* single list(member) on a member with two lines.  The reference keeps    *)
(* the switch IterSingleLine (FALSE everywhere): it would re-admit the old *)
(* outcome as a named deviation and is never enabled now that              *)
(* known_findings.json lists C06-iter-single-line as fixed.                *)
(*                                                                         *)
(* Kinds of file object.  ArFile(fileobj=f) accepts ANY seekable binary     *)
(* file object; what the index walk and the members may rely on is the     *)
(* byte STREAM f presents (read / readline / seek / tell), modelled by     *)
(* arch and fp.  A file object moreover may or may not have an operating   *)
(* system descriptor underneath (fileno()), and that descriptor need not   *)
(* name the stream: fdk is the relation between the two --                 *)
(*   "none"  no descriptor (io.BytesIO, a member of a tar / zip container, *)
(*           a buffered reader over a raw stream without fileno()),        *)
(*   "same"  the descriptor is a regular file holding exactly the stream   *)
(*           (open(path, "rb") buffered or not, a spooled temporary file), *)
(*   "less"  the descriptor names a SMALLER file (gzip.GzipFile /          *)
(*           bz2.BZ2File / lzma.LZMAFile over the compressed archive),     *)
(*   "more"  the descriptor names a LARGER file (a window into a container *)
(*           file, a compressed copy of a tiny / incompressible archive).  *)
(* FdSize is what os.fstat(f.fileno()).st_size would say (-1: no           *)
(* descriptor).  The code never looks at it and neither does this model:   *)
(* IndexExact, Refines, SameResult and Isolation hold for every fdk.  The  *)
(* INDEX cases of the index configuration are emitted per (archive, mode,  *)
(* fdk) as IOPEN lines and the harness hands the real ArFile a file object *)
(* of that class.  By-name archives are opened by ArFile itself: "same".   *)
(* Negative control (run in every check): TrustFd = TRUE (the index walk   *)
(* rejects a member whose data would end beyond FdSize -- a "truncated     *)
(* archive" check that asks the descriptor for the size) makes TLC report  *)
(* IndexExact violated for fdk = "less".                                   *)
(*                                                                         *)
(* Faults of the caller's file object ("Faults", SIZE_STRESS part 5).  The  *)
(* file object handed to ArFile(fileobj=f) is the caller's: its seek / read *)
(* / readline / tell may raise at any step of a call.  FaultOne / FaultLines*)
(* transcribe what read() / readline() / readlines() leave behind when that *)
(* happens (the exception leaves before __cur is assigned; the file object  *)
(* is wherever it got to) and TLC checks that the model still refines the   *)
(* reference, whose AFault says: the position is unchanged (one-step calls) *)
(* or behind the k lines already consumed (readlines / iteration), nothing  *)
(* else changed -- so that every later call is an ordinary one.  Negative   *)
(* control (run in every check): CommitAfterRead = FALSE (the position is   *)
(* committed BEFORE the underlying read has succeeded) violates Refines.    *)
(*                                                                         *)
(* Where the archive starts.  ArFile(fileobj=f) reads from the CURRENT       *)
(* position of f: ar data embedded behind a prefix (a self-extracting stub, *)
(* a container record, an earlier archive) is handed over as a file object  *)
(* positioned at `base` > 0.  arch is the whole stream of f: base prefix    *)
(* cells (they look like a global header: a reader that rewinds f meets a   *)
(* decoy), then the archive.  The index walk starts at fp[0] = base and the *)
(* member offsets are ABSOLUTE positions of f (offset = fp.tell() behind    *)
(* the header), because every later call does fp.seek(cur).  Bases = the    *)
(* prefix lengths explored (by name the archive is the file: base = 0);     *)
(* IOPEN lines carry base, the harness hands ArFile a real file object of   *)
(* the kind positioned behind a prefix of that class (0 / odd / even).      *)
(* Negative control (run in every check): TellOffsets = FALSE (offsets from *)
(* a running count that takes the global header for byte 0 of f) lists the  *)
(* members correctly but shifts every data window: IndexExact violated.     *)
(*                                                                         *)
(* Results belong to the caller.  getnames() builds a new list per call    *)
(* (GetNames; FreshLists = TRUE, the code), so a caller editing a list it  *)
(* was handed (CallerEdits = ACallerEdits of the reference: no action of   *)
(* the archive) cannot change a later answer: NamesExact (every getnames() *)
(* = the reference's ANames) is checked on every transition.  Negative     *)
(* control (run in every check): FreshLists = FALSE (one memoised list,    *)
(* handed out again and again) violates NamesExact after one edit.         *)
(* getmembers() / .members of the code under test hand out the INTERNAL    *)
(* list (documented "same as getmembers()", read-only by convention): a    *)
(* caller editing THAT list does change later answers on the unchanged     *)
(* tree -- reported to the lead, executed as a diagnostic only (c06.py).   *)
(*                                                                         *)
(* This module is about ONE archive whose file does not change.  What      *)
(* happens when the process opens several archives under the same path     *)
(* name (file rewritten / renamed into place, earlier members left         *)
(* unclosed) is the companion module ArMemberProc.tla.                     *)
(***************************************************************************)
EXTENDS ArMemberRef

CONSTANTS Modes,           \* subset of {"shared", "byname"}
          ClampReadline, PadOdd, SeekFirst,
          IterYieldsAll,   \* TRUE: __iter__ as repaired (225a5e1); FALSE: the old single-line generator
          FdKinds,         \* subset of {"none", "same", "less", "more"}: what is underneath a shared file object
          TrustFd,         \* FALSE: the size of the descriptor is never consulted (the code); TRUE: negative control
          CommitAfterRead, \* TRUE: __cur is taken from fp.tell() AFTER the underlying read (the code); FALSE: negative control
          Bases,           \* prefix lengths (cells in front of the global header in the caller's file object) explored
          TellOffsets,     \* TRUE: member offsets are fp.tell() behind the header (the code); FALSE: negative control
          FreshLists       \* TRUE: getnames() builds a new list per call (the code); FALSE: negative control

VARIABLES arch, mode, fdk, pc, table, byname, cur, fp, ret, base, ncache

ivars == <<arch, mode, fdk, pc, table, byname, cur, fp, ret, base, ncache>>
vars  == <<rvars, ivars>>

GL == 2     \* cells of the global header
HL == 2     \* cells of a member header
HFIELDS == 104
HGLOBAL == 33

Cell(o, i, b) == [own |-> o, i |-> i, b |-> b]
GCells     == <<Cell(0, 0, HGLOBAL), Cell(0, 0, NL)>>
HCells(k)  == <<Cell(0, k, HFIELDS), Cell(0, k, NL)>>
DCells(a, k) == [j \in 1..Len(a[k].data) |-> Cell(k, j, a[k].data[j])]
PCells(a, k) == IF Len(a[k].data) % 2 = 1 THEN <<Cell(0, 0, NL)>> ELSE <<>>
RECURSIVE ArchUpTo(_, _)
ArchUpTo(a, k) == IF k = 0 THEN GCells
                  ELSE ArchUpTo(a, k - 1) \o HCells(k) \o DCells(a, k) \o PCells(a, k)
\* what is in front of the archive in the caller's file object: b cells that look like (decoy) global headers
PreCells(b)   == [j \in 1..b |-> Cell(0, 0, IF j % 2 = 1 THEN HGLOBAL ELSE NL)]
ArchOf(a)     == ArchUpTo(a, Len(a))
StreamOf(a, b) == PreCells(b) \o ArchOf(a)
TrueOff(a, k) == Len(ArchUpTo(a, k - 1)) + HL      \* 0-based offset of the first data byte of member k IN THE ARCHIVE
NoCache == <<0 - 1>>                               \* no names list memoised

\* ---- the underlying file object: read(n) / readline(lim) at 0-based position p
FRead(p, n) == SubSeq(arch, p + 1, Lo(p + n, Len(arch)))
RECURSIVE FLineLen(_, _)
FLineLen(p, lim) == IF p >= Len(arch) \/ lim = 0 THEN 0
                    ELSE IF arch[p + 1].b = NL THEN 1
                    ELSE 1 + FLineLen(p + 1, IF lim < 0 THEN lim ELSE lim - 1)
FReadLine(p, lim) == SubSeq(arch, p + 1, p + FLineLen(p, lim))

----------------------------------------------------------------------------
\* what os.fstat(f.fileno()).st_size says about the file object the index walk reads (-1: no descriptor)
FdSize == CASE fdk = "none" -> 0 - 1
            [] fdk = "same" -> Len(arch)
            [] fdk = "less" -> Len(arch) \div 2
            [] fdk = "more" -> Len(arch) + 1

IRes(k, v, n) == [k |-> k, v |-> v, n |-> n]
NoRet == IRes("-", <<>>, 0)

Init == /\ RInit
        /\ mode \in Modes
        /\ fdk \in (IF mode = "byname" THEN {"same"} ELSE FdKinds)
        /\ base \in (IF mode = "byname" THEN {0} ELSE Bases)
        /\ arch = StreamOf(mem, base)
        /\ ncache = NoCache
        /\ pc = "global"
        /\ table = <<>>
        /\ byname = [nm \in Names |-> 0]
        /\ cur = [m \in 1..MaxMembers |-> 0]
        /\ fp = [h \in 0..MaxMembers |-> IF h = 0 THEN base ELSE -1]     \* the file object is handed over AT base
        /\ ret = NoRet

SetFp(h, p) == fp' = [fp EXCEPT ![h] = p]

\* ---- ArFile.__collect_members
Global == /\ pc = "global"
          /\ LET buf == FRead(fp[0], GL) IN
             /\ pc' = IF buf = GCells THEN "header" ELSE "error"
             /\ SetFp(0, fp[0] + Len(buf))
          /\ UNCHANGED <<rvars, arch, mode, fdk, table, byname, cur, ret, base, ncache>>

\* ArMember.from_file + append + members_dict[name] = member
Header == /\ pc = "header"
          /\ LET buf == FRead(fp[0], HL) IN
             IF buf = <<>>                         \* end of archive: the index is complete
             THEN /\ pc' = "ready" /\ AOpen
                  /\ (Emit => PrintT(<<"IOPEN", ToJson([a |-> mem, mode |-> mode, fd |-> fdk, base |-> base])>>))
                  /\ SetFp(0, IF mode = "shared" THEN fp[0] ELSE -1)     \* by name: `with open(...)` closes it
                  /\ UNCHANGED <<table, byname, cur>>
             ELSE IF Len(buf) < HL \/ buf[1].own # 0 \/ buf[1].b # HFIELDS \/ buf[HL] # Cell(0, buf[1].i, NL)
             THEN /\ pc' = "error"                 \* IOError: header length / file magic
                  /\ SetFp(0, fp[0] + Len(buf))
                  /\ UNCHANGED <<rvars, table, byname, cur>>
             ELSE IF TrustFd /\ FdSize >= 0 /\ fp[0] + HL + Len(mem[buf[1].i].data) > FdSize
             THEN /\ pc' = "error"                 \* negative control: "member extends past the end of the file"
                  /\ SetFp(0, fp[0] + HL)
                  /\ UNCHANGED <<rvars, table, byname, cur>>
             ELSE LET k   == buf[1].i              \* the fields of header k
                      off == IF TellOffsets THEN fp[0] + HL      \* fp.tell() after the header
                             ELSE fp[0] - base + HL               \* (running count from the global header = "byte 0")
                      new == [name |-> mem[k].name, size |-> Len(mem[k].data), id |-> k, off |-> off]
                  IN /\ pc' = "skip"
                     /\ SetFp(0, off)
                     /\ table' = Append(table, new)
                     /\ byname' = [byname EXCEPT ![new.name] = Len(table) + 1]
                     /\ cur' = [cur EXCEPT ![Len(table) + 1] = off]
                     /\ UNCHANGED rvars
          /\ UNCHANGED <<arch, mode, fdk, ret, base, ncache>>

Skip == /\ pc = "skip"
        /\ LET sz == table[Len(table)].size IN
           SetFp(0, fp[0] + (IF sz % 2 = 0 \/ ~PadOdd THEN sz ELSE sz + 1))
        /\ pc' = "header"
        /\ UNCHANGED <<rvars, arch, mode, fdk, table, byname, cur, ret, base, ncache>>

----------------------------------------------------------------------------
\* ---- ArMember file interface
H(m)   == IF mode = "shared" THEN 0 ELSE m       \* the file object member m uses
Off(m) == table[m].off
End(m) == table[m].off + table[m].size
\* position of the file object when the underlying read starts: the code does fp.seek(cur)
\* (after lazily opening the file at 0 in by-name mode)
P0(m, c, f) == IF SeekFirst THEN c ELSE IF f < 0 THEN 0 ELSE f

\* one call of read(size); result [buf, cur, fp]
RdStep(m, c, f, size) ==
   LET p == P0(m, c, f) IN
   IF size > 0 /\ size <= End(m) - c                    \* "there's room"
   THEN LET b == FRead(p, size) IN [buf |-> b, cur |-> p + Len(b), fp |-> p + Len(b)]
   ELSE IF c >= End(m) \/ c < Off(m) THEN [buf |-> <<>>, cur |-> c, fp |-> p]
   ELSE LET b == FRead(p, End(m) - c) IN [buf |-> b, cur |-> p + Len(b), fp |-> p + Len(b)]

\* one call of readline(size) (lim < 0 stands for None and for negative sizes: same branch)
RlStep(m, c, f, lim) ==
   LET p == P0(m, c, f) IN
   IF ClampReadline
   THEN IF c >= End(m) \/ c < Off(m) THEN [buf |-> <<>>, cur |-> c, fp |-> p]
        ELSE LET rem == End(m) - c
                 sz  == IF lim < 0 \/ lim > rem THEN rem ELSE lim
                 b   == FReadLine(p, sz)
             IN [buf |-> b, cur |-> p + Len(b), fp |-> p + Len(b)]
   ELSE \* before f810caf: buf = fp.readline(size); cur = fp.tell(); if cur > end: return b''
        LET b == FReadLine(p, lim)  nc == p + Len(b)
        IN [buf |-> IF nc > End(m) THEN <<>> ELSE b, cur |-> nc, fp |-> nc]

\* readlines(): while True: buf = self.readline(); if not buf: break; lines.append(buf)
RECURSIVE RlLoop(_, _, _, _)
RlLoop(m, c, f, acc) == LET r == RlStep(m, c, f, -1)
                        IN IF r.buf = <<>> THEN [lines |-> acc, cur |-> r.cur, fp |-> r.fp]
                           ELSE RlLoop(m, r.cur, r.fp, Append(acc, r.buf))

IApply(m, r, newcur, newfp) ==
   /\ pc = "ready"
   /\ ret' = r
   /\ cur' = [cur EXCEPT ![m] = newcur]
   /\ SetFp(H(m), newfp)
   /\ UNCHANGED <<arch, mode, fdk, pc, table, byname, base, ncache>>

IRd(m, size) == LET r == RdStep(m, cur[m], fp[H(m)], size) IN IApply(m, IRes("b", <<r.buf>>, 0), r.cur, r.fp)
IRl(m, lim)  == LET r == RlStep(m, cur[m], fp[H(m)], lim)  IN IApply(m, IRes("b", <<r.buf>>, 0), r.cur, r.fp)
IRls(m)      == LET r == RlLoop(m, cur[m], fp[H(m)], <<>>) IN IApply(m, IRes("l", r.lines, 0), r.cur, r.fp)
\* seek(offset, whence): does not touch the file object
ISeek(m, off, wh) ==
   LET c1 == IF cur[m] < Off(m) THEN Off(m) ELSE cur[m] IN
   IF wh < 2 /\ off + c1 < Off(m)
   THEN IApply(m, IRes("IOError", <<>>, 0), c1, fp[H(m)])
   ELSE IApply(m, IRes("z", <<>>, 0),
               CASE wh = 1 -> c1 + off [] wh = 0 -> Off(m) + off [] wh = 2 -> End(m) + off,
               fp[H(m)])
ITell(m) == IApply(m, IRes("t", <<>>, IF cur[m] < Off(m) THEN 0 ELSE cur[m] - Off(m)), cur[m], fp[H(m)])

Read(m)          == ARead(m)         /\ IRd(m, 0)          \* read(): the default argument is size=0
ReadN(m, n)      == AReadN(m, n)     /\ IRd(m, n)
ReadLine(m)      == AReadLine(m)     /\ IRl(m, -1)         \* readline(): size=None
ReadLineN(m, n)  == AReadLineN(m, n) /\ IRl(m, n)
ReadLines(m)     == AReadLines(m)    /\ IRls(m)
\* readlines(sizehint): the argument is ignored ("pylint: disable=unused-argument")
ReadLinesHint(m, h) == AReadLinesHint(m, h, Len(BLineSpans(D(m), pos[m]))) /\ IRls(m)
\* __iter__: `line = self.readline(); while line: yield line; line = self.readline()` = the readlines
\* loop (IterYieldsAll, the code since 225a5e1); before that `if line: yield line` -- ONE line per
\* iterator (IterYieldsAll = FALSE, kept as the negative control)
IIter(m) == IF IterYieldsAll THEN IRls(m)
            ELSE LET r == RlStep(m, cur[m], fp[H(m)], -1)
                 IN IApply(m, IRes("l", IF r.buf = <<>> THEN <<>> ELSE <<r.buf>>, 0), r.cur, r.fp)
\* the reference outcome the implementation is held to: every line, unless the deviation is enabled
Iter(m) == LET n == Len(BLineSpans(D(m), pos[m])) IN
           AIter(m, IF IterSingleLine /\ ~IterYieldsAll THEN Lo(1, n) ELSE n) /\ IIter(m)
Seek(m, off, wh) == ASeek(m, off, wh) /\ ISeek(m, off, wh)
\* ---- the caller's file object raises during a call (see "Faults" in the header): at fp.seek(cur), at the
\* underlying read / readline, or at the fp.tell() after it.  The exception leaves read() / readline() before
\* `self.__cur = self.__fp.tell()` is assigned: __cur is unchanged, the file object is left wherever it got to.
FaultPts == {"seek", "read", "tell"}
OneSteps(m) == {RdStep(m, cur[m], fp[H(m)], n) : n \in RdSizes \cup {0}}
               \cup {RlStep(m, cur[m], fp[H(m)], lim) : lim \in RlSizes \cup {-1}}
FaultOne(m) == /\ AFault(m, "one", 0)
               /\ \E pt \in FaultPts, r \in OneSteps(m) :
                     IApply(m, IRes("x", <<>>, 0),
                            IF CommitAfterRead \/ pt = "seek" THEN cur[m] ELSE r.cur,
                            CASE pt = "seek" -> (IF fp[H(m)] < 0 THEN 0 ELSE fp[H(m)])
                              [] pt = "read" -> P0(m, cur[m], fp[H(m)])
                              [] pt = "tell" -> r.fp)
\* readlines() / __iter__: k readline() calls succeeded (each committed its position), the next one raised
RECURSIVE RlLoopK(_, _, _, _)
RlLoopK(m, c, f, k) == IF k = 0 THEN [cur |-> c, fp |-> IF f < 0 THEN 0 ELSE f]
                       ELSE LET r == RlStep(m, c, f, -1) IN RlLoopK(m, r.cur, r.fp, k - 1)
FaultLines(m, k) == /\ AFault(m, "lines", k)
                    /\ LET r == RlLoopK(m, cur[m], fp[H(m)], k) IN IApply(m, IRes("x", <<>>, 0), r.cur, r.fp)
Tell(m)          == ATell(m)         /\ ITell(m)

\* ---- getnames() and what callers do with results
NamesNow == [k \in 1..Len(table) |-> table[k].id]
GetNames == /\ ANames /\ pc = "ready"
            /\ IF FreshLists THEN /\ ret' = IRes("n", <<NamesNow>>, 0) /\ UNCHANGED ncache
               ELSE LET l == IF ncache = NoCache THEN NamesNow ELSE ncache
                    IN ret' = IRes("n", <<l>>, 0) /\ ncache' = l
            /\ UNCHANGED <<arch, mode, fdk, pc, table, byname, cur, fp, base>>
\* the caller edits in place the list it was handed: its own list (the code) / the memoised one (negative control)
CallerEdits == /\ ACallerEdits /\ pc = "ready"
               /\ IF FreshLists \/ ncache = NoCache THEN UNCHANGED ncache
                  ELSE \/ ncache # <<>> /\ ncache' = Tail(ncache)
                       \/ Len(ncache) <= MaxMembers /\ ncache' = Append(ncache, 0)
                       \/ ncache' = [k \in 1..Len(ncache) |-> ncache[Len(ncache) + 1 - k]]
               /\ UNCHANGED <<arch, mode, fdk, pc, table, byname, cur, fp, ret, base>>

Next == \/ Global \/ Header \/ Skip \/ GetNames \/ CallerEdits
        \/ \E m \in 1..Len(mem) :
              \/ Read(m) \/ ReadLine(m) \/ ReadLines(m) \/ Tell(m)
              \/ \E n \in RdSizes \cup {-1} : ReadN(m, n)
              \/ \E n \in RlSizes \cup {-1} : ReadLineN(m, n)
              \/ \E wh \in 0..2, off \in (0 - SeekMax)..SeekMax : Seek(m, off, wh)
              \/ \E h \in Hints : ReadLinesHint(m, h)
              \/ Iter(m)
              \/ FaultOne(m)
              \/ \E k \in 0..(MaxData + 1) : FaultLines(m, k)

Spec == Init /\ [][Next]_vars
\* ret, aret, aidx, am are outputs
ImplView == <<mem, opened, pos, mode, fdk, pc, table, byname, cur, fp, base, ncache>>

----------------------------------------------------------------------------
TypeOK == /\ RTypeOK
          /\ pc \in {"global", "header", "skip", "ready", "error"}
          /\ mode \in Modes
          /\ fdk \in {"none", "same", "less", "more"} /\ (mode = "byname" => fdk = "same")
          /\ \A h \in 0..MaxMembers : fp[h] \in -1..(Len(arch) + SeekMax)     \* seeking a file past its end is legal
          /\ base \in Bases \cup {0} /\ (mode = "byname" => base = 0)
          /\ arch = StreamOf(mem, base)

\* the member table is exact: right members, right order, true offsets, last-of-name lookup
Entry(k) == [name |-> mem[k].name, size |-> Len(mem[k].data), id |-> k, off |-> base + TrueOff(mem, k)]
IndexExact ==
   /\ pc # "error"
   /\ Len(table) <= Len(mem)
   /\ \A k \in 1..Len(table) : table[k] = Entry(k)
   /\ \A nm \in Names : byname[nm] = LastNamed(SubSeq(mem, 1, Len(table)), nm)
   /\ (pc = "ready") = opened
   /\ pc = "ready" =>
        /\ Len(table) = Len(mem)
        /\ aidx.members = [k \in 1..Len(table) |-> [name |-> table[k].name, size |-> table[k].size, id |-> table[k].id]]
        /\ aidx.last = [k \in 1..Len(table) |-> byname[table[k].name]]

\* tell() of every member is the abstract position (also for members not touched by the last call)
Refines == pc = "ready" =>
                \A m \in 1..Len(mem) : (IF cur[m] < Off(m) THEN 0 ELSE cur[m] - Off(m)) = pos[m]

\* the implementation returned exactly the cells the reference returned
Proj(r, m) == [k |-> r.k,
               v |-> [a \in 1..Len(r.v) |-> [j \in 1..Len(r.v[a]) |-> IF r.v[a][j].own = m THEN r.v[a][j].i ELSE 0]],
               n |-> r.n]
SameResult == [][(pc' = "ready" /\ am' # 0 /\ ret'.k # "n") => Proj(ret', am') = aret']_vars
\* every getnames() answers what the reference's ANames answers, whatever callers did to earlier answers
NamesExact == [][ret'.k = "n" => (aret'.k = "n" /\ ret'.v = aret'.v)]_vars
\* no cell outside the member is ever returned
Isolation  == [][ret'.k # "n" => \A a \in 1..Len(ret'.v) : \A j \in 1..Len(ret'.v[a]) : ret'.v[a][j].own = am']_vars
=============================================================================
