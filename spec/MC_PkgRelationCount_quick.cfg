\* C13 count dimension (quick): ONE list level of the grammar -- conjunction, alternatives, architecture list,
\* restriction groups, terms of a group -- has Counts items, at the first / a middle / the last position of its
\* surroundings; 256 / 257 / 258 are the neighbourhood of a byte-sized bound, 300 and 1000 lie beyond it
CONSTANTS
  MaxConj = 0
  MaxAlt = 0
  MaxAtoms = 0
  MaxArch = 0
  MaxGroups = 0
  MaxTerms = 0
  OpIds = {}
  CtxKinds = {}
  Emit = TRUE
  RestrictionsFirst = FALSE
  IgnoreNegation = FALSE
  PipeFirst = FALSE
  FormatInKeyOrder = FALSE
  SplitLimit = 0
  LimitedSplits = {}
  KeyOrders <- OneKeyOrder
  Levels = {"conj", "alt", "arch", "groups", "terms"}
  Counts = {256, 257, 258, 300, 1000}
  Positions = {1, 2, 3}
SPECIFICATION CSpec
INVARIANT CountProps
CHECK_DEADLOCK FALSE
