--------------------------- MODULE TraceUtilCont ---------------------------
(***************************************************************************)
(* X15 -- trace validation: histories recorded from real LinkedListNode /  *)
(* LinkedList / OrderedSet / _CaseInsensitiveString objects (harness/      *)
(* props/x15.py) are explained by the pure operator UCall of UtilCont.tla. *)
(* A trace is a sequence of events starting from the empty world; an event *)
(* is a call record (UtilCont.NoCall's fields) plus                        *)
(*   res  what the call returned / raised, in the vocabulary of UCall       *)
(*   obs  everything observable on ALL objects after the call: per list    *)
(*        the forward walk (lst), the backward walk (bwd), len() (size),   *)
(*        head_node / tail_node (head, tail), bool() (truth); the free     *)
(*        chains the recorder holds (ch); previous_node / next_node of     *)
(*        every live node (links); the value of every node (val); per      *)
(*        ordered set iteration, reversed() and len() (os, orev, olen).    *)
(* Node ids are given by the recorder to the objects in order of first     *)
(* appearance: a call that returns an object it should have created but    *)
(* that already has an id is outside the domain (FreshOK) and the trace is *)
(* rejected.  Values and spellings are interned ids (TLC needs equality    *)
(* only): the size / character stress of the payloads is free here.        *)
(* With IOEnv.KNOWN_SOLE / KNOWN_EMPICK = "1" (open findings, KNOWN in     *)
(* x15.py) an event that only the as-built behaviour explains is accepted  *)
(* with a <<"REJECT", tid, finding, l>> note; after a "corrupt" event the  *)
(* recorder has thrown its objects away and the trace ends.                *)
(***************************************************************************)
EXTENDS UtilCont, IOUtils, TLCExt

Traces      == JsonDeserialize(IOEnv.TRACE_FILE)
Diag        == IOEnv.TRACE_DIAG = "1"
KnownSole   == IOEnv.KNOWN_SOLE = "1"
KnownEmpick == IOEnv.KNOWN_EMPICK = "1"

VARIABLES tid, tl, ust

Tr == Traces[tid]
Chk(P) == P = TRUE

TInit == /\ tid \in 1..Len(Traces)
         /\ tl = 1
         /\ ust = EmptyState(0, 0, 0, 0)

CallOf(e) == [op |-> e.op, l |-> e.l, m |-> e.m, x |-> e.x, y |-> e.y, v |-> e.v, vs |-> e.vs, f |-> e.f,
              i |-> e.i, k |-> e.k, a |-> e.a, b |-> e.b, as |-> e.as]

ObsOK(st, o) ==
    /\ o.lst = st.lst
    /\ Len(o.bwd) = Len(st.lst) /\ Len(o.size) = Len(st.lst) /\ Len(o.head) = Len(st.lst)
    /\ Len(o.tail) = Len(st.lst) /\ Len(o.truth) = Len(st.lst)
    /\ \A l \in DOMAIN st.lst : LET sh == ListShape(st, l) IN
           /\ o.bwd[l] = sh.bwd /\ o.size[l] = sh.size /\ o.head[l] = sh.head /\ o.tail[l] = sh.tail
           /\ o.truth[l] = sh.truth
    /\ ToSet(o.ch) = st.ch /\ Len(o.ch) = Cardinality(st.ch)
    /\ ToSet(o.links) = Links(st)
    /\ o.val = st.val
    /\ o.os = st.os
    /\ Len(o.orev) = Len(st.os) /\ Len(o.olen) = Len(st.os)
    /\ \A s \in DOMAIN st.os : o.orev[s] = Reverse(st.os[s]) /\ o.olen[s] = Len(st.os[s])

\* a call refused by an assertion may as well be refused with ValueError; hash() of two objects that need not be the
\* same dict key is not specified
ResMatch(c, mr, er) == \/ REq(mr, er)
                       \/ (mr.t = "err" /\ er.t = "err" /\ mr.x = "Refused" /\ er.x \in {"Refused", "ValueError"})
                       \/ (c.op = "shash" /\ mr.t = "bool" /\ er.t = "bool" /\ mr.x = 0)

\* the as-built result R("corrupt", y) is a call that returned node y as if nothing was wrong
KnownMatch(kr, er) == \/ (kr.t = "corrupt" /\ er.t = "node" /\ er.x = kr.x)
                      \/ (kr.t = "broken" /\ er.t = "broken")

TStep == /\ tl <= Len(Tr)
         /\ LET e  == Tr[tl]
                c  == CallOf(e)
            IN /\ Chk(InDomain(ust, c))
               /\ LET so == UCall(ust, StmtFlags, c) IN
                  IF ResMatch(c, so.r, e.res) /\ ObsOK(so.st, e.obs)
                  THEN /\ ust' = so.st /\ tl' = tl + 1
                       /\ (tl' = Len(Tr) + 1 => PrintT(<<"ACCEPTED", tid>>))
                  ELSE IF c.op \in Piecewise /\ so.r.t = "err" /\ ResMatch(c, so.r, e.res) /\ ObsOK(ust, e.obs)
                  THEN /\ ust' = ust /\ tl' = tl + 1           \* a failed extend() that added nothing is accepted as well
                       /\ (tl' = Len(Tr) + 1 => PrintT(<<"ACCEPTED", tid>>))
                  ELSE LET ko == UCall(ust, Flags(KnownSole, KnownEmpick), c) IN
                       /\ Chk(KnownMatch(ko.r, e.res))
                       /\ Chk(ko.r.t = "corrupt" \/ ObsOK(ko.st, e.obs))
                       /\ ust' = ko.st
                       /\ tl' = IF ko.r.t = "corrupt" THEN Len(Tr) + 1 ELSE tl + 1
                       /\ PrintT(<<"REJECT", tid, IF ko.r.t = "corrupt" THEN "X15-sole-node-accepted"
                                                  ELSE "X15-empty-pickle-protocol-0-1", tl>>)
                       /\ (tl' = Len(Tr) + 1 => PrintT(<<"ACCEPTED", tid>>))
         /\ UNCHANGED tid
         /\ (Diag => PrintT(<<"AT", tid, tl>>))

TSpec == TInit /\ [][TStep]_<<tid, tl, ust>>
\* the reference state stays well-formed along every observed execution
TWellFormed == StateOK(ust)
=============================================================================
