--------------------------- MODULE StockFormatMC ---------------------------
(***************************************************************************)
(* X17 -- every token stream of up to MaxInp tokens (at most one invalid   *)
(* token) x separator x name length x form: InvLayout (the statement of    *)
(* StockFormat.tla) and CASE lines with the verdict and the exact pieces   *)
(* for the replay through format_field, through the generator itself and   *)
(* through reformat_when_finished() of the list views.                     *)
(***************************************************************************)
EXTENDS StockFormat, Json

CONSTANTS MaxInp, NameLens, Emit

VARIABLE sfinp

Flavours == {<<"V", "w">>, <<"V", "ww">>, <<"V", "hw">>, <<"V", "lead">>, <<"V", "trail">>,
             <<"C", "ok">>, <<"C", "nohash">>, <<"C", "nonl">>, <<"S", "s">>}
Seps  == {"sp", "cm", "tab", "semi"}
Forms == {"list", "iter"}
NBad(inp) == Cardinality({i \in 1..Len(inp) : BadTok(inp[i])})

SfInit == sfinp = <<>>
SfNext == /\ Len(sfinp) < MaxInp
          /\ \E f \in Flavours : /\ sfinp' = Append(sfinp, <<f[1], f[2], Len(sfinp) + 1>>)
                                 /\ NBad(sfinp') <= 1
SfSpec == SfInit /\ [][SfNext]_sfinp

InvLayout == \A form \in Forms : \A sep \in Seps : \A nl \in NameLens : LayoutLaw(form, nl, sep, sfinp)
InvEmit == Emit => \A form \in Forms : \A sep \in Seps : \A nl \in NameLens :
              PrintT(<<"CASE", ToJson([form |-> form, sep |-> sep, nl |-> nl, inp |-> sfinp, r |-> FFOut(form, nl, sep, sfinp)])>>)
ASSUME TokLaw
ASSUME Emit => \A c \in TokCases : PrintT(<<"TOK", ToJson([how |-> c[1], tc |-> c[2], q |-> TokProps(c[1], c[2])])>>)
=============================================================================
