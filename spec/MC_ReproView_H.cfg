CONSTANTS
  Names = {1, 2, 3}
  Start <- StartS
  MaxParas = 9
  EditFields = TRUE
  SetVals = {}
  SetSpells = {"L"}
  Ops = {}
  Emit = FALSE
  WViews <- W4
  RViews <- W4
  XVals <- XSmall
  RawVals <- RawSmall
  SimpleVals <- SimpleAll
  CLists <- CLSmall
  Modes <- ModesSmall
  MaxW = 2
  XOps = {"get", "has", "kv", "set", "del", "raw", "simple", "cmt", "val"}
  Bugs <- NoBugs
  Neg = ""
SPECIFICATION XSpec
INVARIANT StoredValid
INVARIANT ReadAgree
INVARIANT ReadShape
INVARIANT XNoEmptyPara
PROPERTY RoundTrip
PROPERTY Supplies
PROPERTY Rejects
PROPERTY CommentKept
PROPERTY ArResolves
PROPERTY ArRefuses
PROPERTY XErrAtomic
PROPERTY Frame
PROPERTY ViewsShare
VIEW XView
CHECK_DEADLOCK FALSE
