---------------------------- MODULE MultiValued ----------------------------
(***************************************************************************)
(* C12 -- structured multi-line fields (debian.deb822._multivalued and its *)
(* users Dsc, Changes, BuildInfo, PdiffIndex, Release).                    *)
(*                                                                         *)
(* A paragraph object of class cls holds, for a SUBSET of the class's      *)
(* structured fields, a non-empty list of records; a record has one        *)
(* whitespace-free token per documented sub-field.  A token is             *)
(*        [id |-> identity, len |-> number of characters]                  *)
(* (two tokens are the same text iff they have the same id); only the      *)
(* length of the "size" token matters for the layout.                      *)
(*                                                                         *)
(*   Build   assigns a record list to an absent structured field           *)
(*   Dump    = Widths ; Write, as in the code (_fixed_field_lengths, then   *)
(*           get_as_string per field).  Widths computes the width of the   *)
(*           size column of every PRESENT structured field; Write writes   *)
(*           these fields: one line per record, each sub-field preceded by *)
(*           one space, the size right-aligned to the width of the field   *)
(*             Release, apt-ftparchive : 16 characters "regardless"        *)
(*             Release, dak            : the longest size of THAT field    *)
(*             PdiffIndex              : the longest size of THAT field    *)
(*             Dsc, Changes, BuildInfo : no padding                        *)
(*           a line of the output is a sequence of cells                   *)
(*             [pad |-> blanks before the token, id, len]                  *)
(*   Parse   splits every line on runs of whitespace and zips the tokens   *)
(*           with the documented sub-field names                           *)
(*   Load    the parsed paragraph is again an object that can be dumped    *)
(*   AppendRec / SetSize / Assign / Delete                                 *)
(*           the life cycle is a HISTORY: after a dump the object is still *)
(*           there and its record lists are plain mutable lists: a record  *)
(*           may be appended or the size of a record replaced IN PLACE     *)
(*           (obj[f].append(rec), obj[f][r]['size'] = s), a list replaced  *)
(*           by assignment, a field deleted; then it is dumped again.  The *)
(*           design recomputes the width table at EVERY dump, so all the   *)
(*           invariants speak about the CURRENT records.  Records are      *)
(*           POSITIONS of a list: two records with equal content (the same *)
(*           line twice) are still two records, an in-place edit changes   *)
(*           one position only (EditIsLocal) -- also when the object was   *)
(*           obtained by parsing (start.origin = "parsed").                *)
(*   SetBeh / OtherSet                                                     *)
(*           size_field_behavior is state of ONE object (opt.beh; a fresh  *)
(*           Release starts at the documented default apt-ftparchive,      *)
(*           opt.set = FALSE).  OtherSet is a step of ANOTHER live object  *)
(*           (of class c: created if need be, its behaviour set to v,      *)
(*           dumped): it changes nothing of the object under observation,  *)
(*           whose next dump must still follow its own records and option. *)
(*   SetBehFails                                                           *)
(*           an ILLEGAL value assigned to size_field_behavior is rejected  *)
(*           (the caller catches the exception): the option keeps its      *)
(*           value, every later dump is what it would have been.           *)
(*   Reorder                                                               *)
(*           the paragraph is an ordered, CASE-INSENSITIVE mapping; its    *)
(*           public re-ordering operations -- sort_fields() with the       *)
(*           default key or a key function, order_first / order_last(f),   *)
(*           order_before / order_after(f, g) -- may be called at any time *)
(*           between building / parsing and dumping.  The ORDER of the     *)
(*           fields is not part of this model (the text of a dump is a     *)
(*           function field -> lines: the statement of C12 is free of the  *)
(*           order of the fields, which is C09's subject); Reorder is      *)
(*           described by what it must NOT change: the records, the        *)
(*           option, and the way the key set answers look-ups.  The latter *)
(*           is state (fold: field -> "the stored key still compares       *)
(*           case-insensitively"): the class's width computation asks      *)
(*           `key in self` with its own lower-case table keys while every  *)
(*           documented field name contains upper-case letters, and        *)
(*           obj[f] / del obj[f] / f in obj are asked in any spelling.     *)
(*           Only fields the look-up finds (Visible) get a width and can   *)
(*           be edited or deleted; the design keeps fold TRUE everywhere   *)
(*           (KeysFold), so Visible = the present fields.  Field 0 stands  *)
(*           for a field outside the tables (Origin, Source ...: context   *)
(*           the binding adds), which may be moved or serve as reference.  *)
(*                                                                         *)
(*   Refused                                                               *)
(*           a call on the living object that is REFUSED is an ordinary    *)
(*           step of a history: order_before / order_after(f, g) with an   *)
(*           ABSENT reference g (an optional structured field the          *)
(*           paragraph lacks, or an unknown name), an absent item f, or    *)
(*           f = g; order_first / order_last(absent); del obj[absent];     *)
(*           obj[absent]; and the calls that fail through an object the    *)
(*           CALLER supplies (notes/SIZE_STRESS.md part 5):                *)
(*           sort_fields(key) whose key function raises / returns          *)
(*           incomparable keys for one field, dump(fd) whose fd.write      *)
(*           raises at the k-th call, cls(file / iterator) that raises     *)
(*           after some lines.  The caller catches the exception and       *)
(*           carries on.  The statement knows no operation that makes a    *)
(*           present structured field disappear except deleting or         *)
(*           replacing it, so a refused call changes NOTHING (error        *)
(*           atomicity): records, option, look-ups (fold) and the set of   *)
(*           fields a dump writes (linked: field -> "the key is still      *)
(*           reached by iterating over the paragraph"; dump() writes the   *)
(*           fields it iterates over, obj[f] / f in obj go through the     *)
(*           look-up table).  Fields: 0 = a present field outside the      *)
(*           tables, 99 = an absent field outside the tables.              *)
(*           RefusedUnlinksFirst = TRUE switches in "unlink the item,      *)
(*           THEN look up the reference": after order_before(present,      *)
(*           absent) the item is still answered by look-ups but no longer  *)
(*           written: DumpExplains / RecordsRoundTrip are violated         *)
(*           (MC_MultiValued_neg_refused.cfg).                             *)
(*                                                                         *)
(* The width computation needs the records of a field only where the width *)
(* depends on them (PdiffIndex; Release with dak).  The design iterates    *)
(* over the PRESENT fields.  IterateAllFields = TRUE switches in what the  *)
(* code did before commit 78e977a (iterate over all fields the class       *)
(* knows, look each one up): Dump then answers "KeyError" as soon as one   *)
(* structured field is absent and TLC reports DumpTotal violated           *)
(* (MC_MultiValued_neg_iterate.cfg; with the classes that do not look at   *)
(* the records -- MC_MultiValued_neg_iterate_ok.cfg -- it still holds,     *)
(* which is exactly the scope of the historical defect).  A second         *)
(* negative control, SplitEverySpace = TRUE, makes Parse split at every    *)
(* single blank (line.split(' ')) so that the padding of the size column   *)
(* produces empty tokens: RecordsRoundTrip is violated                     *)
(* (MC_MultiValued_neg_split.cfg).  A third one, CacheWidths = TRUE,       *)
(* remembers the width table of the first dump until a field is assigned   *)
(* or deleted (but not when a list is changed in place): after an in-place *)
(* growth of the longest size TLC reports WidthRule violated               *)
(* (MC_MultiValued_neg_cache.cfg).  SharedEqualRecords = TRUE lets records *)
(* parsed from identical lines be ONE object (an in-place edit of one      *)
(* position shows at every position with the same content): EditIsLocal is *)
(* violated (MC_MultiValued_neg_shared.cfg).  ClassLevelOption = TRUE      *)
(* keeps size_field_behavior in one place for all Release objects (the     *)
(* last value set on ANY object wins, fresh objects do not start at the    *)
(* default): WidthTable is violated (MC_MultiValued_neg_classopt.cfg).     *)
(* StoreBeforeValidate = TRUE lets a rejected assignment leave the illegal *)
(* value behind: the next dump of a paragraph with a structured field      *)
(* raises, DumpTotal is violated (MC_MultiValued_neg_storefirst.cfg).      *)
(* ReorderStoresPlainKeys = TRUE lets a re-ordering operation store the    *)
(* keys it moves as plain strings: the class's own look-ups no longer find *)
(* them, the size column is written unpadded and WidthTable is violated    *)
(* (MC_MultiValued_neg_plainkeys.cfg).                                     *)
(* All were tried; props/c12.py re-runs                                    *)
(* IterateAllFields and one of CacheWidths, SharedEqualRecords,            *)
(* ClassLevelOption, StoreBeforeValidate, ReorderStoresPlainKeys,          *)
(* RefusedUnlinksFirst in every quick check, all of them                   *)
(* and the other two configurations in the thorough tier,                  *)
(* and fails (exit 2) if TLC stops reporting the violation.                *)
(*                                                                         *)
(* Size dimension (notes/SIZE_STRESS.md): the model is abstract in the     *)
(* number of records and in the length of every token except the size; the *)
(* width table depends only on the SET of size lengths of a field.  The    *)
(* binding therefore may replicate the records of a CASE (10/100/1000      *)
(* records, identical or fresh copies: a copy has the layout of its        *)
(* original line) and choose any length for digests and names without      *)
(* changing what the model expects; sizes of up to 25 digits (2^31, 2^63,  *)
(* leading zeros) and of 33, 40, 64, 65, 80, 81 characters (beyond every   *)
(* documented width) are shapes of the model.                              *)
(*                                                                         *)
(* The single-line form (the only record of a field written on the header  *)
(* line, "SHA1-Current: <hash> <size>", exposed as ONE mapping instead of  *)
(* a list) is what real pdiff Index files use and what the code supports   *)
(* explicitly; it is modelled as form = "single" (exactly one record).     *)
(* Its padding is not part of the statement: PdiffIndex does not pad it,   *)
(* Release/apt-ftparchive pads it to 16; Release/dak + single-line is      *)
(* UNSPECIFIED (MUnspecified; today: TypeError).                           *)
(*                                                                         *)
(* Sizes LONGER than the width.  The documented width is a MINIMUM width   *)
(* of the column: "apt-ftparchive makes the field 16 characters long       *)
(* regardless" (of the sizes present), tokens are never truncated (the     *)
(* records must round-trip), so a size token of 17, 18, 40, 80 ...         *)
(* characters in a Release/apt-ftparchive field is written in full after   *)
(* the ONE separating blank -- pad = 1 + max(0, w - len), MLine -- and the *)
(* other lines of the field are still padded to 16.  (Until round 7 this   *)
(* case was left unspecified; the only other reading -- the column grows   *)
(* to the longest size -- is what "dak" is for and contradicts             *)
(* "regardless".)  With "dak" / PdiffIndex the width IS the longest size,  *)
(* whatever it is (below, at and far beyond 16: 15, 16, 17, 40, 80, with   *)
(* more than 64 blanks of padding for the short sizes next to it).         *)
(*                                                                         *)
(* Pure operators are prefixed M and free of variables (re-used by         *)
(* TraceMultiValued.tla).                                                  *)
(*                                                                         *)
(* Bounded enumeration.  A TLC run explores several MODES (chosen in       *)
(* Init; the definitions are at the end of the module): a mode fixes the   *)
(* classes, the shapes (= list of size lengths, <= 2 records, or the       *)
(* single-line form) Build may assign, whether all fields of a paragraph   *)
(* get the same shape, and a bound on the number of present fields.        *)
(* Every mode is explored to a fixed point:                                *)
(*   subsets  every class x EVERY subset of its structured fields          *)
(*            (PdiffIndex: 2^14, in a TLC run of its own) x uniform shapes *)
(*   records  one present field x every record list of <= 2 records with   *)
(*            sizes of 1..18 characters, and sizes that reach and exceed   *)
(*            every documented width (ShapesWide: 15, 16, 17, 40, 64, 65,  *)
(*            80, 81 next to short ones)                                   *)
(*   pairs    <= 2 present fields with independent shapes (width is per    *)
(*            field)                                                       *)
(*   full4    the classes with 4 fields: every subset x independent shapes *)
(*   hist*    histories: <= 2 mutations of the record lists (append / size *)
(*            in place / assign / delete), a dump after each               *)
(*   alias    PARSED paragraphs whose lists hold the same record 2 or 3    *)
(*            times, in-place edits of one position                        *)
(*   live     the object's own size_field_behavior (set, re-set, untouched  *)
(*            default) interleaved with steps of OTHER live objects        *)
(*            (Release with either behaviour, PdiffIndex, Changes, Dsc),   *)
(*            also before the object is created                            *)
(*   refuse   refused calls (Refused) before the first dump and between    *)
(*            dumps, mixed with in-place edits and deletions, on built and *)
(*            on parsed paragraphs with absent optional fields             *)
(* Parse prints one CASE line per explored paragraph (expected layout,     *)
(* widths, names) for props/c12.py to replay into the real classes.        *)
(***************************************************************************)
EXTENDS Naturals, Sequences, FiniteSets, SequencesExt, FiniteSetsExt, TLC, Json

CONSTANTS Tables,            \* class -> <<[f |-> field name, subs |-> <<sub-field names>>], ...>>  (<- DocTables)
          Modes,             \* set of mode records (see the end of the module)
          IterateAllFields,  \* negative control: width computation iterates over ALL fields of the class
          SplitEverySpace,   \* negative control: Parse splits at every blank
          CacheWidths,       \* negative control: the width table of the first dump is kept until a field is assigned/deleted
          SharedEqualRecords,\* negative control: records parsed from identical lines are one shared object
          ClassLevelOption,  \* negative control: size_field_behavior is shared by all Release objects
          StoreBeforeValidate, \* negative control: a rejected size_field_behavior value is stored nevertheless
          ReorderStoresPlainKeys, \* negative control: a re-ordering operation stores the moved keys as plain (case-sensitive) strings
          RefusedUnlinksFirst, \* negative control: a relative re-ordering unlinks the item before it looks up the (absent) reference
          Emit,              \* print CASE lines (and the tables)
          EmitOff            \* rotates the sample of the modes with emitmod > 1 (set from the seed)

VARIABLES mode,              \* the enumeration mode: [name, uniform, maxf, heavy, emitmod, maxmut, flimit]
          cls,               \* class of the object under observation
          start,             \* how it was made: [beh, set, origin ("built" from records | "parsed" from text)] (never changes)
          opt,               \* [beh |-> its size_field_behavior ("-": not a Release), set |-> assigned explicitly?,
                             \*  shared |-> last value assigned on ANY Release object (read only if ClassLevelOption)]
          shape,             \* the uniform shape (NoShape when the mode is not uniform)
          para,              \* field index -> [form, recs]: the structured fields PRESENT in the object
          phase,             \* "build" | "widths" | "dumped" | "parsed"
          widths,            \* output of Widths: field index -> width of the size column (0: not padded)
          text,              \* output of Dump: field index -> [form, lines]
          parsed,            \* result of Parse: field index -> [form, recs of <<[n |-> name, t |-> token]>>]
          res,               \* outcome of Dump: "ok" | "KeyError" | "ValueError"
          nmut,              \* number of mutations applied to the object so far
          hist,              \* modes with maxmut > 0: the history (dumps with their expected layout, mutations)
          cache,             \* [valid, w]: remembered width table (always NoCache unless CacheWidths)
          fold,              \* present field -> its stored key compares case-insensitively (always TRUE unless ReorderStoresPlainKeys)
          linked             \* present field -> its key is reached by iteration, i.e. written by dump() (always TRUE unless RefusedUnlinksFirst)

vars == <<mode, cls, start, opt, shape, para, phase, widths, text, parsed, res, nmut, hist, cache, fold, linked>>
beh  == opt.beh      \* the documented behaviour of this object

----------------------------------------------------------------------------
(* The five class tables, transcribed from the "Multivalued fields" lists   *)
(* of the module docstring of debian/deb822.py (Dsc, Release, Changes,      *)
(* PdiffIndex).  BuildInfo is not listed there: its table follows          *)
(* deb-buildinfo(5) (Checksums-Md5/-Sha1/-Sha256: checksum, size, file      *)
(* name; Checksums-Sha512 by analogy) with the sub-field naming of the     *)
(* other classes (md5 for the Md5 column as in the class).  props/c12.py   *)
(* compares all tables with the class attributes and records differences.  *)
Fld(name, subs) == [f |-> name, subs |-> subs]
Csum(name, h)   == Fld(name, <<h, "size", "name">>)
PdHalf(P, h)    == << Fld(P \o "-Current", <<h, "size">>),
                      Fld(P \o "-History", <<h, "size", "date">>),
                      Fld(P \o "-Patches", <<h, "size", "date">>),
                      Fld(P \o "-Download", <<h, "size", "filename">>),
                      Fld("X-Unmerged-" \o P \o "-History", <<h, "size", "date">>),
                      Fld("X-Unmerged-" \o P \o "-Patches", <<h, "size", "date">>),
                      Fld("X-Unmerged-" \o P \o "-Download", <<h, "size", "filename">>) >>
DocTables ==
  [ Dsc        |-> << Csum("Files", "md5sum"), Csum("Checksums-Sha1", "sha1"),
                      Csum("Checksums-Sha256", "sha256"), Csum("Checksums-Sha512", "sha512") >>,
    Release    |-> << Csum("MD5Sum", "md5sum"), Csum("SHA1", "sha1"),
                      Csum("SHA256", "sha256"), Csum("SHA512", "sha512") >>,
    Changes    |-> << Fld("Files", <<"md5sum", "size", "section", "priority", "name">>),
                      Csum("Checksums-Sha1", "sha1"),
                      Csum("Checksums-Sha256", "sha256"), Csum("Checksums-Sha512", "sha512") >>,
    BuildInfo  |-> << Csum("Checksums-Md5", "md5"), Csum("Checksums-Sha1", "sha1"),
                      Csum("Checksums-Sha256", "sha256"), Csum("Checksums-Sha512", "sha512") >>,
    PdiffIndex |-> PdHalf("SHA1", "SHA1") \o PdHalf("SHA256", "SHA256") ]

Apt == "apt-ftparchive"
Dak == "dak"

----------------------------------------------------------------------------
\* pure operators
MSubs(T, c, f)   == T[c][f].subs
MSizeCol(subs)   == CHOOSE i \in 1..Len(subs) : subs[i] = "size"
MHasWidth(c)     == c \in {"Release", "PdiffIndex"}
MTok(cell)       == [id |-> cell.id, len |-> cell.len]
MSizeLens(subs, recs) == {recs[r][MSizeCol(subs)].len : r \in 1..Len(recs)}

\* D3: record lists are non-empty, a record has one token per sub-field; single-line = one record
MEntryOK(subs, e) == /\ e.form \in {"multi", "single"}
                     /\ Len(e.recs) >= 1
                     /\ e.form = "single" => Len(e.recs) = 1
                     /\ \A r \in 1..Len(e.recs) : Len(e.recs[r]) = Len(subs)

\* the width of the size column of one field; 0 = the class does not pad this field
MWidth(c, b, subs, e) ==
    IF c = "Release" THEN (IF b = Apt THEN 16 ELSE Max(MSizeLens(subs, e.recs)))
    ELSE IF c = "PdiffIndex" THEN (IF e.form = "single" THEN 0 ELSE Max(MSizeLens(subs, e.recs)))
    ELSE 0
\* ... is promised by the statement only here:
\* (also when a size is LONGER than the 16 of Release/apt-ftparchive: that token is written in full,
\*  unpadded, the others are padded to 16 -- see MLine)
MWidthSpecified(c, b, subs, e) ==
    /\ MHasWidth(c) /\ e.form = "multi"
MUnspecified(c, b, p) == c = "Release" /\ b = Dak /\ \E f \in DOMAIN p : p[f].form = "single"

\* does the width computation have to look at the records of the fields it iterates over?
MTouches(c, b)  == c = "PdiffIndex" \/ (c = "Release" /\ b = Dak)
MDumpRes(c, b, present, iter) == IF c = "Release" /\ b \notin {Apt, Dak} /\ present # {} THEN "ValueError"   \* (only reachable with StoreBeforeValidate)
                                 ELSE IF MTouches(c, b) /\ ~(iter \subseteq present) THEN "KeyError" ELSE "ok"

MLine(rec, subs, w) ==
    [i \in 1..Len(subs) |->
        [pad |-> 1 + (IF subs[i] = "size" /\ w > rec[i].len THEN w - rec[i].len ELSE 0),
         id  |-> rec[i].id, len |-> rec[i].len]]
MWidthTable(T, c, b, p) == [f \in DOMAIN p |-> MWidth(c, b, MSubs(T, c, f), p[f])]
MFieldText(subs, e, w)  == [form |-> e.form, lines |-> [r \in 1..Len(e.recs) |-> MLine(e.recs[r], subs, w)]]
MCanonText(T, c, p, ws) == [f \in DOMAIN p |-> MFieldText(MSubs(T, c, f), p[f], ws[f])]

\* str.split(): runs of whitespace separate, leading whitespace is ignored.
\* (negative control: split(' ') yields an empty token for every additional blank)
MEmptyTok == [id |-> 0, len |-> 0]
MSplit(line, everySpace) ==
    IF ~everySpace THEN [i \in 1..Len(line) |-> MTok(line[i])]
    ELSE FlattenSeq([i \in 1..Len(line) |->
            [k \in 1..(IF i = 1 THEN line[i].pad ELSE line[i].pad - 1) |-> MEmptyTok] \o <<MTok(line[i])>>])
MZip(subs, toks) == [i \in 1..(IF Len(subs) < Len(toks) THEN Len(subs) ELSE Len(toks)) |-> [n |-> subs[i], t |-> toks[i]]]
MParseField(subs, ft, everySpace) ==
    [form |-> ft.form, recs |-> [r \in 1..Len(ft.lines) |-> MZip(subs, MSplit(ft.lines[r], everySpace))]]
MUntagRec(prec)  == [i \in 1..Len(prec) |-> prec[i].t]
MNames(prec)     == [i \in 1..Len(prec) |-> prec[i].n]
MUntag(pp)       == [f \in DOMAIN pp |-> [form |-> pp[f].form, recs |-> [r \in 1..Len(pp[f].recs) |-> MUntagRec(pp[f].recs[r])]]]

\* "the text ft is a rendering of the entry e": same tokens in the same order, separated by
\* blanks; the size column as wide as the class documents (where the statement promises it)
MExplainsField(c, b, subs, e, ft, widthToo) ==
    /\ ft.form = e.form
    /\ Len(ft.lines) = Len(e.recs)
    /\ \A r \in 1..Len(e.recs) :
          /\ Len(ft.lines[r]) = Len(e.recs[r])
          /\ \A i \in 1..Len(e.recs[r]) :
                /\ MTok(ft.lines[r][i]) = e.recs[r][i]
                /\ ft.lines[r][i].pad >= (IF e.form = "single" /\ i = 1 THEN 0 ELSE 1)
                /\ (widthToo /\ subs[i] = "size" /\ MWidthSpecified(c, b, subs, e)) =>
                      LET w == MWidth(c, b, subs, e) n == e.recs[r][i].len
                      IN  ft.lines[r][i].pad = 1 + (IF w > n THEN w - n ELSE 0)
MExplains(T, c, b, p, t, widthToo) ==
    /\ DOMAIN t = DOMAIN p
    /\ \A f \in DOMAIN p : MExplainsField(c, b, MSubs(T, c, f), p[f], t[f], widthToo)

MExt(p, f, e) == [g \in DOMAIN p \cup {f} |-> IF g = f THEN e ELSE p[g]]

\* records of the bounded configurations: distinct tokens; digests have the length of their
\* kind, the size token the length the shape says, free tokens (names, dates ...) some length
MKindLen(s) == CASE s \in {"md5sum", "md5"} -> 32 [] s \in {"sha1", "SHA1"} -> 40
                 [] s \in {"sha256", "SHA256"} -> 64 [] s = "sha512" -> 128 [] OTHER -> 0
MMkRecsOff(subs, sizes, off) ==
    [r \in 1..Len(sizes) |-> [i \in 1..Len(subs) |->
        [id  |-> off + (r - 1) * Len(subs) + i,
         len |-> IF subs[i] = "size" THEN sizes[r]
                 ELSE IF MKindLen(subs[i]) > 0 THEN MKindLen(subs[i]) ELSE 3 + 4 * r + i]]]
MMkRecs(subs, sizes) == MMkRecsOff(subs, sizes, 0)
\* a shape with dup = TRUE: every record is the SAME content as the first one (identical lines)
MMkRecsD(subs, sh, off) == IF sh.dup THEN [r \in 1..Len(sh.sizes) |-> MMkRecsOff(subs, <<sh.sizes[1]>>, off)[1]]
                           ELSE MMkRecsOff(subs, sh.sizes, off)
MPairs(rec) == [i \in 1..Len(rec) |-> <<rec[i].id, rec[i].len>>]

RECURSIVE MEndCol(_, _)
MEndCol(line, i) == IF i = 0 THEN 0 ELSE MEndCol(line, i - 1) + line[i].pad + line[i].len
MMask(S) == FoldSet(LAMBDA f, acc : acc + 2 ^ (f - 1), 0, S)

----------------------------------------------------------------------------
NoShape == [form |-> "none", sizes |-> <<>>, dup |-> FALSE]
NoCache == [valid |-> FALSE, w |-> <<>>]
\* (the mode's small attributes are carried in the state: TLC re-evaluates Modes on every use)
ModeDef      == CHOOSE m \in Modes : m.name = mode.name
ModeShapes   == ModeDef.shapes
ModeMutSizes == ModeDef.mutsizes
NFields == Len(Tables[cls])
Subs(f) == MSubs(Tables, cls, f)

Init == /\ \E m \in Modes : /\ mode = [name |-> m.name, uniform |-> m.uniform, maxf |-> m.maxf,
                                        heavy |-> m.heavy, emitmod |-> m.emitmod,
                                        maxmut |-> m.maxmut, flimit |-> m.flimit]
                            /\ \E cf \in m.configs : \E o \in m.origins :
                                  LET b == IF cf[2] = "default" THEN Apt ELSE cf[2]
                                      st == cf[2] \notin {"default", "-"} IN
                                  /\ cls = cf[1]
                                  /\ start = [beh |-> b, set |-> st, origin |-> o]
                                  /\ opt = [beh |-> b, set |-> st, shared |-> b]
                            /\ shape \in (IF m.uniform THEN m.shapes ELSE {NoShape})
        /\ para = <<>> /\ phase = "build" /\ widths = <<>> /\ text = <<>> /\ parsed = <<>> /\ res = "ok"
        /\ nmut = 0 /\ hist = <<>> /\ cache = NoCache /\ fold = <<>> /\ linked = <<>>

\* obj[field] = [record, ...]  (or one mapping: single-line form)
BuildWith(f, e) == /\ phase = "build"
                   /\ f \in 1..NFields /\ f \notin DOMAIN para
                   /\ MEntryOK(Subs(f), e) = TRUE     \* ("= TRUE": evaluated as a value, not expanded on the Java stack)
                   /\ para' = MExt(para, f, e)
                   /\ fold' = MExt(fold, f, TRUE)
                   /\ linked' = MExt(linked, f, TRUE)
                   /\ cache' = NoCache
                   /\ UNCHANGED <<mode, cls, start, opt, shape, phase, widths, text, parsed, res, nmut, hist>>
\* bounded enumeration: fields are added in table order (every subset is reached exactly once),
\* before the first dump
NoDumpYet == \A i \in 1..Len(hist) : hist[i][1] = "other"
Build(f, sh) == /\ phase = "build" /\ NoDumpYet
                /\ Cardinality(DOMAIN para) < mode.maxf /\ f <= mode.flimit
                /\ \A g \in DOMAIN para : g < f
                /\ BuildWith(f, [form |-> sh.form, recs |-> MMkRecsD(Subs(f), sh, 0)])

\* one CASE line: mode, class, behaviour, "unspecified" flag, per present field
\* F: <<index, name, form, width (0: none), width promised?, names of the parsed record, lines of <<pad, id, len>>>>
\* and, in a mode with mutations, the history H: <<"dump", F>>, <<"append", f, record>>,
\* <<"setsize", f, r, token>>, <<"assign", f, records>>, <<"delete", f>> (tokens as <<id, len>>),
\* <<"setbeh", v>>, <<"other", class, v>>, <<"reorder", kind, f, g>>, <<"refused", kind, f, g>>; o / b0 / bs0: origin and option of the object at the start
CaseF(pp) ==
    LET present == SetToSortSeq(DOMAIN para, <) IN
    [k \in 1..Len(present) |->
       LET f == present[k] IN
       << f, Tables[cls][f].f, para[f].form,
          widths[f], MWidthSpecified(cls, beh, Subs(f), para[f]),
          MNames(pp[f].recs[1]),
          [r \in 1..Len(text[f].lines) |-> [i \in 1..Len(text[f].lines[r]) |->
              <<text[f].lines[r][i].pad, text[f].lines[r][i].id, text[f].lines[r][i].len>>]] >>]
CaseOf(pp, h) == [m |-> mode.name, c |-> cls, b |-> beh, u |-> MUnspecified(cls, beh, para), F |-> CaseF(pp), H |-> h,
                  o |-> start.origin, b0 |-> start.beh, bs0 |-> start.set]
\* sampling of the big modes for the replay (all cases are model-checked, the selected ones are
\* printed): in a uniform mode with emitmod = number of shapes every subset is printed with
\* exactly one shape; subsets with <= 1 present or <= 1 absent field are always printed; in a
\* mode with mutations the complete histories are printed (their prefixes are replayed with them)
ShapeNo == IF mode.uniform
           THEN LET sq == SetToSeq(ModeShapes) IN CHOOSE i \in 1..Len(sq) : sq[i] = shape
           ELSE FoldSet(LAMBDA f, acc : acc + f * (3 * FoldSet(LAMBDA n, a : a + n, 0, MSizeLens(Subs(f), para[f].recs))
                                                     + Len(para[f].recs)), 0, DOMAIN para)
\* (a checksum of the history, so that the sample of a mode with histories is spread over the paths)
StrCode(x) == CASE x = Apt -> 1 [] x = Dak -> 2 [] x = "-" -> 3 [] x = "Release" -> 4 [] x = "PdiffIndex" -> 5
                [] x = "Changes" -> 6 [] x = "Dsc" -> 7 [] OTHER -> 8
KindCode(x) == CASE x = "sort" -> 1 [] x = "sortkey" -> 2 [] x = "first" -> 3 [] x = "last" -> 4 [] x = "before" -> 5 [] OTHER -> 6
RKindCode(x) == CASE x = "before" -> 1 [] x = "after" -> 2 [] x = "first" -> 3 [] x = "last" -> 4 [] x = "delete" -> 5
                  [] x = "getitem" -> 6 [] x = "sortkey" -> 7 [] x = "dumpfault" -> 8 [] OTHER -> 9
OpCode(e) == CASE e[1] = "dump" -> 1
               [] e[1] = "append"  -> 10 + e[2] + e[3][2][2]
               [] e[1] = "setsize" -> 20 + 3 * e[2] + 7 * e[3] + e[4][2]
               [] e[1] = "assign"  -> 40 + e[2] + 5 * Len(e[3]) + e[3][1][2][2]
               [] e[1] = "delete"  -> 50 + e[2]
               [] e[1] = "setbeh"  -> 60 + StrCode(e[2])
               [] e[1] = "other"   -> 70 + 3 * StrCode(e[2]) + StrCode(e[3])
               [] e[1] = "reorder" -> 100 + 11 * KindCode(e[2]) + 5 * e[3] + 3 * e[4]
               [] e[1] = "refused" -> 300 + 13 * RKindCode(e[2]) + 5 * (e[3] % 7) + 3 * (e[4] % 11)
               [] OTHER -> 90
HistSum  == FoldSeq(LAMBDA e, acc : (acc * 31 + OpCode(e)) % 8191, 0, hist)
Sampled  == \/ mode.emitmod = 1
            \/ (((MMask(DOMAIN para) * 7919) % 8191) + ShapeNo + HistSum + EmitOff) % mode.emitmod = 0
Selected == IF mode.maxmut > 0
            THEN (nmut = mode.maxmut \/ DOMAIN para = {}) /\ Sampled
            ELSE \/ NFields > 4 /\ (Cardinality(DOMAIN para) <= 1 \/ Cardinality(DOMAIN para) >= NFields - 1)
                 \/ Sampled

\* obj.dump(), first half: the width table (this is where an absent field hurts); the design
\* computes it from the current records at every dump
\* (the width computation asks `key in self` for each of the class's lower-case table keys: it sees
\*  the fields whose stored key answers a look-up in another spelling)
Visible == {f \in DOMAIN para : fold[f]}
Listed  == [f \in {h \in DOMAIN para : linked[h]} |-> para[f]]
IterSet == IF IterateAllFields THEN 1..NFields ELSE Visible
\* the behaviour the dump goes by: the object's own option (negative control: the class-level one)
EBeh    == IF ClassLevelOption /\ cls = "Release" THEN opt.shared ELSE opt.beh
WTable  == IF CacheWidths /\ cache.valid THEN cache.w
           ELSE [f \in DOMAIN para |-> IF fold[f] THEN MWidthTable(Tables, cls, EBeh, para)[f] ELSE 0]
Widths == /\ phase = "build"
          /\ res' = MDumpRes(cls, EBeh, DOMAIN para, IterSet)
          /\ widths' = (IF res' = "ok" THEN WTable ELSE <<>>)
          /\ cache' = (IF CacheWidths /\ res' = "ok" THEN [valid |-> TRUE, w |-> WTable] ELSE cache)
          /\ phase' = "widths"
          /\ UNCHANGED <<mode, cls, start, opt, shape, para, text, parsed, nmut, hist, fold, linked>>
\* second half: every present field is written with its width
\* (a mode with heavy = FALSE goes on only with the paragraphs that are printed as CASE lines)
Write  == /\ phase = "widths" /\ res = "ok"
          /\ (IF mode.heavy THEN TRUE ELSE Selected)
          /\ text' = MCanonText(Tables, cls, Listed, widths)      \* dump() writes the fields it iterates over
          /\ phase' = "dumped"
          /\ UNCHANGED <<mode, cls, start, opt, shape, para, widths, parsed, res, nmut, hist, cache, fold, linked>>
\* both halves in one step, with t as the text written (trace validation: t = the observed text)
DumpTo(t) == /\ phase = "build"
             /\ res' = MDumpRes(cls, EBeh, DOMAIN para, IterSet)
             /\ widths' = (IF res' = "ok" THEN WTable ELSE <<>>)
             /\ cache' = (IF CacheWidths /\ res' = "ok" THEN [valid |-> TRUE, w |-> WTable] ELSE cache)
             /\ text' = (IF res' = "ok" THEN t ELSE <<>>)
             /\ phase' = "dumped"
             /\ UNCHANGED <<mode, cls, start, opt, shape, para, parsed, nmut, hist, fold, linked>>

\* cls(text): every line of every structured field becomes a record
Parse == /\ phase = "dumped" /\ res = "ok"
         /\ parsed' = [f \in DOMAIN text |-> MParseField(Subs(f), text[f], SplitEverySpace)]
         /\ phase' = "parsed" /\ text' = <<>>
         /\ hist' = (IF mode.maxmut > 0 THEN Append(hist, <<"dump", CaseF(parsed')>>) ELSE hist)
         /\ UNCHANGED <<mode, cls, start, opt, shape, para, widths, res, nmut, cache, fold, linked>>
         /\ (Emit /\ Selected) => PrintT(<<"CASE", ToJson(CaseOf(parsed', hist'))>>)

\* the parsed paragraph is an object like the one that was built: it can be dumped again
\* (not explored in a mode with heavy = FALSE: RecordsRoundTrip says the same)
Load == /\ phase = "parsed" /\ mode.heavy /\ mode.maxmut = 0
        /\ para' = MUntag(parsed)
        /\ fold' = [f \in DOMAIN parsed |-> TRUE]        \* a fresh object
        /\ linked' = [f \in DOMAIN parsed |-> TRUE]
        /\ phase' = "build" /\ widths' = <<>> /\ text' = <<>> /\ parsed' = <<>>
        /\ cache' = NoCache
        /\ UNCHANGED <<mode, cls, start, opt, shape, res, nmut, hist>>

\* ---- mutations of the object that was dumped; the next dump sees the new records
Mutable == phase \in {"dumped", "parsed"} /\ res = "ok"
AfterMut(entry) == /\ phase' = "build" /\ widths' = <<>> /\ text' = <<>> /\ parsed' = <<>>
                   /\ nmut' = nmut + 1
                   /\ hist' = (IF mode.maxmut > 0 THEN Append(hist, entry) ELSE hist)
                   /\ UNCHANGED <<mode, cls, start, shape, res>>
\* obj[field].append(record): in place
AppendRec(f, rec) == /\ Mutable /\ f \in Visible /\ para[f].form = "multi"
                     /\ Len(rec) = Len(Subs(f))
                     /\ para' = [para EXCEPT ![f].recs = Append(@, rec)]
                     /\ UNCHANGED <<cache, opt, fold, linked>>
                     /\ AfterMut(<<"append", f, MPairs(rec)>>)
\* obj[field][r]['size'] = token: in place, position r only
\* (negative control: every position of a PARSED list that holds the same content is the same object)
SetSize(f, r, tok) ==
    /\ Mutable /\ f \in Visible /\ r \in 1..Len(para[f].recs)
    /\ LET rs == para[f].recs
           hit == IF SharedEqualRecords /\ start.origin = "parsed"
                  THEN {q \in 1..Len(rs) : rs[q] = rs[r]} ELSE {r}
       IN  para' = [para EXCEPT ![f].recs = [q \in 1..Len(rs) |->
                        IF q \in hit THEN [rs[q] EXCEPT ![MSizeCol(Subs(f))] = tok] ELSE rs[q]]]
    /\ UNCHANGED <<cache, opt, fold, linked>>
    /\ AfterMut(<<"setsize", f, r, <<tok.id, tok.len>>>>)
\* obj[field] = [record, ...]: the whole list is replaced (or the field added) by assignment
Assign(f, e) == /\ Mutable /\ f \in 1..NFields /\ MEntryOK(Subs(f), e) = TRUE
                /\ para' = MExt(para, f, e)
                /\ fold' = MExt(fold, f, TRUE)
                /\ linked' = (IF f \in DOMAIN linked THEN linked ELSE MExt(linked, f, TRUE))   \* (a key that is there is not added again)
                /\ cache' = NoCache /\ UNCHANGED opt
                /\ AfterMut(<<"assign", f, [r \in 1..Len(e.recs) |-> MPairs(e.recs[r])]>>)
\* del obj[field]
Delete(f) == /\ Mutable /\ f \in Visible
             /\ para' = [g \in DOMAIN para \ {f} |-> para[g]]
             /\ fold' = [g \in DOMAIN para \ {f} |-> fold[g]]
             /\ linked' = [g \in DOMAIN para \ {f} |-> linked[g]]
             /\ cache' = NoCache /\ UNCHANGED opt
             /\ AfterMut(<<"delete", f>>)
\* obj.size_field_behavior = v: state of THIS object
SetBeh(v) == /\ cls = "Release" /\ v \in {Apt, Dak}
             /\ opt' = [beh |-> v, set |-> TRUE, shared |-> IF ClassLevelOption THEN v ELSE opt.shared]
             /\ cache' = NoCache /\ UNCHANGED <<para, fold, linked>>
             /\ AfterMut(<<"setbeh", v>>)
\* obj.size_field_behavior = <an illegal value> raises (and the caller goes on): nothing changes
SetBehFails == /\ cls = "Release"
               /\ opt' = (IF StoreBeforeValidate THEN [opt EXCEPT !.beh = "illegal"] ELSE opt)
               /\ UNCHANGED <<para, cache, fold, linked>>
               /\ AfterMut(<<"setbehfails">>)
\* a step of ANOTHER live object of class c (created if need be; v # "-": its size_field_behavior
\* is set to v; it is dumped): nothing of this object changes
OtherSet(c, v) == /\ opt' = [opt EXCEPT !.shared = IF ClassLevelOption /\ c = "Release" /\ v # "-" THEN v ELSE @]
                  /\ UNCHANGED <<para, cache, fold, linked>>
                  /\ AfterMut(<<"other", c, v>>)
\* obj.sort_fields() / obj.sort_fields(key function) / obj.order_first(f) / order_last(f) /
\* order_before(f, g) / order_after(f, g): the ORDER of the fields changes (not modelled), nothing
\* else -- at any time the object exists: before the first dump, between dumps.  f, g: present
\* structured fields, or 0 = a field outside the tables.
\* (negative control: the keys that are moved -- all of them when sorting -- are stored as plain strings)
ReorderAll == {"sort", "sortkey"}
ReorderOne == {"first", "last"}
ReorderRel == {"before", "after"}
MReorderOK(kind, f, g, present) ==
    \/ kind \in ReorderAll /\ f = 0 /\ g = 0
    \/ kind \in ReorderOne /\ f \in present \cup {0} /\ g = 0
    \/ kind \in ReorderRel /\ f \in present \cup {0} /\ g \in present \cup {0} /\ f # g
Reorder(kind, f, g) ==
    /\ phase \in {"build", "dumped", "parsed"} /\ res = "ok"
    /\ MReorderOK(kind, f, g, DOMAIN para) = TRUE
    /\ fold' = (IF ReorderStoresPlainKeys
                THEN [h \in DOMAIN fold |-> IF kind \in ReorderAll \/ h = f THEN FALSE ELSE fold[h]]
                ELSE fold)
    /\ UNCHANGED <<para, cache, opt, linked>>
    /\ AfterMut(<<"reorder", kind, f, g>>)
\* a REFUSED call on the living object (the caller catches the exception and carries on): nothing
\* changes.  kind: "before" / "after" (f or g absent, or f = g), "first" / "last" / "delete" / "getitem"
\* (f absent), "sortkey" (the key function faults), "dumpfault" (fd.write faults), "parsefault"
\* (another paragraph is made from a faulting file / iterator).  f, g: a structured field (present or
\* absent), 0 = a present field outside the tables, NoField = an absent field outside the tables.
\* (negative control: order_before / order_after unlink the item BEFORE they look up the reference)
NoField      == 99
RefusedFault == {"sortkey", "dumpfault", "parsefault"}
RefusedGone  == {"first", "last", "delete", "getitem"}
RefusedKinds == ReorderRel \cup RefusedGone \cup RefusedFault
MAbsent(x, n, present) == x = NoField \/ (x \in 1..n /\ x \notin present)
MHere(x, present)      == x = 0 \/ x \in present
MRefusedOK(kind, f, g, n, present) ==
    \/ /\ kind \in ReorderRel
       /\ \/ MHere(f, present) /\ MAbsent(g, n, present)
          \/ MAbsent(f, n, present) /\ (MHere(g, present) \/ MAbsent(g, n, present))
          \/ MHere(f, present) /\ f = g
    \/ kind \in RefusedGone /\ MAbsent(f, n, present) /\ g = 0
    \/ kind \in RefusedFault /\ f = 0 /\ g = 0
Refused(kind, f, g) ==
    /\ phase \in {"build", "dumped", "parsed"} /\ res = "ok"
    /\ MRefusedOK(kind, f, g, NFields, DOMAIN para) = TRUE
    /\ linked' = (IF RefusedUnlinksFirst /\ kind \in ReorderRel /\ f \in DOMAIN para /\ MAbsent(g, NFields, DOMAIN para)
                  THEN [linked EXCEPT ![f] = FALSE] ELSE linked)
    /\ UNCHANGED <<para, cache, opt, fold>>
    /\ AfterMut(<<"refused", kind, f, g>>)
\* bounded enumeration: representatives (the recorded traces draw from the whole of MRefusedOK); a = the first
\* absent structured field stands for the absent ones
RefusedCases == LET P == DOMAIN para
                    gone == (1..NFields) \ P
                    a == IF gone = {} THEN NoField ELSE Min(gone)
                IN  {<<k, f, a>> : k \in ReorderRel, f \in P \cup {0}} \cup {<<k, f, NoField>> : k \in ReorderRel, f \in P}
                    \cup {<<k, a, g>> : k \in ReorderRel, g \in P} \cup {<<k, f, f>> : k \in ReorderRel, f \in P}
                    \cup {<<k, a, 0>> : k \in RefusedGone} \cup {<<k, 0, 0>> : k \in RefusedFault}
SomeRefused == \E c \in RefusedCases : Refused(c[1], c[2], c[3])
\* bounded enumeration: the kinds of mutation of the mode; fresh tokens (ids beyond those of
\* MMkRecs), sizes from the mode
Fresh == 1000 * (nmut + 1)
Kinds == ModeDef.kinds
Mutate == /\ phase = "parsed" /\ nmut < mode.maxmut
          /\ \/ \E f \in DOMAIN para :
                  \/ /\ "append" \in Kinds /\ para[f].form = "multi" /\ Len(para[f].recs) < 3
                     /\ \E n \in ModeMutSizes : AppendRec(f, MMkRecsOff(Subs(f), <<n>>, Fresh)[1])
                  \/ /\ "setsize" \in Kinds
                     /\ \E r \in 1..Len(para[f].recs) : \E n \in ModeMutSizes :
                           /\ n # para[f].recs[r][MSizeCol(Subs(f))].len
                           /\ SetSize(f, r, [id |-> Fresh + 500 + r, len |-> n])
                  \/ /\ "assign" \in Kinds
                     /\ \E sh \in ModeShapes : Assign(f, [form |-> sh.form, recs |-> MMkRecsD(Subs(f), sh, Fresh + 100)])
                  \/ "delete" \in Kinds /\ Delete(f)
             \/ /\ "setbeh" \in Kinds /\ cls = "Release" /\ DOMAIN para # {}
                /\ \E v \in {Apt, Dak} : (v # beh \/ ~opt.set) /\ SetBeh(v)
             \/ /\ "other" \in Kinds /\ DOMAIN para # {}
                /\ \E ov \in ModeDef.others : OtherSet(ov[1], ov[2])
             \/ "setbehfails" \in Kinds /\ DOMAIN para # {} /\ SetBehFails
             \/ /\ "reorder" \in Kinds /\ DOMAIN para # {}
                /\ \A i \in 1..Len(hist) : hist[i][1] # "reorder"    \* bounded enumeration: one per history (recorded traces: any number)
                /\ \E kind \in ReorderAll \cup ReorderOne \cup ReorderRel :
                      \E f \in DOMAIN para \cup {0} : \E g \in DOMAIN para \cup {0} : Reorder(kind, f, g)
             \/ /\ "refused" \in Kinds /\ DOMAIN para # {}
                /\ \A i \in 1..Len(hist) : hist[i][1] # "refused"    \* bounded enumeration: one per history (recorded traces: any number)
                /\ SomeRefused
\* another object may also have been configured BEFORE this one is created
PreOther == /\ phase = "build" /\ para = <<>> /\ hist = <<>> /\ nmut < mode.maxmut
            /\ "other" \in Kinds
            /\ \E ov \in ModeDef.others : OtherSet(ov[1], ov[2])

\* ... and a complete paragraph may be re-ordered BEFORE its first dump (once)
PreReorder == /\ phase = "build" /\ NoDumpYet /\ nmut < mode.maxmut
              /\ "reorder" \in Kinds
              /\ Cardinality(DOMAIN para) = mode.maxf
              /\ \E kind \in ReorderAll \cup ReorderOne \cup ReorderRel :
                    \E f \in DOMAIN para \cup {0} : \E g \in DOMAIN para \cup {0} : Reorder(kind, f, g)

\* ... or be the target of a refused call BEFORE its first dump (once)
PreRefused == /\ phase = "build" /\ NoDumpYet /\ nmut < mode.maxmut
              /\ "refused" \in Kinds
              /\ Cardinality(DOMAIN para) = mode.maxf
              /\ SomeRefused

Next == \/ /\ phase = "build" /\ Cardinality(DOMAIN para) < mode.maxf
           /\ \E sh \in (IF mode.uniform THEN {shape} ELSE ModeShapes) : \E f \in 1..NFields : Build(f, sh)
        \/ Widths \/ Write \/ Parse \/ Load \/ Mutate \/ PreOther \/ PreReorder \/ PreRefused

Spec == Init /\ [][Next]_vars

ASSUME Emit => PrintT(<<"TABLES", ToJson(Tables)>>)

----------------------------------------------------------------------------
\* invariants.  Those on the layout are evaluated in the state that holds a freshly dumped
\* text -- of the first dump and of every dump after a mutation, always against the CURRENT
\* records (para); in a mode with heavy = FALSE (quick tier, the 2^14 subsets of PdiffIndex)
\* they are left to the other modes, which cover the same shapes.
Heavy  == mode.heavy
Dumped == phase = "dumped" /\ res = "ok"

TypeOK == /\ phase \in {"build", "widths", "dumped", "parsed"} /\ res \in {"ok", "KeyError", "ValueError"}
          /\ DOMAIN para \subseteq 1..NFields
          /\ phase = "build" => \A f \in DOMAIN para : MEntryOK(Subs(f), para[f])
          /\ (phase # "dumped" \/ res # "ok") => text = <<>>
          /\ (phase = "build" \/ res # "ok") => widths = <<>>
          /\ (phase # "build" /\ res = "ok") => DOMAIN widths = DOMAIN para
          /\ phase # "parsed" => parsed = <<>>
          /\ nmut <= mode.maxmut
          /\ ~CacheWidths => cache = NoCache
          /\ ~StoreBeforeValidate => opt.beh \in (IF cls = "Release" THEN {Apt, Dak} ELSE {"-"})
          /\ (~StoreBeforeValidate /\ ~opt.set) => opt.beh = start.beh   \* an untouched Release is at the documented default
          /\ ~start.set /\ cls = "Release" => start.beh = Apt
          /\ DOMAIN fold = DOMAIN para /\ \A f \in DOMAIN fold : fold[f] \in BOOLEAN
          /\ ~ReorderStoresPlainKeys => \A f \in DOMAIN fold : fold[f]
          /\ DOMAIN linked = DOMAIN para /\ \A f \in DOMAIN linked : linked[f] \in BOOLEAN
          /\ ~RefusedUnlinksFirst => \A f \in DOMAIN linked : linked[f]

\* the key set answers look-ups in any spelling, whatever was done to the ORDER of the fields:
\* every present field is found (by the class's own lower-case look-ups, by obj[f], del obj[f], f in obj)
KeysFold == \A f \in DOMAIN para : f \in Visible

\* ... and every present field is reached by iteration (= written by dump()), whatever calls were refused
KeysListed == \A f \in DOMAIN para : linked[f]

\* dump() is defined for EVERY subset of the structured fields
DumpTotal == phase # "build" => res = "ok"

\* "Width == 16 or max size length": the width table of a Release / PdiffIndex paragraph
WidthTable == (phase = "widths" /\ res = "ok") =>
    \A f \in DOMAIN para :
       LET longest == Max(MSizeLens(Subs(f), para[f].recs)) IN
       IF MHasWidth(cls) /\ para[f].form = "multi"
       THEN /\ widths[f] = 16 \/ widths[f] = longest
            /\ widths[f] = 16 <=> ((cls = "Release" /\ beh = Apt) \/ longest = 16)
       ELSE MHasWidth(cls) \/ widths[f] = 0

\* the dumped text is a rendering of the records (incl. the documented width)
DumpExplains == (Dumped /\ Heavy) => MExplains(Tables, cls, beh, para, text, TRUE)

\* parsing the dump gives the records the object holds: same fields, same number of records,
\* same tokens in the same order
RecordsRoundTrip == phase = "parsed" => MUntag(parsed) = para
LoadIsIdentity   == [][(phase = "parsed" /\ phase' = "build" /\ nmut' = nmut) => para' = para]_vars
\* an in-place edit changes ONE position: the records at the other positions -- also those with
\* the same content -- are what they were (modes with histories: hist names the step)
EditIsLocal == [][(Len(hist') = Len(hist) + 1 /\ hist'[Len(hist')][1] = "setsize") =>
                    LET e == hist'[Len(hist')] IN
                    /\ DOMAIN para' = DOMAIN para
                    /\ \A g \in DOMAIN para \ {e[2]} : para'[g] = para[g]
                    /\ Len(para'[e[2]].recs) = Len(para[e[2]].recs)
                    /\ \A q \in 1..Len(para[e[2]].recs) : q # e[3] => para'[e[2]].recs[q] = para[e[2]].recs[q]]_vars
\* a step of another object, a rejected assignment, or a re-ordering of the fields changes nothing
\* of the records and the option of this one
OtherIsOther == [][(Len(hist') = Len(hist) + 1 /\ hist'[Len(hist')][1] \in {"other", "setbehfails", "reorder", "refused"}) =>
                     (para' = para /\ opt'.beh = opt.beh /\ opt'.set = opt.set)]_vars
\* a refused call changes nothing at all of the object (error atomicity)
RefusedIsAtomic == [][(Len(hist') = Len(hist) + 1 /\ hist'[Len(hist')][1] = "refused") =>
                        (para' = para /\ opt' = opt /\ fold' = fold /\ linked' = linked /\ cache' = cache)]_vars

\* every parsed record carries exactly the documented sub-field names, in the documented order
SubFieldNames == phase = "parsed" =>
    \A f \in DOMAIN parsed : \A r \in 1..Len(parsed[f].recs) : MNames(parsed[f].recs[r]) = Subs(f)

\* the width rule, stated on the output alone: the size column (blanks after the separator +
\* the token) of a multi-line Release / PdiffIndex field is 16 wide (apt-ftparchive; a longer
\* size is written in full) or as wide as the longest size of the field
WidthRule == (Dumped /\ Heavy /\ MHasWidth(cls)) =>
    \A f \in DOMAIN text :
       LET sc == MSizeCol(Subs(f)) L == text[f].lines
           W(r)  == (L[r][sc].pad - 1) + L[r][sc].len
           longest == Max({L[r][sc].len : r \in 1..Len(L)})
       IN  text[f].form = "multi" =>
              \A r \in 1..Len(L) :
                 IF cls = "Release" /\ beh = Apt
                 THEN W(r) = (IF L[r][sc].len > 16 THEN L[r][sc].len ELSE 16)
                 ELSE W(r) = longest
\* ... hence right-aligned: the sizes of a field end in the same column (the digests of one
\* field have the same length), except a size longer than the 16 of apt-ftparchive, which follows
\* its separator directly
RightAligned == (Dumped /\ Heavy /\ MHasWidth(cls)) =>
    \A f \in DOMAIN text :
       MWidthSpecified(cls, beh, Subs(f), para[f]) =>
          LET sc == MSizeCol(Subs(f)) L == text[f].lines End(r) == MEndCol(L[r], sc) IN
          \A r, q \in 1..Len(L) :
             \* only a size LONGER than the column (Release/apt-ftparchive, > 16) sticks out, and it is not padded at all
             /\ End(r) > End(q) => (L[r][sc].pad = 1 /\ L[r][sc].len > 16 /\ cls = "Release" /\ beh = Apt)
             /\ End(r) = End(q) \/ L[r][sc].len > 16 \/ L[q][sc].len > 16
\* separators are single blanks; classes without a documented width never pad (diagnostic in the binding)
SingleBlanks == (Dumped /\ Heavy) =>
    \A f \in DOMAIN text : \A r \in 1..Len(text[f].lines) : \A i \in 1..Len(text[f].lines[r]) :
       (Subs(f)[i] # "size" \/ ~MHasWidth(cls)) => text[f].lines[r][i].pad = 1

----------------------------------------------------------------------------
\* modes for the configurations (MC_MultiValued*.cfg: Modes <- ...)
AllConfigs   == {<<"Dsc", "-">>, <<"Changes", "-">>, <<"BuildInfo", "-">>,
                 <<"Release", Apt>>, <<"Release", Dak>>, <<"PdiffIndex", "-">>}
PdiffConfig  == {<<"PdiffIndex", "-">>}
SmallConfigs == AllConfigs \ PdiffConfig
NoLookupConfigs == {<<"Dsc", "-">>, <<"Changes", "-">>, <<"BuildInfo", "-">>, <<"Release", Apt>>}
Sh(form, sizes)      == [form |-> form, sizes |-> sizes, dup |-> FALSE]
ShDup(sizes)         == [form |-> "multi", sizes |-> sizes, dup |-> TRUE]
MultiShapes(lens, k) == {Sh("multi", s) : s \in UNION {[1..n -> lens] : n \in 1..k}}
SingleShapes(lens)   == {Sh("single", <<n>>) : n \in lens}
\* a mode with histories: maxmut steps of the kinds in `kinds` (sizes of new tokens from mutsizes),
\* fields 1..flimit, objects built from records / parsed from text (origins), other live objects
XMode(name, configs, shapes, uniform, maxf, heavy, emitmod, maxmut, mutsizes, flimit, kinds, origins, others) ==
    [name |-> name, configs |-> configs, shapes |-> shapes, uniform |-> uniform, maxf |-> maxf,
     heavy |-> heavy, emitmod |-> emitmod, maxmut |-> maxmut, mutsizes |-> mutsizes, flimit |-> flimit,
     kinds |-> kinds, origins |-> origins, others |-> others]
ListKinds == {"append", "setsize", "assign", "delete", "reorder"}
HMode(name, configs, shapes, uniform, maxf, heavy, emitmod, maxmut, mutsizes, flimit) ==
    XMode(name, configs, shapes, uniform, maxf, heavy, emitmod, maxmut, mutsizes, flimit, ListKinds, {"built"}, {})
Mode(name, configs, shapes, uniform, maxf, heavy, emitmod) ==
    XMode(name, configs, shapes, uniform, maxf, heavy, emitmod, 0, {}, 99, {}, {"built"}, {})

ShapesSubsetsQuick == {Sh("multi", <<17, 2>>), Sh("single", <<5>>)}
ShapesSubsetsP1    == {Sh("multi", <<12>>)}
ShapesSubsetsP     == {Sh("multi", <<17, 2>>), Sh("single", <<5>>)}
ShapesSubsets      == {Sh("multi", <<1>>), Sh("multi", <<18>>), Sh("multi", <<3, 10>>), Sh("multi", <<17, 2>>),
                       Sh("multi", <<16, 16>>), Sh("single", <<5>>), Sh("single", <<17>>), ShDup(<<4, 4>>)}
\* sizes beyond 18 digits: 2^31 and 2^32 have 10 digits, 2^63 and 10^18 have 19
ShapesBig          == {Sh("multi", <<10>>), Sh("multi", <<19, 10>>), Sh("multi", <<10, 20>>), Sh("multi", <<25, 1>>),
                       Sh("multi", <<19, 19>>), ShDup(<<9, 9>>), ShDup(<<19, 19>>)}
\* sizes that reach and exceed every documented width (15 / 16 / 17 and far beyond: the padding of a
\* short size next to a long one exceeds 64 blanks; a size alone in its field; the long one first / last)
ShapesWide         == {Sh("multi", <<15>>), Sh("multi", <<15, 16>>), Sh("multi", <<17, 15>>), Sh("multi", <<40>>),
                       Sh("multi", <<80, 3>>), Sh("multi", <<3, 80>>), Sh("multi", <<16, 40>>), Sh("multi", <<17, 80>>),
                       Sh("multi", <<64, 17>>), Sh("multi", <<65, 1>>), Sh("multi", <<1, 81>>), Sh("multi", <<33, 32>>),
                       ShDup(<<40, 40>>)}
ShapesRecordsQuick == MultiShapes({1, 9, 16, 17, 18}, 2) \cup SingleShapes({1, 16, 18}) \cup ShapesBig \cup ShapesWide
ShapesRecords      == MultiShapes(1..18, 2) \cup SingleShapes(1..18) \cup ShapesBig \cup ShapesWide
                         \cup MultiShapes({10, 19, 20, 25}, 2) \cup SingleShapes({19, 25})
                         \cup MultiShapes({15, 17, 40, 64, 80}, 2) \cup SingleShapes({40})
ShapesPairsQuick   == MultiShapes({1, 17}, 2) \cup SingleShapes({3})
ShapesPairs        == MultiShapes({1, 16, 17}, 2) \cup SingleShapes({3, 17})
ShapesHist         == {Sh("multi", <<2>>), Sh("multi", <<5, 2>>)}
ShapesAlias        == {ShDup(<<5, 5>>), ShDup(<<2, 2, 2>>)}
ShapesLive         == {Sh("multi", <<5, 2>>)}

HistConfigs  == {<<"Dsc", "-">>, <<"Release", Apt>>, <<"Release", Dak>>}
PairConfigs  == SmallConfigs \ {<<"BuildInfo", "-">>}
AliasConfigs == {<<"Dsc", "-">>, <<"Release", Dak>>, <<"PdiffIndex", "-">>}
LiveConfigs  == {<<"Release", Apt>>, <<"Release", Dak>>, <<"Release", "default">>, <<"PdiffIndex", "-">>, <<"Dsc", "-">>}
\* the other live objects: <<class, value assigned to its size_field_behavior ("-": none)>>
LiveOthers   == {<<"Release", Apt>>, <<"Release", Dak>>, <<"PdiffIndex", "-">>, <<"Changes", "-">>}
LiveOthersT  == LiveOthers \cup {<<"Release", "-">>, <<"Dsc", "-">>}
LiveKinds    == {"setbeh", "other", "setbehfails", "reorder"}
RefuseKinds  == {"refused", "setsize", "delete"}
RefuseConfigs == {<<"Release", Apt>>, <<"Release", Dak>>, <<"PdiffIndex", "-">>, <<"Dsc", "-">>}
LiveKindsT   == {"setbeh", "other", "setbehfails", "setsize", "reorder"}

\* quick tier (two TLC runs in parallel)
ModesQuick ==
  { Mode("subsets4", SmallConfigs, ShapesSubsets,      TRUE,  4,  TRUE,  1),
    Mode("records",  AllConfigs,   ShapesRecordsQuick, FALSE, 1,  TRUE,  1),
    Mode("pairs",    PairConfigs,  ShapesPairsQuick,   FALSE, 2,  TRUE,  1),
    HMode("hist",    HistConfigs,  ShapesHist,         FALSE, 1,  TRUE,  8, 2, {1, 7, 40}, 4),
    HMode("histP",   PdiffConfig,  ShapesHist,         FALSE, 1,  TRUE,  7, 2, {1, 7}, 2),
    XMode("alias",   AliasConfigs, ShapesAlias,        FALSE, 1,  TRUE,  6, 2, {1, 7}, 2, {"setsize", "append", "reorder"}, {"parsed"}, {}),
    XMode("live",    LiveConfigs,  ShapesLive,         FALSE, 1,  TRUE,  7, 2, {7}, 1, LiveKinds, {"built"}, LiveOthers),
    XMode("refuse",  RefuseConfigs, ShapesLive,        FALSE, 1,  TRUE,  5, 2, {7}, 2, RefuseKinds, {"built", "parsed"}, {}) }
ModesQuickP ==
  { Mode("subsetsP", PdiffConfig,  ShapesSubsetsP1,    TRUE,  14, FALSE, 24) }
\* thorough tier
ModesThorough ==
  { Mode("subsets4", SmallConfigs, ShapesSubsets,      TRUE,  4,  TRUE,  1),
    Mode("records",  AllConfigs,   ShapesRecords,      FALSE, 1,  TRUE,  1),
    Mode("pairs",    AllConfigs,   ShapesPairs,        FALSE, 2,  TRUE,  5),
    Mode("full4",    HistConfigs,  ShapesPairsQuick,   FALSE, 4,  TRUE,  4),
    HMode("hist",    AllConfigs,   ShapesHist,         FALSE, 1,  TRUE,  6, 2, {1, 7, 17, 40}, 4),
    HMode("hist2",   AllConfigs,   ShapesHist,         FALSE, 2,  TRUE,  4, 1, {1, 7}, 4),
    XMode("alias",   AllConfigs,   ShapesAlias,        FALSE, 1,  TRUE,  7, 2, {1, 7}, 4, {"setsize", "append", "delete", "reorder"}, {"parsed", "built"}, {}),
    XMode("live",    LiveConfigs \cup {<<"Changes", "-">>}, ShapesLive, FALSE, 1, TRUE, 8, 2, {7}, 1, LiveKindsT, {"built", "parsed"}, LiveOthersT),
    XMode("refuse",  AllConfigs,   ShapesLive,         FALSE, 2,  TRUE,  11, 2, {7}, 2, RefuseKinds, {"built", "parsed"}, {}) }
ModesThoroughP ==
  { Mode("subsetsP", PdiffConfig,  ShapesSubsetsP,     TRUE,  14, TRUE,  2) }
\* negative controls (small)
ModesNegIterate   == { Mode("neg", AllConfigs,      ShapesSubsetsQuick, TRUE, 2, TRUE, 1) }
ModesNegIterateOk == { Mode("neg", NoLookupConfigs, ShapesSubsetsQuick, TRUE, 4, TRUE, 1) }
ModesNegSplit     == { Mode("neg", AllConfigs,      ShapesSubsetsQuick, TRUE, 1, TRUE, 1) }
ModesNegCache     == { HMode("neg", AllConfigs,     ShapesHist, FALSE, 1, TRUE, 1, 1, {7}, 2) }
ModesNegShared    == { XMode("neg", AliasConfigs,   ShapesAlias, FALSE, 1, TRUE, 1, 1, {7}, 1, {"setsize"}, {"parsed", "built"}, {}) }
ModesNegStoreFirst == { XMode("neg", {<<"Release", Dak>>, <<"Release", "default">>}, ShapesLive, FALSE, 1, TRUE, 1, 1, {7}, 1, {"setbehfails"}, {"built"}, {}) }
ModesNegPlain     == { XMode("neg", {<<"Release", Apt>>, <<"Release", Dak>>, <<"PdiffIndex", "-">>, <<"Dsc", "-">>}, ShapesLive, FALSE, 1, TRUE, 1, 1, {7}, 1, {"reorder"}, {"built", "parsed"}, {}) }
ModesNegRefused   == { XMode("neg", {<<"Release", Apt>>, <<"Release", Dak>>, <<"PdiffIndex", "-">>, <<"Dsc", "-">>}, ShapesLive, FALSE, 1, TRUE, 1, 1, {7}, 1, {"refused"}, {"built", "parsed"}, {}) }
ModesNegClassOpt  == { XMode("neg", LiveConfigs,    ShapesLive,  FALSE, 1, TRUE, 1, 2, {7}, 1, LiveKinds, {"built"}, LiveOthers) }
=============================================================================
