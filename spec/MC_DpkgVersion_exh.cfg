\* C03 quick + thorough: ALL pairs of single-component versions, <= 3 characters over 0 1 a . ~
\* (155 strings, 24 025 pairs), every one printed as a CASE line and replayed, in upstream AND in
\* revision position (RevPosition); contains the token-prefix family  x  vs  x 0 t  ("a" vs "a0a" "a0." "a0~")
CONSTANTS
  HashOnString = FALSE
  TildeOrderZero = FALSE
  Epochs <- S_none
  Revs <- S_none
  UpChars = {48, 49, 97, 46, 126}
  MaxUp = 3
  Seps = FALSE
  Triples = FALSE
  EmitStride = 1
  EmitOffset = 0
  CheckPos = TRUE
SPECIFICATION Spec
INVARIANT Agree
INVARIANT SplitAgree
INVARIANT Antisym
INVARIANT Trichotomy
INVARIANT Reflexive
INVARIANT HashConsistent
INVARIANT HashImpl
INVARIANT RevPosition
CHECK_DEADLOCK FALSE
