----------------------------- MODULE GlobCache -----------------------------
(***************************************************************************)
(* C16 -- FilesParagraph.files_pattern(): the compiled regex is cached,    *)
(* keyed by the text of the Files field, "until files is set to a          *)
(* different value".  A small closed state machine over a pool of pattern  *)
(* lists (three of them ill-formed): SetFiles(ps) / Match(nm) / Find(nm)   *)
(* in any order, any number of times.  doc = <<files>> is the current      *)
(* Files value, key/cre the cache, res the result of the last call.        *)
(* Match and Find on an ill-formed Files value RAISE and leave the cache   *)
(* untouched, so that the error is reported again by EVERY later query     *)
(* until Files is changed (also after a detour through a legal value and   *)
(* back).  TLC checks that the cache is coherent in every reachable state  *)
(* and that every query returns what the reference says for the CURRENT    *)
(* files.  The LTS is emitted as EDGE lines (Emit # "none") and replayed   *)
(* on the real object (Find: the paragraph inside a Copyright document).   *)
(* Negative controls (both make TLC report SameResult violated):           *)
(*   StaleCache = TRUE          compile once, never refresh                *)
(*   KeyBeforeTranslate = TRUE  the new key is stored BEFORE globs_to_re   *)
(*                              is called: when that raises, the key is    *)
(*                              new and the regex old -- the first query   *)
(*                              raises, every later one answers from the   *)
(*                              stale regex (seeded change C16-seedC)      *)
(***************************************************************************)
EXTENDS Glob

CONSTANTS Pool,               \* set of pattern lists the Files field is set to
          QNames,             \* names queried
          StaleCache,         \* FALSE
          KeyBeforeTranslate  \* FALSE

VARIABLES key,          \* cached Files value (<<>> = the initial '' key)
          cre,          \* cached regex (sequence of alternatives)
          res           \* "ok" | "match" | "nomatch" | "found" | "none" | "FormatError"

cvars == <<doc, n, key, cre, res>>

Edge(op, arg) == (Emit # "none") =>
    PrintT(<<"EDGE", ToJson([from |-> [files |-> doc[1], key |-> key], op |-> op, args |-> <<arg>>,
                             res |-> res', to |-> [files |-> doc'[1], key |-> key']])>>)

\* FilesParagraph.create(files, ...): fresh object, cache = ('', re.compile('')), then files = ...
CInit == /\ doc \in {<<ps>> : ps \in Pool}
         /\ n = <<>> /\ key = <<>> /\ cre = << <<>> >> /\ res = "ok"

SetFiles(ps) == /\ doc' = <<ps>> /\ res' = "ok" /\ UNCHANGED <<n, key, cre>>
                /\ Edge("setfiles", ps)

MatchRe(re, nm) == IF RegexMatch(re, nm, Discipline) THEN "match" ELSE "nomatch"
Ans(re, nm, yes, no) == IF RegexMatch(re, nm, Discipline) THEN yes ELSE no

\* files_pattern() followed by fullmatch
Lookup(nm, yes, no) ==
   LET refresh == IF StaleCache THEN key = <<>> ELSE key # doc[1] IN
   IF refresh
   THEN IF RegexErr(doc[1])
        THEN /\ res' = "FormatError"                                    \* globs_to_re raised
             /\ IF KeyBeforeTranslate THEN key' = doc[1] /\ UNCHANGED cre
                                      ELSE UNCHANGED <<key, cre>>
        ELSE key' = doc[1] /\ cre' = Regex(doc[1]) /\ res' = Ans(cre', nm, yes, no)
   ELSE UNCHANGED <<key, cre>> /\ res' = Ans(cre, nm, yes, no)

Match(nm) == n' = nm /\ UNCHANGED doc /\ Lookup(nm, "match", "nomatch") /\ Edge("matches", nm)
\* Copyright.find_files_paragraph on the document whose only Files paragraph this is
Find(nm)  == n' = nm /\ UNCHANGED doc /\ Lookup(nm, "found", "none") /\ Edge("find", nm)

CNext == (\E ps \in Pool : SetFiles(ps)) \/ (\E nm \in QNames : Match(nm) \/ Find(nm))
CSpec == CInit /\ [][CNext]_cvars
CView == <<doc, key, cre>>          \* n and res are outputs

\* constants of MC_GlobCache.cfg (a cfg file cannot spell tuples)
MCPool   == { << <<97>> >>, << <<97, 42>> >>, << <<98, 63>> >>, << <<98>>, <<97, 63>> >>,
              << <<97, 98>>, <<42, 98>> >>,
              << <<92, 97>> >>, << <<98, 92>> >>, << <<97>>, <<92, 98>> >> }        \* ill-formed
MCQNames == { <<>>, <<97>>, <<97, 98>>, <<98>>, <<98, 98>>, <<98, 10>> }

CacheCoherent == key # <<>> => cre = Regex(key)
FindStr(k) == IF k = -1 THEN "FormatError" ELSE IF k = 0 THEN "none" ELSE "found"
SameResult == [][\A nm \in QNames : /\ Match(nm) => res' = RefMatches(doc[1], nm)
                                    /\ Find(nm)  => res' = FindStr(RefFind(doc, nm))]_cvars
=============================================================================
