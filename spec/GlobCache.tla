----------------------------- MODULE GlobCache -----------------------------
(***************************************************************************)
(* C16 -- FilesParagraph.files_pattern(): the compiled regex is cached,    *)
(* keyed by the text of the Files field, "until files is set to a          *)
(* different value".  A small closed state machine over a pool of pattern  *)
(* lists: SetFiles(ps) / Match(nm) in any order, any number of times.      *)
(* doc = <<files>> is the current Files value, key/cre the cache, res the  *)
(* result of the last call.  TLC checks that the cache is coherent in      *)
(* every reachable state and that every Match returns what the reference   *)
(* RefMatches says for the CURRENT files.  The LTS is emitted as EDGE      *)
(* lines (Emit # "none") and replayed on the real object.                  *)
(* Negative control: StaleCache = TRUE (compile once, never refresh)       *)
(* violates SameResult.                                                    *)
(***************************************************************************)
EXTENDS Glob

CONSTANTS Pool,         \* set of pattern lists the Files field is set to
          QNames,       \* names queried
          StaleCache    \* FALSE

VARIABLES key,          \* cached Files value (<<>> = the initial '' key)
          cre,          \* cached regex (sequence of alternatives)
          res           \* "ok" | "match" | "nomatch" | "FormatError"

cvars == <<doc, n, key, cre, res>>

Edge(op, arg) == (Emit # "none") =>
    PrintT(<<"EDGE", ToJson([from |-> [files |-> doc[1], key |-> key], op |-> op, args |-> <<arg>>,
                             res |-> res', to |-> [files |-> doc'[1], key |-> key']])>>)

\* FilesParagraph.create(files, ...): fresh object, cache = ('', re.compile('')), then files = ...
CInit == /\ doc \in {<<ps>> : ps \in Pool}
         /\ n = <<>> /\ key = <<>> /\ cre = << <<>> >> /\ res = "ok"

SetFiles(ps) == /\ doc' = <<ps>> /\ res' = "ok" /\ UNCHANGED <<n, key, cre>>
                /\ Edge("setfiles", ps)

MatchRe(re, nm) == IF RegexMatch(re, nm, Discipline) THEN "match" ELSE "nomatch"

Match(nm) ==
   /\ n' = nm /\ UNCHANGED doc
   /\ LET refresh == IF StaleCache THEN key = <<>> ELSE key # doc[1] IN
      IF refresh
      THEN IF RegexErr(doc[1])
           THEN res' = "FormatError" /\ UNCHANGED <<key, cre>>          \* globs_to_re raised
           ELSE key' = doc[1] /\ cre' = Regex(doc[1]) /\ res' = MatchRe(cre', nm)
      ELSE UNCHANGED <<key, cre>> /\ res' = MatchRe(cre, nm)
   /\ Edge("matches", nm)

CNext == (\E ps \in Pool : SetFiles(ps)) \/ (\E nm \in QNames : Match(nm))
CSpec == CInit /\ [][CNext]_cvars
CView == <<doc, key, cre>>          \* n and res are outputs

\* constants of MC_GlobCache.cfg (a cfg file cannot spell tuples)
MCPool   == { << <<97>> >>, << <<97, 42>> >>, << <<98, 63>> >>, << <<98>>, <<97, 63>> >>,
              << <<92, 97>> >>, << <<97, 98>>, <<42, 98>> >> }
MCQNames == { <<97>>, <<97, 98>>, <<98>>, <<98, 98>>, <<98, 10>> }

CacheCoherent == key # <<>> => cre = Regex(key)
SameResult == [][\A nm \in QNames : Match(nm) => res' = RefMatches(doc[1], nm)]_cvars
=============================================================================
