----------------------------- MODULE GlobCache -----------------------------
(***************************************************************************)
(* C16 -- FilesParagraph.files_pattern(): the compiled regex is cached,    *)
(* keyed by the text of the Files field, "until files is set to a          *)
(* different value".  A small closed state machine over a pool of pattern  *)
(* lists (three of them ill-formed): SetFiles(ps) / Match(nm) / Find(nm)   *)
(* in any order, any number of times.  doc = <<files>> is the current      *)
(* Files value, key/cre the cache, res the result of the last call.        *)
(* Match and Find on an ill-formed Files value RAISE and leave the cache   *)
(* untouched, so that the error is reported again by EVERY later query     *)
(* until Files is changed (also after a detour through a legal value and   *)
(* back).  TLC checks that the cache is coherent in every reachable state  *)
(* and that every query returns what the reference says for the CURRENT    *)
(* files.  The LTS is emitted as EDGE lines (Emit # "none") and replayed   *)
(* on the real object (Find: the paragraph inside a Copyright document).   *)
(* RawSet(ps): the Files field is rewritten through the Deb822 object the  *)
(* creator of FilesParagraph(data) kept (data['Files'] = 'text'), which    *)
(* the RestrictedWrapper docstring allows; the wrapper shows the new text, *)
(* and the cache -- keyed by the raw text -- notices.  In between sits the *)
(* CONVERTED value (the `files` property: the raw text split into          *)
(* patterns), which the current code recomputes on every read.             *)
(* Negative controls (each makes TLC report SameResult violated):          *)
(*   StaleCache = TRUE          compile once, never refresh                *)
(*   KeyBeforeTranslate = TRUE  the new key is stored BEFORE globs_to_re   *)
(*                              is called: when that raises, the key is    *)
(*                              new and the regex old -- the first query   *)
(*                              raises, every later one answers from the   *)
(*                              stale regex (seeded change C16-seedC)      *)
(*   ConvMemo = TRUE            the converted value is memoised per object *)
(*                              (conv) and dropped by the property setter  *)
(*                              only: after RawSet the cache recompiles -- *)
(*                              from the old patterns -- and files them    *)
(*                              under the new text (seeded change          *)
(*                              C16-seedI)                                 *)
(***************************************************************************)
EXTENDS Glob

CONSTANTS Pool,               \* set of pattern lists the Files field is set to
          QNames,             \* names queried
          StaleCache,         \* FALSE
          KeyBeforeTranslate, \* FALSE
          ConvMemo            \* FALSE

VARIABLES key,          \* cached Files value (<<>> = the initial '' key)
          cre,          \* cached regex (sequence of alternatives)
          conv,         \* ConvMemo only: <<memoised converted Files value>>, <<>> = none
          res           \* "ok" | "match" | "nomatch" | "found" | "none" | "FormatError"

cvars == <<doc, n, key, cre, conv, res>>

Edge(op, arg) == (Emit # "none") =>
    PrintT(<<"EDGE", ToJson([from |-> [files |-> doc[1], key |-> key], op |-> op, args |-> <<arg>>,
                             res |-> res', to |-> [files |-> doc'[1], key |-> key']])>>)

\* FilesParagraph.create(files, ...): fresh object, cache = ('', re.compile('')), then files = ...;
\* FilesParagraph(data): the constructor's validation reads the converted value once
CInit == /\ doc \in {<<ps>> : ps \in Pool}
         /\ n = <<>> /\ key = <<>> /\ cre = << <<>> >> /\ res = "ok"
         /\ conv \in (IF ConvMemo THEN {<<>>, <<doc[1]>>} ELSE {<<>>})

SetFiles(ps) == /\ doc' = <<ps>> /\ res' = "ok" /\ conv' = <<>> /\ UNCHANGED <<n, key, cre>>
                /\ Edge("setfiles", ps)
RawSet(ps)   == /\ doc' = <<ps>> /\ res' = "ok" /\ UNCHANGED <<n, key, cre, conv>>
                /\ Edge("rawset", ps)

MatchRe(re, nm) == IF RegexMatch(re, nm, Discipline) THEN "match" ELSE "nomatch"
Ans(re, nm, yes, no) == IF RegexMatch(re, nm, Discipline) THEN yes ELSE no

\* files_pattern() followed by fullmatch; doc[1] = the raw Files text, pats = what self.files converts it to
Lookup(nm, yes, no) ==
   LET refresh == IF StaleCache THEN key = <<>> ELSE key # doc[1]
       pats    == IF ConvMemo /\ conv # <<>> THEN conv[1] ELSE doc[1] IN
   IF refresh
   THEN /\ conv' = (IF ConvMemo THEN <<pats>> ELSE conv)
        /\ IF RegexErr(pats)
           THEN /\ res' = "FormatError"                                 \* globs_to_re raised
                /\ IF KeyBeforeTranslate THEN key' = doc[1] /\ UNCHANGED cre
                                         ELSE UNCHANGED <<key, cre>>
           ELSE key' = doc[1] /\ cre' = Regex(pats) /\ res' = Ans(cre', nm, yes, no)
   ELSE UNCHANGED <<key, cre, conv>> /\ res' = Ans(cre, nm, yes, no)

Match(nm) == n' = nm /\ UNCHANGED doc /\ Lookup(nm, "match", "nomatch") /\ Edge("matches", nm)
\* Copyright.find_files_paragraph on the document whose only Files paragraph this is
Find(nm)  == n' = nm /\ UNCHANGED doc /\ Lookup(nm, "found", "none") /\ Edge("find", nm)

CNext == (\E ps \in Pool : SetFiles(ps) \/ RawSet(ps)) \/ (\E nm \in QNames : Match(nm) \/ Find(nm))
CSpec == CInit /\ [][CNext]_cvars
CView == <<doc, key, cre, conv>>          \* n and res are outputs

\* constants of MC_GlobCache.cfg (a cfg file cannot spell tuples)
MCPool   == { << <<97>> >>, << <<97, 42>> >>, << <<98, 63>> >>, << <<98>>, <<97, 63>> >>,
              << <<97, 98>>, <<42, 98>> >>,
              << <<92, 97>> >>, << <<98, 92>> >>, << <<97>>, <<92, 98>> >> }        \* ill-formed
MCQNames == { <<>>, <<97>>, <<97, 98>>, <<98>>, <<98, 98>>, <<98, 10>> }

CacheCoherent == key # <<>> => cre = Regex(key)
FindStr(k) == IF k = -1 THEN "FormatError" ELSE IF k = 0 THEN "none" ELSE "found"
SameResult == [][\A nm \in QNames : /\ Match(nm) => res' = RefMatches(doc[1], nm)
                                    /\ Find(nm)  => res' = FindStr(RefFind(doc, nm))]_cvars
=============================================================================
