CONSTANTS
  Names = {1, 2, 3}
  Start <- StartG2
  MaxParas = 3
  EditFields = TRUE
  SetVals = {101, 102, 103}
  SetSpells = {"U", "L"}
  Ops = {"set", "del"}
  Emit = TRUE
SPECIFICATION Spec
INVARIANT NoEmptyPara
INVARIANT ParasSeparated
INVARIANT NoDupStaysUnique
INVARIANT NoBlobDuplication
INVARIANT ReplaceLaws
INVARIANT DocWellFormed
PROPERTY ErrAtomic
PROPERTY CommentsStay
PROPERTY SepsKept
PROPERTY NlOnlySupplied
VIEW DocView
CHECK_DEADLOCK FALSE
