\* C14 object store with two objects: every pair (obj, kept) reachable by Copy and assignments,
\* closed up to Len(full_version) <= MaxLen (quick: 4, start versions PairStart); CopyIndependent, KeptConsistent
CONSTANTS
  Alphabet = {}
  MaxLen = 4
  StartStrings <- PairStart
  AssignValues <- LtsValues
  Emit = FALSE
  DollarAnchor = FALSE
  UnicodeDigits = FALSE
  NoRollback = FALSE
  StaleKey = FALSE
  CopySharesParts = FALSE
SPECIFICATION LtsSpec
INVARIANT KeyFresh
INVARIANT ObjConsistent
INVARIANT KeptConsistent
PROPERTY AssignOrRollback
PROPERTY CopyIndependent
VIEW PairView
CHECK_DEADLOCK FALSE
