CONSTANTS
  Which = {"names", "types", "text", "md5", "chlog", "gate", "ver", "one", "two", "bad"}
  FDirRaises = FALSE
  FUniSpace = FALSE
  FLstrip = FALSE
  FNativeFirst = FALSE
  FKeepCR = FALSE
  FSharedName = FALSE
  FSharedTar = FALSE
  FHandleLast = FALSE
  Emit = FALSE
SPECIFICATION XSpec
INVARIANT NamesAreValid
INVARIANT SpellingInvariant
INVARIANT ContentExact
INVARIANT ListingAgrees
INVARIANT NonFileIsNone
INVARIANT TextOfBinary
INVARIANT ScriptsExact
INVARIANT Md5Exact
INVARIANT Md5ModesAgree
INVARIANT ChangelogOrder
INVARIANT VersionStripped
INVARIANT GateClosed
INVARIANT CacheTransparent
INVARIANT NameIsOwn
PROPERTY HandlesIndependent
PROPERTY CloseSafe
PROPERTY OnlyCloseCloses
PROPERTY RaisesOnlyClosed
VIEW XView
CHECK_DEADLOCK FALSE
