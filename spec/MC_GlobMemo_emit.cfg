CONSTANTS
  Sigma = {}
  NSigma = {}
  MaxParas = 1
  MaxPats = 2
  MaxPatLen = 2
  MaxSyms = 4
  MaxNameLen = 2
  Discipline = "full"
  DotAll = TRUE
  FindFirst = FALSE
  AffixFrom = 0
  Emit = "lts"
  BlockLen = 0
  MemoKeyJoined = FALSE
  JoinSep = 10
  MPool <- MCMPool
  MNames <- MCMNames
SPECIFICATION MSpec
VIEW MViewCur
CHECK_DEADLOCK FALSE
