------------------------------ MODULE WatchFile ------------------------------
(***************************************************************************)
(* X02 (extra) -- debian/watch files: lib/debian/watch.py                  *)
(*   WatchFile.from_lines / WatchFile.dump / Watch.                        *)
(*                                                                         *)
(* STATEMENT.  For every watch file made of a `version=N` line, global     *)
(* option lines (`opts=a,b` / `opts="a, b"`) and entries (`[opts=..] url   *)
(* [pattern [version [script]]]`, the pattern possibly written as the last *)
(* path component of the url when it contains a (..) group), with comment  *)
(* lines / blank lines between the logical lines, blanks around them and   *)
(* the logical lines folded over backslash continuation lines (format      *)
(* >= 4: anywhere except directly before a blank, continuation lines       *)
(* indented at will; format <= 3: anywhere when the continuation line is   *)
(* not indented, at a blank between two fields when it is), from_lines     *)
(* returns exactly the version, the global options in file order and the   *)
(* entries that were written, strict or not.  dump() of that WatchFile is  *)
(* the normal form (version line, one opts line, one line per entry,       *)
(* quotes exactly when an option contains a blank); parsing the dump gives *)
(* an equal WatchFile and dumping again the identical text (as long as no  *)
(* list of options holds both an option with a '"' and one with a blank:   *)
(* the format cannot express that).  Without a                             *)
(* version line as first logical line from_lines raises MissingVersion     *)
(* (None when there is no logical line at all); an opts= without options,  *)
(* an unterminated quote or a non-numeric version raise ValueError; a      *)
(* trailing continuation raises WatchFileFormatError when strict and       *)
(* warns otherwise.                                                        *)
(*                                                                         *)
(* TEXT.  A physical line is a sequence of SYMBOLS (naturals): 1..99 are   *)
(* opaque words (non-empty, no white space, none of the special            *)
(* characters; word 1 is only used as the head of a url and may contain    *)
(* '/'), >= 100 the characters the parser looks at: SP1 SP2 (runs of       *)
(* blanks/tabs; SP1 between fields, SP2 inside a script or a quoted        *)
(* option and as indentation), SPD (exactly one space, what dump writes),  *)
(* BS '\', HASH '#', QT '"', CM ',', SL '/', LP '(', RP ')', OPTS          *)
(* 'opts=', VERS 'version', EQ '=', Num(v) the number of the version line  *)
(* (v = 3 stands for every N <= 3, v = 4 for every N >= 4).  The newline   *)
(* of a line is implicit.  Lengths of words and blank runs, the number N   *)
(* and the text of comments are invisible here: the model is length-       *)
(* independent by construction and sizes are a matter of concretization    *)
(* (harness/props/x02.py).                                                 *)
(*                                                                         *)
(* LAYERS.                                                                 *)
(*  document   Items (logical lines with their meaning, built from         *)
(*             Prefixes x UrlShapes x Tails), Lay / Render (pads, one or   *)
(*             two folds, indentation), Gaps (comment / blank lines),      *)
(*             VLine; the variables hold the text written so far and what  *)
(*             it MEANS (wver, wopts, wents) -- the meaning never looks    *)
(*             at the layout.                                              *)
(*  parser     PStep / PEnd: the line automaton of from_lines, one branch  *)
(*             per branch of its loop (Comment, Blank, Continued,          *)
(*             Complete; Dangling at the end), PVersion (first logical     *)
(*             line), POpts (quoted / unquoted / none), PLine (url,        *)
(*             pattern-in-url, fields).  It is written as a STREAM         *)
(*             automaton: a logical line is handled when its last          *)
(*             physical line arrives and the first error sticks, which is  *)
(*             what the two passes of the code amount to; PEnd gives what  *)
(*             the caller gets when the input ends here (used for prefix   *)
(*             observations in TraceWatchFile).                            *)
(*  writer     DSer / DEntry / DumpLines: dump().                          *)
(*                                                                         *)
(* ZONES.  wzone = "dom": the statement applies (ParseOK; RoundTrip, which  *)
(* includes the normal form).  "glue": a fold whose effect on the content depends on     *)
(* the format (>= 4 directly before a blank; <= 3 indented inside a        *)
(* field) and "inner": a comment / blank line between two continuation     *)
(* lines (the code skips it, uscan does not) -- the parser model predicts  *)
(* the result (the repository's test_parse_continued_leading_spaces_3 is   *)
(* of this kind) but the harness treats a difference as drift only.        *)
(*                                                                         *)
(* FINDINGS visible in the model (the CODE behaves like the negative       *)
(* control, see harness/props/x02.py KNOWN):                               *)
(*   LeakBlank = TRUE   after quoted options the rest of the line keeps    *)
(*        its leading blank, so a url that is the only field is ' url'     *)
(*        -> ParseOK violated.  The design strips it.                      *)
(*   PPKnown = FALSE    a url whose directory AND file component contain   *)
(*        a (..) group is split once by the parser, written with a blank   *)
(*        by dump, and split AGAIN when the dump is read                   *)
(*        -> RoundTrip violated (a defect of the format design itself:     *)
(*        the model shows it; PPKnown = TRUE takes such documents out of   *)
(*        RoundTrip).                                                      *)
(*   bare `opts=`: the model says ValueError (POpts), the code raises      *)
(*        IndexError.                                                      *)
(* Other spec-level negative controls (each tried, each makes TLC report   *)
(* the named invariant; x02.py re-runs them in every check):               *)
(*   StripIndentV3 = TRUE   (format 3 treated like 4)   -> ParseOK         *)
(*   NeverQuote = TRUE      (dump never writes quotes)  -> RoundTrip       *)
(*   CommentEndsCont = TRUE (a comment line ends a pending continuation)   *)
(*                          -> InnerSkipped                                *)
(* Also checked in every state: NoVersion (the text without its version    *)
(* line: MissingVersion / None) and BadOK (nine one-defect variants of the *)
(* documents written without folds and comments: dangling continuation,    *)
(* bare opts=, unterminated quote, junk / trailing junk / nothing after     *)
(* `version=`, version line last, options before the version line).        *)
(*                                                                         *)
(* Configurations (spec/WatchFile_*.cfg; states on the current model):     *)
(*   quick_layout  1 line, 118 items, pads + every single fold     7 850   *)
(*   quick_seq     2 lines, 3 items, comment/blank lines, 3 forms          *)
(*                 of the version line                             9 540   *)
(*   layout        1 line, all 314 items, every single fold       22 578   *)
(*   cut2          1 line, 118 items, every double fold           39 926   *)
(*   pairs         2 lines, 118 x 118 items                      153 902   *)
(*   seq3          3 lines, 3 items, three kinds of gaps          47 730   *)
(*   gaps          2 lines, 3 items, all eight kinds of gaps      80 736   *)
(*   neg           1 line, 20 items (base of the negative controls)        *)
(***************************************************************************)
EXTENDS Integers, Sequences, FiniteSets, TLC, Json

CONSTANTS Vers,            \* format versions enumerated: subset of {3, 4}
          MaxItems,        \* logical lines after the version line
          ItemMode,        \* "full": Prefixes x UrlShapes x Tails (314 items); "mid": all prefixes and url
                           \* shapes, fewer tails (118); "core": 17 items; "tiny": 3 items
          LayoutMode,      \* 0: flat + one canonical fold; 1: pads + every single fold; 2: + every double fold
          GapMode,         \* 0: no comment / blank lines; 1: all kinds, before every logical line and at the end;
                           \* 2: three kinds
          VFormMode,       \* 0: "version=N"; 1: also "version = N" and " version=N "
          StripIndentV3, LeakBlank, NeverQuote, PPKnown, CommentEndsCont,
          Emit             \* TRUE: print CASE / BAD lines for the harness

VARIABLES wver,            \* the format version written
          wlines,          \* the physical lines written so far
          wvpos,           \* index of the version line in wlines
          wopts, wents,    \* what the text means: global options, entries
          wzone,           \* "dom" | "glue" | "inner"
          wpp,             \* some entry has a (..) group in the directory and in the file component
          wn,              \* logical lines after the version line
          wclosed,         \* trailing comment / blank lines written
          wf1,             \* indexes of the entries written with quoted options and the url as only field
          wsegs,           \* per logical line: [n = physical lines incl. the comment / blank lines before it,
                           \* g = global option line, k = number of options]  (size stress: see x02.py)
          wcur             \* the logical line chosen but not yet laid out (<<>>: none); such half-way states are
                           \* not documents: nothing is checked or emitted for them (they spread the work of
                           \* enumerating layouts over TLC's workers)
vars == <<wver, wlines, wvpos, wopts, wents, wzone, wpp, wn, wclosed, wf1, wsegs, wcur>>

----------------------------------------------------------------------------
\* symbols
SP1 == 100  SP2 == 101  SPD == 102  BS == 103  HASH == 104  QT == 105  CM == 106
SL == 107   LP == 108   RP == 109   OPTS == 110 VERS == 111  EQ == 112
Num(v)   == 200 + v
IsNum(x) == x > 200
IsSp(x)  == x = SP1 \/ x = SP2 \/ x = SPD

----------------------------------------------------------------------------
\* pure text operators (str.strip / lstrip / rstrip / split(None, n) / split(',') / index)

RECURSIVE WfLStrip(_)
WfLStrip(s) == IF s = <<>> THEN s ELSE IF IsSp(s[1]) THEN WfLStrip(Tail(s)) ELSE s
RECURSIVE WfRStrip(_)
WfRStrip(s) == IF s = <<>> THEN s ELSE IF IsSp(s[Len(s)]) THEN WfRStrip(SubSeq(s, 1, Len(s) - 1)) ELSE s
WfStrip(s) == WfLStrip(WfRStrip(s))
RECURSIVE WfRStripBS(_)            \* rstrip('\n\\')
WfRStripBS(s) == IF s = <<>> THEN s ELSE IF s[Len(s)] = BS THEN WfRStripBS(SubSeq(s, 1, Len(s) - 1)) ELSE s

RECURSIVE WfIndex(_, _, _)         \* s.index(x, from), 1-based; 0: not found
WfIndex(s, x, from) == IF from > Len(s) THEN 0 ELSE IF s[from] = x THEN from ELSE WfIndex(s, x, from + 1)
RECURSIVE WfLastFrom(_, _, _)
WfLastFrom(s, x, i) == IF i = 0 THEN 0 ELSE IF s[i] = x THEN i ELSE WfLastFrom(s, x, i - 1)
WfLastIndex(s, x)   == WfLastFrom(s, x, Len(s))
RECURSIVE WfSpFrom(_, _)
WfSpFrom(s, i)      == IF i > Len(s) THEN 0 ELSE IF IsSp(s[i]) THEN i ELSE WfSpFrom(s, i + 1)
WfFirstSp(s)        == WfSpFrom(s, 1)

\* s.split(None, n): at most n splits at runs of blanks, leading blanks skipped
RECURSIVE WfSplit(_, _)
WfSplit(s, n) == LET t == WfLStrip(s) IN
   IF t = <<>> THEN <<>>
   ELSE IF n = 0 THEN <<t>>
   ELSE LET i == WfFirstSp(t) IN
        IF i = 0 THEN <<t>> ELSE <<SubSeq(t, 1, i - 1)>> \o WfSplit(SubSeq(t, i, Len(t)), n - 1)

RECURSIVE WfSplitOn(_, _)          \* s.split(x)
WfSplitOn(s, x) == LET i == WfIndex(s, x, 1) IN
   IF i = 0 THEN <<s>> ELSE <<SubSeq(s, 1, i - 1)>> \o WfSplitOn(SubSeq(s, i + 1, Len(s)), x)

RECURSIVE WfFlatten(_)             \* ''.join(ss)
WfFlatten(ss) == IF Len(ss) = 0 THEN <<>> ELSE ss[1] \o WfFlatten(Tail(ss))
RECURSIVE WfJoin(_, _)             \* x.join(ss)
WfJoin(ss, x) == IF Len(ss) = 0 THEN <<>> ELSE IF Len(ss) = 1 THEN ss[1] ELSE ss[1] \o <<x>> \o WfJoin(Tail(ss), x)

\* re.findall(r'/([^/]*\([^/]*\)[^/]*)$', url): position of the '/' before a last component with a (..) group, or 0
WfParenTail(url) == LET j == WfLastIndex(url, SL) IN
   IF j = 0 THEN 0
   ELSE IF \E a \in (j + 1)..Len(url) : \E b \in (a + 1)..Len(url) : url[a] = LP /\ url[b] = RP THEN j ELSE 0

Ent(url, mp, vr, sc, o) == [url |-> url, mp |-> mp, vr |-> vr, sc |-> sc, o |-> o]   \* <<>> = None

----------------------------------------------------------------------------
\* parser: the line automaton of WatchFile.from_lines

PInit == [st |-> "ok", ver |-> 0, nlog |-> 0, cont |-> <<>>, o |-> <<>>, es |-> <<>>]

\* first logical line: key, value = firstline.split('=', 1); key.strip() == 'version'; int(value.strip())
PVersion(s, chunks) ==
   LET first == WfFlatten(chunks)
       i     == WfIndex(first, EQ, 1)
   IN IF i = 0 THEN [s EXCEPT !.st = "MissingVersion"]
      ELSE IF WfStrip(SubSeq(first, 1, i - 1)) # <<VERS>> THEN [s EXCEPT !.st = "MissingVersion"]
      ELSE LET val == WfStrip(SubSeq(first, i + 1, Len(first))) IN
           IF Len(val) = 1 /\ IsNum(val[1]) THEN [s EXCEPT !.ver = val[1] - 200]
           ELSE [s EXCEPT !.st = "ValueError"]

\* the options in front of a (stripped, non-empty) logical line -> [ok, o, rest]
POpts(line) ==
   IF line[1] # OPTS THEN [ok |-> TRUE, o |-> <<>>, rest |-> line]
   ELSE IF Len(line) = 1 THEN [ok |-> FALSE, o |-> <<>>, rest |-> <<>>]       \* "opts=" and nothing else
   ELSE IF line[2] = QT
        THEN LET e == WfIndex(line, QT, 3) IN
             IF e = 0 THEN [ok |-> FALSE, o |-> <<>>, rest |-> <<>>]          \* no closing quote
             ELSE [ok |-> TRUE, o |-> WfSplitOn(SubSeq(line, 3, e - 1), CM),
                   rest |-> LET r == SubSeq(line, e + 1, Len(line)) IN IF LeakBlank THEN r ELSE WfLStrip(r)]
        ELSE LET body == SubSeq(line, 2, Len(line))
                 p    == WfSplit(body, 1)
             IN IF Len(p) = 2 THEN [ok |-> TRUE, o |-> WfSplitOn(p[1], CM), rest |-> p[2]]
                ELSE [ok |-> TRUE, o |-> WfSplitOn(body, CM), rest |-> <<>>]

PLine(s, line) ==
   LET po == POpts(line) IN
   IF ~po.ok THEN [s EXCEPT !.st = "ValueError"]
   ELSE IF po.rest = <<>> THEN [s EXCEPT !.o = @ \o po.o]                     \* global options
   ELSE LET p     == WfSplit(po.rest, 1)
            url0  == IF Len(p) = 2 THEN p[1] ELSE po.rest
            more  == IF Len(p) = 2 THEN p[2] ELSE <<>>
            j     == WfParenTail(url0)
            parts == IF j > 0 THEN <<SubSeq(url0, j + 1, Len(url0))>> \o WfSplit(more, 1) ELSE WfSplit(more, 2)
            url   == IF j > 0 THEN SubSeq(url0, 1, j - 1) ELSE url0
            F(k)  == IF Len(parts) >= k THEN parts[k] ELSE <<>>
        IN [s EXCEPT !.es = Append(@, Ent(url, F(1), F(2), F(3), po.o))]

\* one complete logical line (its physical lines, continuation marks removed)
PLogical(s, chunks) ==
   IF s.st # "ok" THEN [s EXCEPT !.nlog = 1]                                  \* an error was raised before
   ELSE IF s.nlog = 0 THEN [PVersion(s, chunks) EXCEPT !.nlog = 1]
   ELSE LET cs   == IF s.ver > 3 \/ StripIndentV3 THEN [i \in 1..Len(chunks) |-> WfLStrip(chunks[i])] ELSE chunks
            line == WfStrip(WfFlatten(cs))
        IN IF line = <<>> THEN s ELSE PLine(s, line)

Branches == {"Comment", "Blank", "Continued", "Complete"}
PBranch(line) == IF line # <<>> /\ line[1] = HASH THEN "Comment"
                 ELSE IF WfStrip(line) = <<>> THEN "Blank"
                 ELSE IF line[Len(line)] = BS THEN "Continued"
                 ELSE "Complete"

PStep(s, line) ==
   LET b == PBranch(line) IN
   IF b = "Comment" /\ CommentEndsCont /\ s.cont # <<>> THEN [PLogical(s, s.cont) EXCEPT !.cont = <<>>]
   ELSE IF b \in {"Comment", "Blank"} THEN s
   ELSE IF b = "Continued" THEN [s EXCEPT !.cont = Append(@, WfRStripBS(line))]
   ELSE [PLogical(s, Append(s.cont, line)) EXCEPT !.cont = <<>>]

Res(r, ver, o, es, w) == [r |-> r, ver |-> ver, o |-> o, es |-> es, warn |-> w]
PResult(s, w) == IF s.nlog = 0 THEN Res("None", 0, <<>>, <<>>, w)
                 ELSE IF s.st # "ok" THEN Res(s.st, 0, <<>>, <<>>, w)
                 ELSE Res("ok", s.ver, s.o, s.es, w)

\* the input ends here.  A pending continuation: strict -> WatchFileFormatError (before anything else is looked
\* at); otherwise a warning, and the pending lines are used as the last logical line (what the code does; the
\* harness treats the RESULT of that case as unspecified and only requires the warning)
Dangling(s) == s.cont # <<>>
PEnd(s, strict) ==
   IF Dangling(s)
   THEN IF strict THEN Res("FormatError", 0, <<>>, <<>>, FALSE)
        ELSE PResult([PLogical(s, s.cont) EXCEPT !.cont = <<>>], TRUE)
   ELSE PResult(s, FALSE)

RECURSIVE PRun(_, _, _)
PRun(s, lines, i) == IF i > Len(lines) THEN s ELSE PRun(PStep(s, lines[i]), lines, i + 1)
Parse(lines, strict) == PEnd(PRun(PInit, lines, 1), strict)

----------------------------------------------------------------------------
\* writer: WatchFile.dump

DSer(o) == LET t == WfJoin(o, CM) IN
   IF ~NeverQuote /\ \E i \in 1..Len(t) : IsSp(t[i]) THEN <<OPTS, QT>> \o t \o <<QT>> ELSE <<OPTS>> \o t
DEntry(e) ==    (IF e.o # <<>> THEN DSer(e.o) \o <<SPD>> ELSE <<>>) \o e.url
             \o (IF e.mp # <<>> THEN <<SPD>> \o e.mp ELSE <<>>)
             \o (IF e.vr # <<>> THEN <<SPD>> \o e.vr ELSE <<>>)
             \o (IF e.sc # <<>> THEN <<SPD>> \o e.sc ELSE <<>>)
DumpLines(ver, o, es) ==    <<<<VERS, EQ, Num(ver)>>>>
                         \o (IF o # <<>> THEN <<DSer(o)>> ELSE <<>>)
                         \o [i \in 1..Len(es) |-> DEntry(es[i])]

----------------------------------------------------------------------------
\* documents: logical lines with their meaning

\* options in front of a line: t = text, o = the options it stands for
Prefixes ==
   { [t |-> <<>>,                                o |-> <<>>,                        q |-> FALSE],
     [t |-> <<OPTS, 2>>,                         o |-> << <<2>> >>,                 q |-> FALSE],
     [t |-> <<OPTS, 2, CM, 3>>,                  o |-> << <<2>>, <<3>> >>,          q |-> FALSE],
     [t |-> <<OPTS, QT, 2, QT>>,                 o |-> << <<2>> >>,                 q |-> TRUE],
     [t |-> <<OPTS, QT, 2, CM, SP2, 3, QT>>,     o |-> << <<2>>, <<SP2, 3>> >>,     q |-> TRUE],
     [t |-> <<OPTS, QT, 2, SP2, 3, QT>>,         o |-> << <<2, SP2, 3>> >>,         q |-> TRUE],
     [t |-> <<OPTS, 2, QT, CM, 3>>,              o |-> << <<2, QT>>, <<3>> >>,      q |-> FALSE] }   \* a stray quote inside unquoted options
PrefixesCore == {p \in Prefixes : p.t \in {<<>>, <<OPTS, 2, CM, 3>>, <<OPTS, QT, 2, CM, SP2, 3, QT>>}}

\* url field: t = text, url / mp = what it stands for (mp: pattern written as last path component)
UrlShapes ==
   { [t |-> <<1>>,                                       url |-> <<1>>,                 mp |-> <<>>,              pp |-> FALSE],
     [t |-> <<1, SL>>,                                   url |-> <<1, SL>>,             mp |-> <<>>,              pp |-> FALSE],
     [t |-> <<1, SL, 4, LP, 5, RP>>,                     url |-> <<1>>,                 mp |-> <<4, LP, 5, RP>>,  pp |-> FALSE],
     [t |-> <<1, SL, LP, 4, RP, SL, 4, LP, 5, RP, 6>>,   url |-> <<1, SL, LP, 4, RP>>,  mp |-> <<4, LP, 5, RP, 6>>, pp |-> TRUE],
     [t |-> <<1, SL, 4, LP, 5, RP, SL>>,                 url |-> <<1, SL, 4, LP, 5, RP, SL>>, mp |-> <<>>,        pp |-> FALSE],
     [t |-> <<1, SL, RP, 4, LP>>,                        url |-> <<1, SL, RP, 4, LP>>,  mp |-> <<>>,              pp |-> FALSE] }
UrlShapesCore == {u \in UrlShapes : Len(u.t) \in {1, 6, 11}}

MPs == {<<7>>, <<7, LP, 5, RP>>}
VR  == <<8>>
SCs == {<<9>>, <<9, SP2, 9>>}
TailsFor(u) == IF u.mp # <<>>
               THEN {<<>>, <<VR>>} \cup {<<VR, sc>> : sc \in SCs}
               ELSE {<<>>} \cup {<<mp>> : mp \in MPs} \cup {<<mp, VR>> : mp \in MPs} \cup {<<mp, VR, sc>> : mp \in MPs, sc \in SCs}
TailsCore(u) == IF u.mp # <<>> THEN {<<>>, <<VR, <<9, SP2, 9>>>>}
                ELSE {<<>>, <<<<7, LP, 5, RP>>>>, <<<<7>>, VR, <<9, SP2, 9>>>>}

MkEntry(pre, u, tail) ==
   LET fields == IF u.mp # <<>> THEN <<u.mp>> \o tail ELSE tail
       F(k)   == IF Len(fields) >= k THEN fields[k] ELSE <<>>
       c      ==    (IF pre.t # <<>> THEN pre.t \o <<SP1>> ELSE <<>>) \o u.t
                 \o WfFlatten([i \in 1..Len(tail) |-> <<SP1>> \o tail[i]])
   IN [c |-> c, g |-> FALSE, o |-> pre.o, url |-> u.url, mp |-> F(1), vr |-> F(2), sc |-> F(3), pp |-> u.pp,
       q1 |-> pre.q /\ tail = <<>>]      \* quoted options and the url as only field (see LeakBlank)
MkGlobal(pre) == [c |-> pre.t, g |-> TRUE, o |-> pre.o, url |-> <<>>, mp |-> <<>>, vr |-> <<>>, sc |-> <<>>, pp |-> FALSE,
                  q1 |-> FALSE]

ItemsFull == {MkGlobal(p) : p \in {q \in Prefixes : q.t # <<>>}}
             \cup UNION {UNION {{MkEntry(p, u, tl) : tl \in TailsFor(u)} : u \in UrlShapes} : p \in Prefixes}
ItemsCore == {MkGlobal(p) : p \in {q \in PrefixesCore : q.t # <<>>}}
             \cup UNION {UNION {{MkEntry(p, u, tl) : tl \in TailsCore(u)} : u \in UrlShapesCore} : p \in PrefixesCore}
ItemsTiny == { MkGlobal([t |-> <<OPTS, QT, 2, CM, SP2, 3, QT>>, o |-> << <<2>>, <<SP2, 3>> >>, q |-> TRUE]),
               MkEntry([t |-> <<OPTS, 2, CM, 3>>, o |-> << <<2>>, <<3>> >>, q |-> FALSE],
                       [t |-> <<1, SL, 4, LP, 5, RP>>, url |-> <<1>>, mp |-> <<4, LP, 5, RP>>, pp |-> FALSE], <<VR>>),
               MkEntry([t |-> <<>>, o |-> <<>>, q |-> FALSE], [t |-> <<1>>, url |-> <<1>>, mp |-> <<>>, pp |-> FALSE],
                       <<<<7>>, VR, <<9, SP2, 9>>>>) }
ItemsMid  == {MkGlobal(p) : p \in {q \in Prefixes : q.t # <<>>}}
             \cup UNION {UNION {{MkEntry(p, u, tl) : tl \in TailsCore(u)} : u \in UrlShapes} : p \in Prefixes}
Items == CASE ItemMode = "full" -> ItemsFull [] ItemMode = "mid" -> ItemsMid
           [] ItemMode = "core" -> ItemsCore [] ItemMode = "tiny" -> ItemsTiny

----------------------------------------------------------------------------
\* layouts of one logical line c: pads, folds (cut after symbol p, continuation line indented by ind or not), a
\* comment / blank line between the two physical lines

NoInd == 0
Inds  == {NoInd, SP2}
FirstSep(c) == WfIndex(c, SP1, 1)
Cuts(c)     == 1..(Len(c) - 1)

Flat(pad)            == [k |-> "flat", pad |-> pad, p |-> 0, q |-> 0, ind |-> NoInd, inner |-> "none"]
Cut1(p, ind, inner)  == [k |-> "cut", pad |-> 0, p |-> p, q |-> 0, ind |-> ind, inner |-> inner]
Cut2(p, q, ind)      == [k |-> "cut2", pad |-> 0, p |-> p, q |-> q, ind |-> ind, inner |-> "none"]

Lay(c) ==
   LET f == FirstSep(c) IN
   CASE LayoutMode = 0 -> {Flat(0)} \cup (IF f > 0 THEN {Cut1(f, SP2, "none")} ELSE {})
     [] LayoutMode = 1 ->      {Flat(pad) : pad \in 0..3}
                          \cup {Cut1(p, ind, "none") : p \in Cuts(c), ind \in Inds}
                          \cup (IF f > 0 THEN {Cut1(f, ind, g) : ind \in Inds, g \in {"C", "B"}} ELSE {})
     [] LayoutMode = 2 ->      {Flat(0)}
                          \cup {Cut2(pq[1], pq[2], ind) : pq \in {x \in Cuts(c) \X Cuts(c) : x[1] < x[2]}, ind \in Inds}

\* is a fold after symbol p covered by the statement?
CutZone(c, v, p, ind) ==
   IF v > 3 THEN (IF IsSp(c[p + 1]) THEN "glue" ELSE "dom")
   ELSE IF ind = NoInd THEN "dom"
   ELSE IF c[p] = SP1 \/ c[p + 1] = SP1 THEN "dom" ELSE "glue"
Worse(z1, z2) == IF z1 # "dom" THEN z1 ELSE z2
LayZone(c, v, l) ==
   CASE l.k = "flat" -> "dom"
     [] l.k = "cut"  -> IF l.inner # "none" THEN "inner" ELSE CutZone(c, v, l.p, l.ind)
     [] l.k = "cut2" -> Worse(CutZone(c, v, l.p, l.ind), CutZone(c, v, l.q, l.ind))

GapKinds == {"none", "C", "CV", "CO", "CB", "B", "WB", "CBW"}
GapLines(g) == CASE g = "none" -> <<>>
                 [] g = "C"    -> << <<HASH, 2>> >>
                 [] g = "CV"   -> << <<HASH, VERS, EQ, Num(3)>> >>           \* a comment that looks like a version line
                 [] g = "CO"   -> << <<HASH, OPTS, 2, SP1, 1>> >>            \* ... like an entry
                 [] g = "CB"   -> << <<HASH, 2, BS>> >>                      \* a comment that ends in a backslash
                 [] g = "B"    -> << <<>> >>
                 [] g = "WB"   -> << <<SP1>> >>
                 [] g = "CBW"  -> << <<HASH>>, <<>>, <<SP2>> >>
Gaps == CASE GapMode = 0 -> {"none"} [] GapMode = 1 -> GapKinds [] GapMode = 2 -> {"none", "CB", "CBW"}
TailGaps == IF GapMode = 2 THEN {"CB"} ELSE {"CBW", "CB"}

Indent(ind) == IF ind = NoInd THEN <<>> ELSE <<ind>>
Render(c, l) ==
   CASE l.k = "flat" -> << (IF l.pad \in {1, 3} THEN <<SP1>> ELSE <<>>) \o c \o (IF l.pad \in {2, 3} THEN <<SP1>> ELSE <<>>) >>
     [] l.k = "cut"  ->    << SubSeq(c, 1, l.p) \o <<BS>> >> \o GapLines(l.inner)
                        \o << Indent(l.ind) \o SubSeq(c, l.p + 1, Len(c)) >>
     [] l.k = "cut2" -> << SubSeq(c, 1, l.p) \o <<BS>>,
                           Indent(l.ind) \o SubSeq(c, l.p + 1, l.q) \o <<BS>>,
                           Indent(l.ind) \o SubSeq(c, l.q + 1, Len(c)) >>

VForms == IF VFormMode = 0 THEN {"tight"} ELSE {"tight", "spaced", "padded"}
VLine(f, v) == CASE f = "tight"  -> <<VERS, EQ, Num(v)>>
                 [] f = "spaced" -> <<VERS, SP1, EQ, SP2, Num(v)>>
                 [] f = "padded" -> <<SP1, VERS, EQ, Num(v), SP2>>

----------------------------------------------------------------------------
\* every document of the bound: the version line, then MaxItems logical lines, each in every layout

Init == /\ wver \in Vers
        /\ \E g \in Gaps, f \in VForms : /\ wlines = GapLines(g) \o <<VLine(f, wver)>>
                                         /\ wvpos = Len(GapLines(g)) + 1
        /\ wopts = <<>> /\ wents = <<>> /\ wzone = "dom" /\ wpp = FALSE /\ wn = 0 /\ wclosed = FALSE
        /\ wcur = <<>> /\ wf1 = <<>> /\ wsegs = <<>>

IsDoc == wcur = <<>>

ChooseItem == /\ IsDoc /\ ~wclosed /\ wn < MaxItems
              /\ \E it \in Items : wcur' = <<it>>
              /\ UNCHANGED <<wver, wlines, wvpos, wopts, wents, wzone, wpp, wn, wclosed, wf1, wsegs>>

AddItem == /\ ~IsDoc
           /\ LET it == wcur[1] IN \E g \in Gaps : \E l \in Lay(it.c) :
                 /\ wlines' = wlines \o GapLines(g) \o Render(it.c, l)
                 /\ wopts' = IF it.g THEN wopts \o it.o ELSE wopts
                 /\ wents' = IF it.g THEN wents ELSE Append(wents, Ent(it.url, it.mp, it.vr, it.sc, it.o))
                 /\ wzone' = Worse(wzone, LayZone(it.c, wver, l))
                 /\ wpp' = (wpp \/ it.pp)
                 /\ wf1' = IF it.q1 THEN Append(wf1, Len(wents) + 1) ELSE wf1
                 /\ wsegs' = Append(wsegs, [n |-> Len(GapLines(g)) + Len(Render(it.c, l)), g |-> it.g, k |-> Len(it.o)])
           /\ wn' = wn + 1 /\ wcur' = <<>>
           /\ UNCHANGED <<wver, wvpos, wclosed>>

Close == /\ IsDoc /\ ~wclosed /\ GapMode > 0
         /\ \E g \in TailGaps : wlines' = wlines \o GapLines(g)
         /\ wclosed' = TRUE
         /\ UNCHANGED <<wver, wvpos, wopts, wents, wzone, wpp, wn, wf1, wsegs, wcur>>

Next == ChooseItem \/ AddItem \/ Close
Spec == Init /\ [][Next]_vars

----------------------------------------------------------------------------
\* what is checked in every state (= for every document of the bound)

Expected == Res("ok", wver, wopts, wents, FALSE)
InDom    == IsDoc /\ wzone = "dom"
\* the format has no escape for '"': a list of options that needs quotes (some option contains a blank) cannot hold
\* an option with a '"' (the stray quotes of test_parse_weird_quotes are read, but such a list is outside RoundTrip)
QuoteClashIn(o) == LET t == WfJoin(o, CM) IN (\E i \in 1..Len(t) : t[i] = QT) /\ (\E i \in 1..Len(t) : IsSp(t[i]))
QuoteClash == QuoteClashIn(wopts) \/ \E i \in 1..Len(wents) : QuoteClashIn(wents[i].o)
RtDom    == InDom /\ ~(PPKnown /\ wpp) /\ ~QuoteClash

TypeOK == /\ wver \in Vers /\ wzone \in {"dom", "glue", "inner"} /\ wn \in 0..MaxItems
          /\ wvpos \in 1..Len(wlines) /\ \A i \in 1..Len(wlines) : PBranch(wlines[i]) \in Branches

\* from_lines returns what was written, strict or not
ParseOK == InDom => LET s == PRun(PInit, wlines, 1) IN PEnd(s, FALSE) = Expected /\ PEnd(s, TRUE) = Expected

\* parse(dump(wf)) == wf; dump(parse(dump(wf))) == dump(wf); the dump has the normal form: one physical line per
\* logical line, no comment, nothing to strip
RoundTrip == RtDom =>
   LET d == DumpLines(wver, wopts, wents)
       r == Parse(d, TRUE)
   IN /\ r = Expected
      /\ DumpLines(r.ver, r.o, r.es) = d
      /\ Len(d) = 1 + (IF wopts # <<>> THEN 1 ELSE 0) + Len(wents)
      /\ \A i \in 1..Len(d) : PBranch(d[i]) = "Complete" /\ WfStrip(d[i]) = d[i]

\* without the version line: MissingVersion, or None when nothing but comments and blank lines is left
DropLine(ls, i) == SubSeq(ls, 1, i - 1) \o SubSeq(ls, i + 1, Len(ls))
NoVersionRes == Parse(DropLine(wlines, wvpos), FALSE).r
NoVersion == IsDoc => NoVersionRes = (IF wn = 0 THEN "None" ELSE "MissingVersion")

\* comment / blank lines between two continuation lines are skipped by the automaton ("inner" zone): the same
\* text without them parses to the same result
IsSkipped(line) == PBranch(line) \in {"Comment", "Blank"}
RECURSIVE Unskipped(_)
Unskipped(ls) == IF ls = <<>> THEN <<>> ELSE (IF IsSkipped(ls[1]) THEN <<>> ELSE <<ls[1]>>) \o Unskipped(Tail(ls))
InnerSkipped == (IsDoc /\ \E i \in 1..Len(wlines) : IsSkipped(wlines[i])) =>
                   Parse(Unskipped(wlines), FALSE) = Parse(wlines, FALSE)

----------------------------------------------------------------------------
\* malformed variants of a document (one defect each) and what from_lines must do with them

BadKinds == {"dangling", "bareopts", "bareopts-mid", "unterminated", "verjunk", "vertrail", "verempty", "verlate", "optsfirst"}
BadApplies(k) == CASE k \in {"verlate"} -> wn >= 1 /\ wvpos = 1
                   [] k = "dangling" -> PBranch(wlines[Len(wlines)]) = "Complete"
                   [] OTHER -> TRUE
BadLines(k) ==
   CASE k = "dangling"     -> [wlines EXCEPT ![Len(wlines)] = @ \o <<BS>>]
     [] k = "bareopts"     -> wlines \o << <<OPTS>> >>
     [] k = "bareopts-mid" -> wlines \o << <<SP1, OPTS, SP2>>, <<1, SP1, 7>> >>
     [] k = "unterminated" -> wlines \o << <<OPTS, QT, 2, CM, SP2, 3, SP1, 1, SP1, 7>> >>
     [] k = "verjunk"      -> [wlines EXCEPT ![wvpos] = <<VERS, EQ, 2>>]
     [] k = "vertrail"     -> [wlines EXCEPT ![wvpos] = <<VERS, EQ, Num(wver), SP1, 2>>]
     [] k = "verempty"     -> [wlines EXCEPT ![wvpos] = <<VERS, EQ>>]
     [] k = "verlate"      -> Tail(wlines) \o <<wlines[1]>>
     [] k = "optsfirst"    -> << <<OPTS, 2>> >> \o wlines
BadExpected(k, strict) ==
   CASE k = "dangling" -> IF strict THEN "FormatError" ELSE "warn"
     [] k \in {"bareopts", "bareopts-mid", "unterminated", "verjunk", "vertrail", "verempty"} -> "ValueError"
     [] k \in {"verlate", "optsfirst"} -> "MissingVersion"
Outcome(r) == IF r.warn THEN "warn" ELSE r.r
\* (for documents written without folds, comment and blank lines)
BadDom == InDom /\ ~wclosed /\ Len(wlines) = 1 + wn
BadOK == BadDom => \A k \in BadKinds : BadApplies(k) =>
            \A strict \in BOOLEAN : Outcome(Parse(BadLines(k), strict)) = BadExpected(k, strict)

----------------------------------------------------------------------------
\* emission for the harness (spec -> code)

EmitCase == (Emit /\ IsDoc) => PrintT(<<"CASE", ToJson(
   [ver |-> wver, lines |-> wlines, zone |-> wzone, pp |-> wpp, n |-> wn, f1 |-> wf1, segs |-> wsegs, vpos |-> wvpos, qc |-> QuoteClash,
    exp |-> IF InDom THEN Expected ELSE Parse(wlines, FALSE),
    dump |-> IF InDom THEN DumpLines(wver, wopts, wents) ELSE <<>>,
    nover |-> NoVersionRes])>>)
EmitBad == (Emit /\ BadDom) => \A k \in {x \in BadKinds : BadApplies(x)} :
   PrintT(<<"CBAD", ToJson([kind |-> k, lines |-> BadLines(k),
                            strict |-> Outcome(Parse(BadLines(k), TRUE)), lax |-> Outcome(Parse(BadLines(k), FALSE))])>>)
=============================================================================
