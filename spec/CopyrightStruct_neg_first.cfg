CONSTANTS
  Which = "one"
  MaxLen = 3
  NF = 2
  NL = 1
  Emit = FALSE
  AddMode = "afterfirst"
  SharedList = FALSE
SPECIFICATION SSpec
PROPERTY AddFilesRule
VIEW SView
CHECK_DEADLOCK FALSE
