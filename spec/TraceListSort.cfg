SPECIFICATION TSpec
INVARIANT TValuesWellFormed
INVARIANT TLayoutOK
CHECK_DEADLOCK FALSE
